/-
C05 — third induction: every op tree that COMPLETES leaves `last_verb` (what query_verb() yields) as it was, or cleared
(user_parser clears it after a verb function returned, also for a nested command) — whatever was caught inside, because
`restore_context` puts back the value `save_context` recorded (the repaired code).  With `driver_restores` (failure case)
this carries the `qv` clause of the oracle for evaluations started outside any command (last_verb = 0).
-/
import NV.C05.Guards
import NV.C05.Backend

namespace NV.C05

/-- a completed evaluation leaves last_verb as it was, or cleared -/
def VK (m : M) : Res → Prop
  | .ok m' => m'.lastVerb = m.lastVerb ∨ m'.lastVerb = 0
  | _ => True

theorem VK.of_eq {m m1 : M} {r : Res} (h : m1.lastVerb = m.lastVerb) (hr : VK m1 r) : VK m r := by
  cases r with
  | ok m' => rcases hr with a | a; exact Or.inl (a.trans h); exact Or.inr a
  | err m' => trivial
  | crash w m' => trivial

theorem VK.of_rel {m m1 : M} {r : Res} (h : m1.lastVerb = m.lastVerb ∨ m1.lastVerb = 0) (hr : VK m1 r) : VK m r := by
  cases r with
  | ok m' =>
    rcases hr with a | a
    · rcases h with b | b
      · exact Or.inl (a.trans b)
      · exact Or.inr (a.trans b)
    · exact Or.inr a
  | err m' => trivial
  | crash w m' => trivial

theorem VK.of_not_ok {m : M} {r : Res} (h : ∀ x, r = .ok x → False) : VK m r := by
  cases r with
  | ok x => exact (h x rfl).elim
  | err x => trivial
  | crash w x => trivial

/-- a result whose ok-state has the last_verb of an ok-state of `r` -/
theorem VK.map {m : M} {r r' : Res} (hr : VK m r)
    (h : ∀ x', r' = .ok x' → ∃ x, r = .ok x ∧ x'.lastVerb = x.lastVerb) : VK m r' := by
  cases r' with
  | ok x' =>
    obtain ⟨x, hx, e⟩ := h x' rfl
    subst hx
    rcases hr with a | a
    · exact Or.inl (e.trans a)
    · exact Or.inr (e.trans a)
  | err x => trivial
  | crash w x => trivial

theorem vrel_step {m x y : M} (h : x.lastVerb = m.lastVerb ∨ x.lastVerb = 0) (e : y.lastVerb = x.lastVerb) :
    y.lastVerb = m.lastVerb ∨ y.lastVerb = 0 := by
  rcases h with a | a
  · exact Or.inl (e.trans a)
  · exact Or.inr (e.trans a)

theorem raise_vk (msg : String) (m m0 : M) : VK m (raise msg m0) := by
  have h := raise_rspec msg (Same.rfl' m0).toExt
  cases hr : raise msg m0 with
  | ok m' => rw [hr] at h; exact h.elim
  | err m' => trivial
  | crash w m' => trivial

theorem longjmp_vk (m m0 : M) : VK m (longjmp m0) := by
  unfold longjmp; split <;> trivial

theorem throwVal_vk (v : String) (m m0 : M) : VK m (throwVal v m0) := by
  unfold throwVal
  split
  · exact longjmp_vk _ _
  · exact raise_vk _ _ _

theorem tick_verb (m : M) : (tick m).2.lastVerb = m.lastVerb := by
  unfold tick
  split
  · rfl
  · rfl
  · split <;> rfl

theorem popStack_verb {m m' : M} (h : popStack m = some m') : m'.lastVerb = m.lastVerb := by
  unfold popStack at h
  split at h
  · cases h
  · cases h; rfl
  · cases h; rfl

theorem popN_verb : ∀ (n : Nat) (m m' : M), popN n m = some m' → m'.lastVerb = m.lastVerb
  | 0, m, m', h => by simp only [popN] at h; cases h; rfl
  | n + 1, m, m', h => by
    simp only [popN] at h
    split at h
    · cases h
    · rename_i m1 h1
      exact (popN_verb n m1 m' h).trans (popStack_verb h1)

theorem popFrame_verb {m m' : M} (h : popFrame m = some m') : m'.lastVerb = m.lastVerb := by
  unfold popFrame at h
  split at h
  · cases h
  · cases h; rfl

theorem dropTop_verb {m m' : M} (h : dropTop m = some m') : m'.lastVerb = m.lastVerb := by
  unfold dropTop at h
  split at h
  · cases h
  · cases h; rfl

theorem thenTick_vk {m : M} {r : Res} (h : VK m r) : VK m (thenTick r) := by
  cases r with
  | ok m1 =>
    simp only [thenTick]
    split
    · exact raise_vk _ _ _
    · exact VK.map (r := .ok m1) h (fun x' hx => ⟨m1, rfl, by cases hx; exact tick_verb m1⟩)
  | err m1 => trivial
  | crash w m1 => trivial

theorem tmpFinish_vk {n : Nat} {m : M} {r : Res} (h : VK m r) : VK m (tmpFinish n r) := by
  cases r with
  | ok m1 =>
    refine VK.map (r := .ok m1) h (fun x' hx => ⟨m1, rfl, ?_⟩)
    simp only [tmpFinish] at hx
    split at hx
    · rename_i m2 hp; cases hx; exact popN_verb _ _ _ hp
    · cases hx
  | err m1 => trivial
  | crash w m1 => trivial

theorem handlerFinish_vk {m : M} {r : Res} (h : VK m r) : VK m (handlerFinish r) := by
  cases r with
  | ok m1 =>
    refine VK.map (r := .ok m1) h (fun x' hx => ⟨m1, rfl, ?_⟩)
    simp only [handlerFinish] at hx
    split at hx
    · rename_i m2 hp
      have e2 := dropTop_verb hp
      cases hx; exact e2
    · cases hx
  | err m1 => trivial
  | crash w m1 => trivial

theorem leaveCall_verb {k : CallKind} {d : Nat} {m4 m5 : M} (h : leaveCall k d m4 = .ok m5) : m5.lastVerb = m4.lastVerb := by
  simp only [leaveCall] at h
  split at h
  · cases h
  · rename_i m1 hp
    have g1 := popN_verb _ _ _ hp
    split at h
    · cases h
    · rename_i m3 hp3
      have g3' := popFrame_verb hp3
      have g3 : m3.lastVerb = m1.lastVerb := g3'
      split at h
      · split at h
        · cases h
        · rename_i m4' hp4
          cases h
          exact (popFrame_verb hp4).trans (g3.trans g1)
      · cases h; exact g3.trans g1

theorem callFinish_vk {k : CallKind} {d : Nat} {m : M} {r : Res} (h : VK m r) : VK m (callFinish k d r) := by
  cases r with
  | ok m4 =>
    simp only [callFinish]
    split
    · rename_i m5 hl
      split
      · rename_i m6 hp
        exact vrel_step h ((popN_verb _ _ _ hp).trans (leaveCall_verb hl))
      · trivial
    · rename_i hne
      exact VK.of_not_ok hne
  | err m1 => trivial
  | crash w m1 => trivial

theorem adjustArgs_verb {a d : Nat} {m m2 : M} (h : adjustArgs a d m = some m2) : m2.lastVerb = m.lastVerb := by
  unfold adjustArgs at h
  split at h
  · exact popN_verb _ _ _ h
  · cases h; rfl

theorem enterCall_verb (k : CallKind) (d : Nat) (m : M) : (enterCall k d m).lastVerb = m.lastVerb := by
  cases k <;> rfl

theorem afterCatch_verb {link : List Ctx} {mm m' : M} (h : afterCatch link mm = .ok m') : m'.lastVerb = mm.lastVerb := by
  simp only [afterCatch] at h
  split at h
  · cases h
  · cases h; rfl

theorem catchFinish_vk {m m2 : M} {econ : Ctx} {link : List Ctx} {r : Res}
    (he : econ.saveVerb = m.lastVerb) (hl : m2.lastVerb = m.lastVerb) (h : VK m2 r) : VK m (catchFinish econ link r) := by
  cases r with
  | ok m4 =>
    have h4 : m4.lastVerb = m.lastVerb ∨ m4.lastVerb = 0 := VK.of_eq (r := .ok m4) hl h
    simp only [catchFinish]
    split
    · trivial
    · rename_i m5 hp
      have g5' := popFrame_verb hp
      have g5 : m5.lastVerb = m4.lastVerb := g5'
      cases ha : afterCatch link { pushVals 1 m5 with lastCatch := CV.num 0 } with
      | ok m' => exact vrel_step h4 ((afterCatch_verb ha).trans g5)
      | err x => trivial
      | crash w x => trivial
  | err m5 =>
    simp only [catchFinish]
    split
    · rename_i m6 hr
      have g6 := restoreContext_verb hr
      split
      · split <;> exact raise_vk _ _ _
      · cases ha : afterCatch link { pushVals 1 m6 with lastCatch := m6.catchValue, catchValue := CV.num 1 } with
        | ok m' => exact Or.inl ((afterCatch_verb ha).trans (g6.trans he))
        | err x => trivial
        | crash w x => trivial
    · rename_i hne
      exact VK.of_not_ok hne
  | crash w m1 => trivial

theorem safeFinish_vk {m m3 : M} {econ : Ctx} {link : List Ctx} {d : Nat} {r : Res}
    (he : econ.saveVerb = m.lastVerb) (hl : m3.lastVerb = m.lastVerb) (h : VK m3 r) : VK m (safeFinish econ link d r) := by
  cases r with
  | ok m5 =>
    have h5 : m5.lastVerb = m.lastVerb ∨ m5.lastVerb = 0 := VK.of_eq (r := .ok m5) hl h
    simp only [safeFinish]
    split
    · rename_i m6 hlc
      split
      · rename_i m7 hp
        exact vrel_step h5 ((popN_verb _ _ _ hp).trans (leaveCall_verb hlc))
      · trivial
    · rename_i hne
      exact VK.of_not_ok hne
  | err m6 =>
    simp only [safeFinish]
    split
    · rename_i m7 hr
      exact Or.inl ((restoreContext_verb hr).trans he)
    · rename_i hne
      exact VK.of_not_ok hne
  | crash w m1 => trivial

theorem safeFpFinish_vk {m m3 : M} {econ : Ctx} {link : List Ctx} {d : Nat} {owner : Val} {r : Res}
    (he : econ.saveVerb = m.lastVerb) (hl : m3.lastVerb = m.lastVerb) (h : VK m3 r) :
    VK m (safeFpFinish owner econ link d r) := by
  cases r with
  | ok m5 =>
    have h5 : m5.lastVerb = m.lastVerb ∨ m5.lastVerb = 0 := VK.of_eq (r := .ok m5) hl h
    simp only [safeFpFinish]
    split
    · rename_i m6 hlc
      split
      · rename_i m7 hp
        exact vrel_step h5 ((popN_verb _ _ _ hp).trans (leaveCall_verb hlc))
      · trivial
    · rename_i hne
      exact VK.of_not_ok hne
  | err m6 =>
    simp only [safeFpFinish]
    split
    · rename_i m7 hr
      exact Or.inl ((restoreContext_verb hr).trans he)
    · rename_i hne
      exact VK.of_not_ok hne
  | crash w m1 => trivial

theorem saveContext_verb' {m m1 : M} {econ : Ctx} (h : saveContext m = some (econ, m1)) :
    econ.saveVerb = m.lastVerb ∧ m1.lastVerb = m.lastVerb := by
  simp only [saveContext] at h
  split at h
  · cases h
  · cases h; exact ⟨rfl, rfl⟩

theorem execOp_vk_of {o : Op} (h : ∀ m, VK m (execCore o m)) (m : M) : VK m (execOp o m) := by
  unfold execOp
  split
  · exact h _
  · exact h _
  · split
    · exact raise_vk _ _ _
    · exact VK.of_eq (tick_verb m) (h _)

/-- what the simple finishers do to last_verb on their ok path -/
theorem simpleFinish_vk {m : M} {r : Res} {F : Res → Res} (h : VK m r)
    (hF : ∀ x x', F (.ok x) = .ok x' → x'.lastVerb = x.lastVerb) (hE : ∀ x, F (.err x) = .err x)
    (hC : ∀ w x, F (.crash w x) = .crash w x) : VK m (F r) := by
  cases r with
  | ok m1 => exact VK.map (r := .ok m1) h (fun x' hx => ⟨m1, rfl, hF m1 x' hx⟩)
  | err m1 => rw [hE]; trivial
  | crash w m1 => rw [hC]; trivial

mutual
theorem exec_vk : ∀ (p : Prog) (m : M), VK m (exec p m)
  | .nil, m => by simp only [exec]; exact Or.inl rfl
  | .cons o p, m => by
    have h1 := execOp_vk_of (execCore_vk o) m
    simp only [exec]
    cases hr : execOp o m with
    | ok m1 => rw [hr] at h1; exact VK.of_rel h1 (exec_vk p m1)
    | err m1 => trivial
    | crash w m1 => trivial

theorem execCore_vk : ∀ (o : Op) (m : M), VK m (execCore o m)
  | .say s, m => by simp only [execCore]; exact Or.inl rfl
  | .tmp n body, m => by
    simp only [execCore]
    exact tmpFinish_vk (VK.of_eq (m1 := pushVals n m) rfl (exec_vk body _))
  | .handler id body, m => by
    simp only [execCore]
    exact handlerFinish_vk (VK.of_eq (m1 := { m with vs := Slot.handler (id + 1) :: m.vs, efunCtx := (id + 1) :: m.efunCtx }) rfl (exec_vk body _))
  | .setReg r v, m => by
    simp only [execCore]
    cases r <;> exact Or.inl rfl
  | .withCg v body, m => by
    simp only [execCore]
    exact simpleFinish_vk (F := withCgFinish m.cg) (VK.of_eq (m1 := { m with cg := v }) rfl (exec_vk body _))
      (fun x x' hx => by simp only [withCgFinish] at hx; cases hx; rfl) (fun _ => rfl) (fun _ _ => rfl)
  | .install site fails, m => by
    simp only [execCore]
    split
    · split <;> exact raise_vk _ _ _
    · exact Or.inl rfl
  | .call k nargs declared body, m => by
    simp only [execCore]
    split
    · exact raise_vk _ _ _
    · split
      · trivial
      · rename_i m2 ha
        have hb : VK m (exec body m2) :=
          VK.of_eq ((adjustArgs_verb ha).trans (enterCall_verb k declared (pushVals nargs m))) (exec_vk body m2)
        split
        · exact callFinish_vk (thenTick_vk hb)
        · exact callFinish_vk hb
  | .cb k nargs declared body, m => by
    simp only [execCore]
    split
    · exact raise_vk _ _ _
    · split
      · trivial
      · rename_i m2 ha
        have hb : VK m (exec body m2) :=
          VK.of_eq ((adjustArgs_verb ha).trans (enterCall_verb k declared (pushVals nargs m))) (exec_vk body m2)
        split
        · exact callFinish_vk (thenTick_vk hb)
        · exact callFinish_vk hb
  | .catch_ body, m => by
    simp only [execCore]
    split
    · exact raise_vk _ _ _
    · rename_i econ m1 hs
      obtain ⟨e1, e2⟩ := saveContext_verb' hs
      exact catchFinish_vk (m2 := { pushFrame .catch_ m1 with catchValue := .num 1 }) e1 e2
        (thenTick_vk (exec_vk body _))
  | .sayCatch, m => by simp only [execCore]; exact Or.inl rfl
  | .safeApply nargs declared body, m => by
    simp only [execCore]
    split
    · split
      · rename_i m2 hp
        exact Or.inl (popN_verb _ (pushVals nargs m) _ hp)
      · trivial
    · rename_i econ0 m2 hs
      obtain ⟨e1, e2⟩ := saveContext_verb' hs
      split
      · trivial
      · rename_i m3 ha
        exact safeFinish_vk (m3 := m3) (econ := safeCtx nargs econ0) e1
          ((adjustArgs_verb ha).trans ((enterCall_verb (.other masterVal) declared m2).trans e2))
          (thenTick_vk (exec_vk body m3))
  | .safeFp owner nargs declared body, m => by
    simp only [execCore]
    split
    · split
      · rename_i m2 hp
        exact Or.inl (popN_verb _ (pushVals nargs m) _ hp)
      · trivial
    · rename_i econ0 m2 hs
      obtain ⟨e1, e2⟩ := saveContext_verb' hs
      split
      · exact safeFpFinish_vk (m3 := m2) (econ := safeCtx nargs econ0) e1 e2 (raise_vk _ _ _)
      · split
        · trivial
        · rename_i m3 ha
          exact safeFpFinish_vk (m3 := m3) (econ := safeCtx nargs econ0) e1
            ((adjustArgs_verb ha).trans ((enterCall_verb (.fpLocal owner) declared m2).trans e2))
            (thenTick_vk (exec_vk body m3))
  | .raise msg, m => by simp only [execCore]; exact raise_vk _ _ _
  | .craise msg, m => by simp only [execCore]; exact raise_vk _ _ _
  | .throw_ v, m => by simp only [execCore]; exact throwVal_vk _ _ _
  | .raiseLimit, m => by simp only [execCore]; exact raise_vk _ _ _
  | .load body, m => by
    simp only [execCore]
    exact simpleFinish_vk (F := loadFinish m.cg) (VK.of_eq (m1 := { m with loadDepth := m.loadDepth + 1 }) rfl (exec_vk body _))
      (fun x x' hx => by simp only [loadFinish] at hx; cases hx; rfl) (fun _ => rfl) (fun _ _ => rfl)
  | .dhook v body, m => by
    simp only [execCore]
    exact simpleFinish_vk (F := dhookFinish m.restrictDestruct) (VK.of_eq (m1 := { m with restrictDestruct := v }) rfl (exec_vk body _))
      (fun x x' hx => by simp only [dhookFinish] at hx; cases hx; rfl) (fun _ => rfl) (fun _ _ => rfl)
  | .vital isMaster body, m => by
    simp only [execCore]
    have fin : ∀ (b : Bool) (tmp : Val) (x x' : M), vitalFinish b tmp (.ok x) = .ok x' → x'.lastVerb = x.lastVerb := by
      intro b tmp x x' hx
      simp only [vitalFinish] at hx
      cases hd : dropTop x with
      | none => rw [hd] at hx; cases hx
      | some m2 =>
        rw [hd] at hx
        have e2 := dropTop_verb hd
        cases b
        · simp only [Bool.false_eq_true, ↓reduceIte] at hx; cases hx; exact e2
        · simp only [↓reduceIte] at hx; cases hx; exact e2
    cases isMaster
    · simp only [Bool.false_eq_true, ↓reduceIte]
      split
      · exact raise_vk _ _ _
      · exact simpleFinish_vk (F := vitalFinish false m.simulName) (VK.of_eq (m := m) rfl (exec_vk body _)) (fin _ _) (fun _ => rfl) (fun _ _ => rfl)
    · simp only [↓reduceIte]
      split
      · exact raise_vk _ _ _
      · exact simpleFinish_vk (F := vitalFinish true m.masterName) (VK.of_eq (m := m) rfl (exec_vk body _)) (fin _ _) (fun _ => rfl) (fun _ _ => rfl)
  | .spread n, m => by simp only [execCore]; exact Or.inl rfl
  | .consume, m => by simp only [execCore]; exact Or.inl rfl
  | .verb v body, m => by
    simp only [execCore]
    cases hr : exec body { m with lastVerb := v } with
    | ok m1 => exact Or.inr rfl
    | err m1 => trivial
    | crash w m1 => trivial
  | .heartBeat ob cgv body, m => by
    simp only [execCore]
    split
    · exact raise_vk _ _ _
    · have hb : VK m (exec body (enterCall (.other ob) 0 { m with hbCur := ob, cg := cgv })) :=
        VK.of_eq (m1 := enterCall (.other ob) 0 { m with hbCur := ob, cg := cgv }) rfl (exec_vk body _)
      exact simpleFinish_vk (F := hbFinish) (callFinish_vk (k := .other ob) (d := 0) (thenTick_vk hb))
        (fun x x' hx => by simp only [hbFinish] at hx; cases hx; rfl) (fun _ => rfl) (fun _ _ => rfl)
end

/-- **the `qv` clause.**  A driver-level evaluation of ANY program started outside a command (last_verb = NULL) ends with
    last_verb = NULL, whether it completed or failed (C code calling back: call_out sweep, backend cycle, driver safe applies). -/
theorem driver_keeps_last_verb (p : Prog) (k : Nat) (m0 m1 : M) (econ : Ctx) (hs : saveContext m0 = some (econ, m1))
    (h0 : m0.lastVerb = 0) :
    ∀ m', topFinish econ m0.ctxs (exec p { m1 with fault := k }) = .ok m' → m'.lastVerb = 0 := by
  intro m' hm
  obtain ⟨e1, e2⟩ := saveContext_verb' hs
  have hk : VK { m1 with fault := k } (exec p { m1 with fault := k }) := exec_vk p _
  cases hr : exec p { m1 with fault := k } with
  | ok m4 =>
    rw [hr] at hk hm
    simp only [topFinish] at hm
    cases hm
    have : m4.lastVerb = m1.lastVerb ∨ m4.lastVerb = 0 := hk
    rcases this with a | a
    · exact a.trans (e2.trans h0)
    · exact a
  | err m4 =>
    rw [hr] at hm
    cases h5 : restoreContext econ m4 with
    | ok m5 =>
      simp only [topFinish, h5] at hm
      cases hm
      exact (restoreContext_verb h5).trans (e1.trans h0)
    | err m5 => simp only [topFinish, h5] at hm; cases hm
    | crash w m5 => simp only [topFinish, h5] at hm; cases hm
  | crash w m4 =>
    rw [hr] at hm
    simp only [topFinish] at hm
    cases hm

/-- the same for a driver-level apply (`runTop`: backend command with a pending input_to, harness `inject`) -/
theorem top_keeps_last_verb (ob : Val) (p : Prog) (k : Nat) (m0 m1 : M) (econ : Ctx) (hs : saveContext m0 = some (econ, m1))
    (h0 : m0.lastVerb = 0) :
    ∀ m', topFinish econ m0.ctxs (topBody ob p { m1 with fault := k }) = .ok m' → m'.lastVerb = 0 := by
  intro m' hm
  obtain ⟨e1, e2⟩ := saveContext_verb' hs
  have hk : VK { m1 with fault := k } (topBody ob p { m1 with fault := k }) := by
    unfold topBody
    exact callFinish_vk (thenTick_vk (VK.of_eq (m1 := enterCall (.other ob) 0 { m1 with fault := k }) rfl (exec_vk p _)))
  cases hr : topBody ob p { m1 with fault := k } with
  | ok m4 =>
    rw [hr] at hk hm
    simp only [topFinish] at hm
    cases hm
    have : m4.lastVerb = m1.lastVerb ∨ m4.lastVerb = 0 := hk
    rcases this with a | a
    · exact a.trans (e2.trans h0)
    · exact a
  | err m4 =>
    rw [hr] at hm
    cases h5 : restoreContext econ m4 with
    | ok m5 =>
      simp only [topFinish, h5] at hm
      cases hm
      exact (restoreContext_verb h5).trans (e1.trans h0)
    | err m5 => simp only [topFinish, h5] at hm; cases hm
    | crash w m5 => simp only [topFinish, h5] at hm; cases hm
  | crash w m4 =>
    rw [hr] at hm
    simp only [topFinish] at hm
    cases hm

end NV.C05
