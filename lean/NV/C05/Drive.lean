/-
C05 driver: parses the case lines that the harness executes against the real driver and runs the model
(`model` mode) or the specification oracle on an implementation trace (`judge` mode).

Case lines (shared with harness/c05/c05.c):
  src <path> <hex>                 LPC source written below the scratch mudlib (ignored by the model)
  load <oid> <path> | clone <oid> <path>      objects; the model only needs their names
  user <oid>                       make the object interactive (ignored by the model)
  maxdepth <n>                     MaxCallDepth of this case
  setcg <oid|0>                    command_giver at driver level
  # ops <s-expressions>            abstract op list of the LPC function evaluated by the next inject/run
  inject <oid> <fn> [co|po <oid>]  fault at every instruction k of <oid>-><fn>()
  injectsafe <oid> <fn> <n>        the evaluation is safe_apply(fn, ob, n) from driver level; ops = (safe n declared …)
  injectco                         fault at every instruction of the real call_out() sweep (callbacks scheduled by prep)
  injectbe cmd|hb|reset|cleanup    fault at every instruction of one cycle of the real backend(); ops = (becmd u1 t …) | (behb t …) |
                                   (bereset t …) | (becleanup t …)
  run <oid> <fn>                   one evaluation without fault (side effects stay)
  input <oid> <text>               next input line of an interactive (pending input_to)
op syntax:  (say t) (tmp n ops) (handler id ops) (setreg co|po|cg oid) (withcg oid ops) (install site ok|bad)
  (call local|other|fplocal|functional|efunp oid nargs declared ops) (cb … same, a callback made by an efun: no tick) (catch ops) (saycatch) (safe nargs declared ops) (safefp oid nargs declared ops)
  (raise t) (throw t) (limit) (load ops) (dhook oid ops)
-/
import NV.Common.Proto
import NV.C05.Model
import NV.C05.Spec

namespace NV.C05

open NV.Proto

/-- the sites where efuns install state outside the registers, from the source (see notes/C05.md):
    none of them installs before its last possible error any more (input_to / get_char did before the fix) -/
def installSites : List InstallSite :=
  [ { name := "input_to", failMsg := "Function 'no_such_fn' not found in input_to", beforeLastError := false },
    { name := "get_char", failMsg := "Function 'no_such_fn' not found in get_char", beforeLastError := false },
    { name := "add_action", failMsg := "*Bad argument 1 to add_action()", beforeLastError := false },
    { name := "call_out", failMsg := "*Bad argument 2 to call_out()", beforeLastError := false },
    { name := "set_heart_beat", failMsg := "*Bad argument 1 to set_heart_beat()", beforeLastError := false } ]

def siteOf (name : String) : InstallSite :=
  match installSites.find? (fun s => s.name == name) with
  | some s => s
  | none => { name := name, failMsg := "*no such site", beforeLastError := false }

structure Names where
  objs : List String := []          -- oid i has value i + 2 (0 = NULL, 1 = master)

def Names.valOf (n : Names) (oid : String) : Val :=
  if oid == "0" then 0 else if oid == "master" then masterVal else
  match n.objs.idxOf? oid with
  | some i => i + 2
  | none => 0

def Names.nameOf (n : Names) (v : Val) : String :=
  if v == 0 then "0" else if v == masterVal then "master" else
  match n.objs[v - 2]? with
  | some s => s
  | none => "other"

/-! ### op parser -/

def tokenize (s : String) : List String :=
  toks ((s.replace "(" " ( ").replace ")" " ) ")

mutual
/-- ops up to the closing parenthesis (not consumed) or the end -/
def parseOps (n : Names) : Nat → List String → Option (List Op × List String)
  | 0, _ => none
  | _ + 1, [] => some ([], [])
  | _ + 1, ")" :: rest => some ([], ")" :: rest)
  | fuel + 1, "(" :: rest =>
    match parseOp n fuel rest with
    | some (o, ")" :: rest') =>
      match parseOps n fuel rest' with
      | some (os, r) => some (o :: os, r)
      | none => none
    | _ => none
  | _ + 1, _ => none

/-- one op, after its opening parenthesis; leaves the closing one -/
def parseOp (n : Names) : Nat → List String → Option (Op × List String)
  | 0, _ => none
  | fuel + 1, ts =>
    let body (rest : List String) (mk : Prog → Op) : Option (Op × List String) :=
      match parseOps n fuel rest with
      | some (os, r) => some (mk (Prog.ofList os), r)
      | none => none
    match ts with
    | "say" :: t :: rest => some (.say t, rest)
    | "tmp" :: k :: rest => match k.toNat? with
      | some k => body rest (.tmp k)
      | none => none
    | "handler" :: k :: rest => match k.toNat? with
      | some k => body rest (.handler k)
      | none => none
    | "setreg" :: r :: o :: rest =>
      let reg? : Option Reg := if r == "co" then some .co else if r == "po" then some .prevOb else if r == "cg" then some .cg else none
      match reg? with
      | some reg => some (.setReg reg (n.valOf o), rest)
      | none => none
    | "withcg" :: o :: rest => body rest (.withCg (n.valOf o))
    | "install" :: s :: f :: rest => some (.install (siteOf s) (f == "bad"), rest)
    | "call" :: kind :: o :: a :: d :: rest =>
      let k? : Option CallKind :=
        if kind == "local" then some .local_ else if kind == "other" then some (.other (n.valOf o))
        else if kind == "fplocal" then some (.fpLocal (n.valOf o)) else if kind == "functional" then some (.functional (n.valOf o))
        else if kind == "efunp" then some (.efunp (n.valOf o)) else none
      match k?, a.toNat?, d.toNat? with
      | some k, some a, some d => body rest (.call k a d)
      | _, _, _ => none
    | "cb" :: kind :: o :: a :: d :: rest =>
      let k? : Option CallKind :=
        if kind == "local" then some .local_ else if kind == "other" then some (.other (n.valOf o))
        else if kind == "fplocal" then some (.fpLocal (n.valOf o)) else if kind == "functional" then some (.functional (n.valOf o))
        else if kind == "efunp" then some (.efunp (n.valOf o)) else none
      match k?, a.toNat?, d.toNat? with
      | some k, some a, some d => body rest (.cb k a d)
      | _, _, _ => none
    | "catch" :: rest => body rest .catch_
    | "saycatch" :: rest => some (.sayCatch, rest)
    | "safe" :: a :: d :: rest =>
      match a.toNat?, d.toNat? with
      | some a, some d => body rest (.safeApply a d)
      | _, _ => none
    | "safefp" :: o :: a :: d :: rest =>
      match a.toNat?, d.toNat? with
      | some a, some d => body rest (.safeFp (n.valOf o) a d)
      | _, _ => none
    | "raise" :: t :: rest => some (.raise ("*" ++ t), rest)
    | "raisemsg" :: rest =>
      -- a message with spaces: words up to the closing parenthesis
      let ws := rest.takeWhile (· != ")")
      some (.raise (" ".intercalate ws), rest.dropWhile (· != ")"))
    | "craise" :: rest =>
      let ws := rest.takeWhile (· != ")")
      -- (`<>` stands for the `()` of an efun name in a message: parentheses delimit ops)
      some (.craise ((((" ".intercalate ws).replace "<>" "()").replace "<" "(").replace ">" ")"), rest.dropWhile (· != ")"))
    | "throw" :: t :: rest => some (.throw_ t, rest)
    | "limit" :: rest => some (.raiseLimit, rest)
    | "load" :: rest => body rest .load
    | "dhook" :: o :: rest => body rest (.dhook (n.valOf o))
    | "spread" :: k :: rest => match k.toNat? with
      | some k => some (.spread k, rest)
      | none => none
    | "consume" :: rest => some (.consume, rest)
    | "verb" :: _v :: rest => body rest (.verb 1)
    | "vital" :: w :: rest => body rest (.vital (w == "master"))
    | "heartbeat" :: o :: c :: rest => body rest (.heartBeat (n.valOf o) (n.valOf c))
    -- one cycle of backend() (sugar, see `injectbe`):
    -- process_user_command: command_giver = the user (restored on the normal path), apply process_input (1 argument) -> t::run
    | "becmd" :: u :: o :: rest =>
      body rest (fun p => .withCg (n.valOf u) (Prog.ofList [.call (.other (n.valOf u)) 1 1 (Prog.ofList [.call (.other (n.valOf o)) 0 0 p])]))
    -- call_heart_beat: heart_beat () { run (); } of an object without commands enabled
    | "behb" :: o :: rest => body rest (fun p => .heartBeat (n.valOf o) 0 (Prog.ofList [.call .local_ 0 0 p]))
    -- … of an object WITH commands enabled: it is the command giver of its heart beat
    | "behbc" :: o :: rest => body rest (fun p => .heartBeat (n.valOf o) (n.valOf o) (Prog.ofList [.call .local_ 0 0 p]))
    -- look_for_objects_to_swap: its own recovery point; reset_object: command_giver = 0 around apply (reset, 0 arguments)
    | "bereset" :: _o :: rest => body rest (fun p => .withCg 0 (Prog.ofList [.safeApply 0 0 (Prog.ofList [.call .local_ 0 0 p])]))
    -- look_for_objects_to_swap: push_number; apply (clean_up, 1 argument)
    | "becleanup" :: _o :: rest => body rest (fun p => .safeApply 1 1 (Prog.ofList [.call .local_ 0 0 p]))
    | _ => none
end

def parseProgram (n : Names) (s : String) : Option Prog :=
  let ts := tokenize s
  match parseOps n (ts.length + 2) ts with
  | some (os, []) => some (Prog.ofList os)
  | _ => none

/-! ### rendering -/

def renderCV : CV → String
  | .num k => toString k
  | .msg s => s
  | .thrown s => s

def renderEv : Ev → String
  | .say s => "say " ++ s
  | .handler caught msg => (if caught then "caught " else "err ") ++ msg
  | .catchLog v => "catch " ++ renderCV v

def snapshot (n : Names) (m : M) : String :=
  let i (k : Nat) : String := toString ((k : Int) - 1)
  s!"sp={i m.vs.length} csp={i m.cs.length} cg={n.nameOf m.cg} co={n.nameOf m.r.co} po={n.nameOf m.r.prevOb} " ++
  s!"prog={if m.r.prog == 0 then "0" else "p" ++ toString m.r.prog} ct={m.r.callerType} fp={i m.r.fp} " ++
  s!"pc={if m.r.pc == 0 then "null" else "set"} fio={m.r.fio} vio={m.r.vio} ctx={m.ctxs.length} " ++
  -- cgs: depth of the command_giver save stack (simulate.c); its only user (notify_no_command) calls back through
  -- safe_call_function_pointer, so no longjmp passes it (tie: `Gen.C05.cgStackUsersCallBackSafely`)
  s!"ld={m.loadDepth} rd={n.nameOf m.restrictDestruct} cgs=0 qv={if m.lastVerb == 0 then "0" else "set"} " ++
  -- names of the two vital objects (0 = the empty string; the values are opaque: only "as at start-up" or not)
  s!"nva={m.numVarargs} mn={if m.masterName == 1 then "ok" else if m.masterName == 0 then "blank" else "other"} " ++
  s!"sn={if m.simulName == 2 then "ok" else if m.simulName == 0 then "blank" else "other"}"

/-- the fixed probe evaluation (harness/mudlib/c05/probe.c): its output depends on command_giver and on the
    side state only -/
def probeText (n : Names) (baseCg : Val) (m : M) (hbObj : Option Val := none) : String :=
  let inp : String := if n.objs.contains "u1" then (if m.installed.contains "input_to" || m.installed.contains "get_char" then "1" else "0") else "-1"
  -- query_heart_beat (t): on (1) in a heart-beat case unless error_handler switched it off
  let hb : String := match hbObj with
    | some t => if m.hbOff.contains t then "0" else "1"
    | none => "0"
  s!"caught *probe-err ; probe lit=2 lc=3 ve=5 tp={n.nameOf baseCg} po=0 d=0 l=0 a=3,4 e=*probe-err  co=42 bal=1 side in={inp} hb={hb}"

def joinSemi (xs : List String) : String := " ; ".intercalate xs

def outcomeText (n : Names) (baseCg : Val) (t : TopResult) (hbObj : Option Val := none) : String :=
  -- backend(): the snapshot at the next poll point; the backend's own context is not counted (as in the harness)
  let loopSeg : List String := match t.loop with
    | some m => ["loop " ++ snapshot n { m with ctxs := m.ctxs.drop 1 }]
    | none => []
  joinSemi ((t.after.out.reverse.map renderEv) ++
    [t.result] ++ loopSeg ++ ["after=" ++ snapshot n t.after, "probe=" ++ probeText n baseCg t.after hbObj])

def dedupSorted (xs : List String) : List String :=
  (xs.mergeSort (fun a b => !(b < a))).eraseDups

/-! ### case interpreter -/

structure DState where
  names : Names := {}
  m : M := {}
  prog : Option Prog := none
  out : List String := []       -- newest first
  bad : List String := []
  based : Bool := false         -- the reference snapshot / probe of this case has been printed

def DState.emit (s : DState) (l : String) : DState := { s with out := l :: s.out }

/-- number of instructions of the fault-free evaluation, in model ticks -/
def ticksOf (ob : Val) (p : Prog) (m : M) : Nat :=
  -- arm the countdown far away and see how much of it was used
  let big := 1000000
  match topBody ob p { m with fault := big, out := [], shape := none } with
  | .ok m' => big - m'.fault
  | .err m' => big - m'.fault
  | .crash _ m' => big - m'.fault

def stepLine (s : DState) (line : String) : DState :=
  match toks line with
  | [] => s
  | "src" :: _ => s
  | "user" :: _ => s
  | "maxk" :: _ => s
  | ["maxdepth", v] =>
    match v.toNat? with
    | some d => if d ≥ 4 ∧ d ≤ 50 then { s with m := { s.m with maxDepth := d } } else s
    | none => { s with bad := line :: s.bad }
  | ["load", oid, _] => { s with names := { objs := s.names.objs ++ [oid] } }
  | ["clone", oid, _] => { s with names := { objs := s.names.objs ++ [oid] } }
  | "vapply" :: _ => s
  | ["setcg", oid] => { s with m := { s.m with cg := s.names.valOf oid } }
  | "#" :: "ops" :: _ =>
    match parseProgram s.names ((line.drop 5).toString) with
    | some p => { s with prog := some p }
    | none => { s with bad := line :: s.bad }
  | "#" :: _ => s
  | ["snap"] => s.emit ("snap " ++ snapshot s.names s.m)
  | ["probe"] => { s.emit ("probe " ++ probeText s.names s.m.cg s.m) with based := true }
  | "inject" :: oid :: _fn :: rest =>
    match s.prog with
    | none => { s with bad := line :: s.bad }
    | some p =>
      let ob := s.names.valOf oid
      let pre : List (Reg × Val) := match rest with
        | ["co", o] => [(.co, s.names.valOf o)]
        | ["po", o] => [(.prevOb, s.names.valOf o)]
        | _ => []
      let baseCg := s.m.cg
      let s1 := { (s.emit ("base " ++ snapshot s.names s.m)).emit ("probe0 " ++ probeText s.names baseCg s.m) with based := true }
      let free := runTop ob pre p 0 s.m
      let s2 := s1.emit ("free " ++ outcomeText s.names baseCg free)
      let n := match saveContext s.m with
        | some (_, m1) => ticksOf ob p (pre.foldl (fun mm rv => setRegister rv.1 rv.2 mm) m1)
        | none => 0
      let runs := (List.range n).map (fun j => runTop ob pre p (j + 1) s.m)
      let outcomes := dedupSorted (runs.map (outcomeText s.names baseCg))
      let shapes := dedupSorted (runs.filterMap (fun t => t.after.shape))
      let s3 := outcomes.foldl (fun acc o => acc.emit ("outcome " ++ o)) s2
      shapes.foldl (fun acc o => acc.emit ("shape " ++ o)) s3
  | ["injectsafe", _, _, _] | ["injectsafefp", _, _, _] | ["injectco"] =>
    match s.prog with
    | none => { s with bad := line :: s.bad }
    | some p =>
      let baseCg := s.m.cg
      let s1 := { (s.emit ("base " ++ snapshot s.names s.m)).emit ("probe0 " ++ probeText s.names baseCg s.m) with based := true }
      let free := runDriver p 0 s.m
      let s2 := s1.emit ("free " ++ outcomeText s.names baseCg free)
      let big := 1000000
      let n := match saveContext s.m with
        | some (_, m1) => match exec p { m1 with fault := big, out := [], shape := none } with
          | .ok m' => big - m'.fault
          | .err m' => big - m'.fault
          | .crash _ m' => big - m'.fault
        | none => 0
      let runs := (List.range n).map (fun j => runDriver p (j + 1) s.m)
      let outcomes := dedupSorted (runs.map (outcomeText s.names baseCg))
      let shapes := dedupSorted (runs.filterMap (fun t => t.after.shape))
      let s3 := outcomes.foldl (fun acc o => acc.emit ("outcome " ++ o)) s2
      shapes.foldl (fun acc o => acc.emit ("shape " ++ o)) s3
  | ["injectbe", kind] =>
    match s.prog with
    | none => { s with bad := line :: s.bad }
    | some p =>
      let baseCg := s.m.cg
      let hbObj : Option Val := if kind == "hb" then some (s.names.valOf "t") else none
      let s1 := { (s.emit ("base " ++ snapshot s.names s.m)).emit ("probe0 " ++ probeText s.names baseCg s.m hbObj) with based := true }
      let free := runBackend p 0 s.m
      let s2 := s1.emit ("free " ++ outcomeText s.names baseCg free hbObj)
      let big := 1000000
      let n := match saveContext (clearState s.m) with
        | some (_, m1) => match exec p { m1 with fault := big, out := [], shape := none } with
          | .ok m' => big - m'.fault
          | .err m' => big - m'.fault
          | .crash _ m' => big - m'.fault
        | none => 0
      let runs := (List.range n).map (fun j => runBackend p (j + 1) s.m)
      let outcomes := dedupSorted (runs.map (fun t => outcomeText s.names baseCg t hbObj))
      let shapes := dedupSorted (runs.filterMap (fun t => t.after.shape))
      let s3 := outcomes.foldl (fun acc o => acc.emit ("outcome " ++ o)) s2
      shapes.foldl (fun acc o => acc.emit ("shape " ++ o)) s3
  | ["run", oid, _fn] =>
    match s.prog with
    | none => { s with bad := line :: s.bad }
    | some p =>
      let t := runTop (s.names.valOf oid) [] p 0 s.m
      -- the first evaluation of the case prints the reference snapshot and probe, as `inject` does
      let s0 := if s.based then s else
        { (s.emit ("base " ++ snapshot s.names s.m)).emit ("probe0 " ++ probeText s.names s.m.cg s.m) with based := true }
      let s1 := s0.emit ("run " ++ outcomeText s.names s.m.cg t)
      -- side effects stay; the registers are what the evaluation left
      { s1 with m := { t.after with out := [], shape := none } }
  | "input" :: oid :: rest =>
    let text := " ".intercalate rest
    if s.m.installed.contains "input_to" then
      let m' := { s.m with installed := s.m.installed.erase "input_to" }
      { s with m := m' }.emit s!"input {oid} called=1 ; cb {text}"
    else s.emit s!"input {oid} called=0"
  | _ => { s with bad := line :: s.bad }

def runModel (lines : List String) : List String :=
  let s := lines.foldl stepLine {}
  if !s.bad.isEmpty then s.bad.reverse.map (fun l => s!"bad-line {l}")
  else s.out.reverse

def runJudge (body : List String) : List String :=
  let (input, impl) := splitJudge body
  match judge input impl with
  | [] => ["ok"]
  | vs => vs.map (fun v => s!"bad {v}")

def main (mode : String) : IO Unit :=
  match mode with
  | "model" => serve runModel
  | "judge" => serve runJudge
  | _ => IO.eprintln s!"C05: unknown mode {mode}"

end NV.C05
