/-
C05 — helper lemmas: how the primitives of the model act on the value stack, the control stack, the
error-context chain and the guards.
-/
import NV.C05.Model

namespace NV.C05

/-- ids of the T_ERROR_HANDLER slots of a stack segment, top first -/
def handlerIds : List Slot → List Nat
  | [] => []
  | .val :: t => handlerIds t
  | .handler id :: t => id :: handlerIds t

/-- `m'` is `m` except for the value stack and the list of executed handlers -/
def SameButVsRan (m m' : M) : Prop :=
  m' = { m with vs := m'.vs, ran := m'.ran, masterName := m'.masterName, simulName := m'.simulName, efunCtx := m'.efunCtx }

theorem popN_append (dv : List Slot) : ∀ (m : M) (rest : List Slot), m.vs = dv ++ rest →
    ∃ m', popN dv.length m = some m' ∧ m'.vs = rest ∧ m'.ran = (handlerIds dv).reverse ++ m.ran ∧ SameButVsRan m m' := by
  induction dv with
  | nil =>
    intro m rest h
    exact ⟨m, rfl, by simpa using h, by simp [handlerIds], rfl⟩
  | cons s dv ih =>
    intro m rest h
    cases s with
    | val =>
      have h1 : popStack m = some { m with vs := dv ++ rest } := by
        unfold popStack; rw [h]; rfl
      obtain ⟨m', hp, hv, hr, hs⟩ := ih { m with vs := dv ++ rest } rest rfl
      refine ⟨m', ?_, hv, ?_, ?_⟩
      · simp only [List.length_cons, popN, h1]; exact hp
      · simpa [handlerIds] using hr
      · unfold SameButVsRan at *; rw [hs]
    | handler id =>
      have h1 : popStack m = some (runSlotHandler id { m with vs := dv ++ rest, ran := id :: m.ran }) := by
        unfold popStack; rw [h]; rfl
      obtain ⟨m', hp, hv, hr, hs⟩ := ih (runSlotHandler id { m with vs := dv ++ rest, ran := id :: m.ran }) rest rfl
      refine ⟨m', ?_, hv, ?_, ?_⟩
      · simp only [List.length_cons, popN, h1]; exact hp
      · simp [handlerIds, hr, runSlotHandler]
      · unfold SameButVsRan at *; rw [hs]; rfl

theorem drop_to_first (dc : List Frame) (f : Frame) (cs0 : List Frame) :
    (dc ++ f :: cs0).drop ((dc ++ f :: cs0).length - (cs0.length + 1)) = f :: cs0 := by
  have : (dc ++ f :: cs0).length - (cs0.length + 1) = dc.length := by simp
  rw [this]; simp

/-- restore_context on a state whose stacks extend the stacks at the save point: the value stack and the control
    stack are back, command_giver is the saved one, the chain is untouched, exactly the handlers of the popped
    segment ran (top first), and the registers are those saved in the first frame pushed after the save -/
theorem restoreContext_ext (m' : M) (dv : List Slot) (vs0 : List Slot) (dc : List Frame) (cs0 : List Frame)
    (cg0 : Val) (hv : m'.vs = dv ++ vs0) (hc : m'.cs = dc ++ cs0) (ld0 : Int := 0) (rd0 : Val := 0) (vb0 : Val := 0) :
    ∃ m'', restoreContext { saveSp := vs0.length, saveCsp := cs0.length, saveCg := cg0, saveLd := ld0, saveRd := rd0, saveVerb := vb0 } m' = .ok m'' ∧
      m''.vs = vs0 ∧ m''.cs = cs0 ∧ m''.cg = cg0 ∧ m''.ctxs = m'.ctxs ∧
      m''.ran = (handlerIds dv).reverse ++ m'.ran ∧
      (dc = [] → m''.r = m'.r) ∧ (∀ f, dc.getLast? = some f → m''.r = f.saved) ∧
      m''.loadDepth = ld0 ∧ m''.restrictDestruct = rd0 ∧
      m''.catchValue = m'.catchValue ∧ m''.errState = m'.errState ∧ m''.installed = m'.installed ∧ m''.lastVerb = vb0 := by
  cases m' with
  | mk cg r vs cs ctxs catchValue lastCatch errState loadDepth restrictDestruct inError inMudlibHandler ran installed fault shape out maxDepth staleCatch lastVerb masterName simulName savedMasterName savedSimulName efunCtx numVarargs hbCur hbOff =>
  simp only at hv hc
  subst hv hc
  rcases List.eq_nil_or_concat dc with hnil | ⟨dc', f, hcat⟩
  · subst hnil
    obtain ⟨m3, hp, hv3, hr3, hs3⟩ := popN_append dv
      { cg := cg0, r := r, vs := dv ++ vs0, cs := cs0, ctxs := ctxs, catchValue := catchValue, lastCatch := lastCatch,
        errState := errState, loadDepth := ld0, restrictDestruct := rd0, inError := inError,
        inMudlibHandler := inMudlibHandler, ran := ran, installed := installed, fault := fault, shape := shape,
        out := out, maxDepth := maxDepth, staleCatch := staleCatch, lastVerb := vb0, masterName := masterName, simulName := simulName,
        savedMasterName := savedMasterName, savedSimulName := savedSimulName, efunCtx := efunCtx, numVarargs := 0, hbCur := hbCur, hbOff := hbOff } vs0 rfl
    refine ⟨m3, ?_, hv3, ?_, ?_, ?_, hr3, ?_, ?_, ?_, ?_, ?_, ?_, ?_, ?_⟩
    · have hlt : ¬ (dv.length + vs0.length < vs0.length) := by omega
      have e : dv.length + vs0.length - vs0.length = dv.length := by omega
      simp [restoreContext, hlt, e, hp]
    all_goals (unfold SameButVsRan at hs3; rw [hs3]; try simp)
  · rw [List.concat_eq_append] at hcat
    subst hcat
    obtain ⟨m3, hp, hv3, hr3, hs3⟩ := popN_append dv
      { cg := cg0, r := f.saved, vs := dv ++ vs0, cs := cs0, ctxs := ctxs, catchValue := catchValue, lastCatch := lastCatch,
        errState := errState, loadDepth := ld0, restrictDestruct := rd0, inError := inError,
        inMudlibHandler := inMudlibHandler, ran := ran, installed := installed, fault := fault, shape := shape,
        out := out, maxDepth := maxDepth, staleCatch := staleCatch, lastVerb := vb0, masterName := masterName, simulName := simulName,
        savedMasterName := savedMasterName, savedSimulName := savedSimulName, efunCtx := efunCtx, numVarargs := 0, hbCur := hbCur, hbOff := hbOff } vs0 rfl
    refine ⟨m3, ?_, hv3, ?_, ?_, ?_, hr3, ?_, ?_, ?_, ?_, ?_, ?_, ?_, ?_⟩
    · have hlen : cs0.length < (dc' ++ [f] ++ cs0).length := by simp; omega
      have hd := drop_to_first dc' f cs0
      have hd' : (dc' ++ [f] ++ cs0).drop ((dc' ++ [f] ++ cs0).length - (cs0.length + 1)) = f :: cs0 := by
        simp
      have hlt : ¬ (dv.length + vs0.length < vs0.length) := by omega
      have e : dv.length + vs0.length - vs0.length = dv.length := by omega
      have hgt : dc'.length + [f].length + cs0.length > cs0.length := by simp
      have hd2 : List.drop (dc'.length + [f].length + cs0.length - (cs0.length + 1)) (dc' ++ [f] ++ cs0) = f :: cs0 := by
        have e2 : dc'.length + [f].length + cs0.length - (cs0.length + 1) = dc'.length := by simp; omega
        rw [e2]; simp
      simp only [restoreContext, List.length_append, hgt, ↓reduceIte, hd2, popFrame, hlt, e, hp]
    all_goals (unfold SameButVsRan at hs3; rw [hs3]; try simp)

end NV.C05
