/-
C05 — specification oracle ("judge").  It looks at the canonical trace of a case (from the real driver or from
the model) and decides whether property C05 held:

  * the driver did not crash (no `crash` / `sanitizer` line);
  * after every evaluation — with or without a fault, caught or reaching the driver — the value stack depth, the
    control stack depth, command_giver and the depth of the error-context chain are what they were before, and so
    are all other registers unless the case itself changed one between save_context and the apply (`inject … co|po x`);
  * the fixed probe evaluation prints what it printed before the failed call; the part after ` side ` (state
    installed outside the registers) may differ only when the evaluation reports a completed install (`say did-…`);
  * in a backend() case the registers at the poll point of the next cycle (`loop …`) are those of the loop; the heart
    beat of an object goes off only when an uncaught error was reported;
  * a catch that caught an error leaves this_player() as it was at the catch point (`cg-changed` marker of the
    LPC side); a completed evaluation may keep a command_giver it set itself (`say set-cg`);
  * a catch yields 0, the message of the error that was raised last (as reported to the master's error_handler),
    the injected fault, or a value thrown by the program.

The judge knows nothing about frames, contexts or how recovery is implemented.
-/
import NV.Common.Proto

namespace NV.C05

open NV.Proto

def splitOnStr (s sep : String) : List String := s.splitOn sep

/-- key=value fields of a snapshot -/
def snapFields (s : String) : List (String × String) :=
  (toks s).filterMap (fun t => match t.splitOn "=" with
    | [k, v] => some (k, v)
    | _ => none)

def field (fs : List (String × String)) (k : String) : String :=
  match fs.find? (fun e => e.1 == k) with
  | some e => e.2
  | none => "?"

structure Outcome where
  segs : List String        -- VL segments and the result
  after : String
  probe : String
  deriving Repr

def parseOutcome (text : String) : Outcome :=
  let parts := splitOnStr text " ; "
  let isAfter (p : String) := p.startsWith "after="
  let pre := parts.takeWhile (fun p => !isAfter p)
  let rest := parts.dropWhile (fun p => !isAfter p)
  match rest with
  | a :: more =>
    let probe := " ; ".intercalate more
    { segs := pre, after := (a.drop 6).toString, probe := (probe.drop 6).toString }
  | [] => { segs := pre, after := "", probe := "" }

def injected : String := "*verif injected fault"

/-- values thrown by the program, from the `# ops` line -/
def thrownOf (input : List String) : List String :=
  let ts := input.flatMap (fun l => if l.startsWith "# ops" then toks ((l.replace "(" " ( ").replace ")" " ) ") else [])
  let rec go : List String → List String
    | "throw" :: v :: rest => v :: go rest
    | _ :: rest => go rest
    | [] => []
  go ts

def alwaysFields : List String := ["sp", "csp", "cg", "ctx", "ld", "rd", "cgs", "qv", "mn", "sn", "nva"]
def otherFields : List String := ["co", "po", "prog", "ct", "fp", "pc", "fio", "vio"]

def machinePart (probe : String) : String := (splitOnStr probe " side ").headD ""
def sidePart (probe : String) : String := ((splitOnStr probe " side ").drop 1).headD ""

/-- the value every catch yields.  `caught M` is what the master's error_handler logged for an error that a catch is about
    to receive (`pending`): the catch statement that prints next MUST show exactly `M` — not 0, not 1, not the value of
    some catch the handler executed itself — or the injected fault when that hit the handler after it had logged.
    A catch that prints without a pending error shows 0, a value thrown by the program, or the injected fault (the
    handler was hit before it logged).  An error reported as uncaught (`err …`) ends the pending state. -/
def checkCatches (thrown : List String) (segs : List String) : List String :=
  let rec go (pending : Option String) : List String → List String
    | [] => []
    | s :: rest =>
      if s.startsWith "caught " then go (some (s.drop 7).toString) rest
      else if s.startsWith "err " then go none rest
      else if s.startsWith "catch " then
        let v := (s.drop 6).toString
        let ok := match pending with
          | some m => v == m || v == injected
          | none => v == "0" || v == injected || thrown.contains v
        (if ok then [] else [s!"catch-value got '{v}' after error '{pending.getD "-"}'"]) ++ go none rest
      else go pending rest
  go none segs

structure JSt where
  base : List (String × String) := []
  probe0 : String := ""
  exempt : List String := []
  bad : List String := []

def judgeOutcome (thrown : List String) (st : JSt) (tag text : String) : List String :=
  let o := parseOutcome text
  let fs := snapFields o.after
  -- a completed evaluation that changed command_giver itself (enable_commands, logged as `say set-cg`) keeps it
  let cgLegit := o.segs.contains "say set-cg" && o.segs.contains "done 1"
  let keys := (alwaysFields ++ otherFields.filter (fun k => !st.exempt.contains k)).filter (fun k => !(k == "cg" && cgLegit))
  let regBad := if st.base.isEmpty then [] else keys.filterMap (fun k =>
    if field fs k == field st.base k then none
    else some (s!"restore {tag} {k} before={field st.base k} after={field fs k}" ++
      -- interpreter scratch state: say whether the error of this evaluation was the injected one (raised AT an instruction,
      -- before it executes) or one the program raised itself
      (if k == "nva" then
        (if o.segs.any (fun s => (s.splitOn injected).length > 1) then " (injected fault)" else " (raised)") else "")))
  let probeBad :=
    if st.probe0 != "" && machinePart o.probe != machinePart st.probe0 then [s!"probe {tag} differs: '{o.probe}'"] else []
  -- one cycle of backend(): the snapshot at the poll point of the NEXT cycle (after the backend's own recovery) must
  -- show the registers of the loop as they were
  let loopBad := if st.base.isEmpty then [] else o.segs.flatMap (fun sg =>
    if sg.startsWith "loop " then
      let ls := snapFields (sg.drop 5).toString
      (alwaysFields ++ otherFields).filterMap (fun k =>
        if field ls k == field st.base k then none
        else some s!"restore {tag}-loop {k} before={field st.base k} after={field ls k}")
    else [])
  let installed := o.segs.any (fun s => s.startsWith "say did-")
  let side := snapFields (sidePart o.probe)
  let side0 := snapFields (sidePart st.probe0)
  let sideBad :=
    if st.probe0 != "" && field side "in" != field side0 "in" && !installed then
      [s!"half-install {tag} side state '{sidePart o.probe}' without a completed install"] else []
  -- the heart beat of an object may only go off when an uncaught error was reported (`err …` by the master's handler)
  -- (an injected fault that hits the master's handler before it logs leaves no `err` line: then the evaluation failed at
  -- driver level, or the fault of this run was not caught by any catch)
  let reported := o.segs.any (fun s => s.startsWith "err ") || o.segs.contains "fault-top" ||
    (tag == "fault" && !o.segs.any (fun s => s == "catch " ++ injected || s == "caught " ++ injected))
  let hbBad :=
    if st.probe0 != "" && field side "hb" != field side0 "hb" && !reported && !st.exempt.contains "hb" then
      [s!"heart-beat {tag} side state '{sidePart o.probe}' changed without an error reaching the driver"] else []
  let crashBad := (if o.segs.any (fun s => s.startsWith "crash") then [s!"crash {tag} {o.segs.getLastD ""}"] else []) ++
    -- an evaluation that printed so much that its record was cut off before the snapshot (an error-handler storm)
    (if o.after == "" then [s!"crash {tag} truncated-trace"] else [])
  -- the LPC side compares this_player() before and after every catch that caught something
  let cgBad := if o.segs.any (fun s => (s.splitOn "cg-changed").length > 1) then [s!"restore {tag} command_giver not restored by catch"] else []
  -- an efun that went on after one of its callbacks caught an error of a nested efun: the LPC side compares its result by value
  let resBad := if o.segs.any (fun s => (s.splitOn "result-mismatch").length > 1) then
    [s!"efun-result {tag} an efun that continued after a caught error in a callback returned a wrong result"] else []
  -- … and a heart_beat() that failed (the error reached the backend) must not stay on: it would fail again every tick
  let hbStayBad :=
    if st.probe0 != "" && field side0 "hb" == "1" && field side "hb" == "1" && o.segs.contains "fault-top" then
      [s!"heart-beat {tag} still on after its evaluation failed"] else []
  -- LPC that runs between "error raised" and "error delivered" (the master's handler) saw interpreter scratch state of the
  -- failed instruction
  let scratchBad := if o.segs.any (fun s => (s.splitOn "scratch-mismatch").length > 1) then
    [s!"scratch {tag} the master's error handler ran with interpreter scratch state left by the failed instruction"] else []
  -- a recovery point INSIDE the evaluation (safe apply / safe function-pointer call that failed) must hand control back with
  -- the registers of its caller: the LPC side checks this_object() right after it
  let coBad := if o.segs.any (fun s => (s.splitOn "co-changed").length > 1) then
    [s!"restore {tag} current_object not restored by a recovery point inside the evaluation"] else []
  regBad ++ coBad ++ scratchBad ++ loopBad ++ probeBad ++ sideBad ++ hbBad ++ hbStayBad ++ crashBad ++ cgBad ++ resBad ++ checkCatches thrown o.segs

def judgeLine (thrown : List String) (st : JSt) (line : String) : JSt :=
  if line.startsWith "crash" || line.startsWith "sanitizer" then { st with bad := st.bad ++ [s!"crash {line}"] }
  else if line.startsWith "base " then { st with base := snapFields (line.drop 5).toString }
  else if line.startsWith "probe0 " then { st with probe0 := (line.drop 7).toString }
  else if line.startsWith "free " then { st with bad := st.bad ++ judgeOutcome thrown st "free" (line.drop 5).toString }
  else if line.startsWith "outcome " then { st with bad := st.bad ++ judgeOutcome thrown st "fault" (line.drop 8).toString }
  else if line.startsWith "run " then
    -- a single evaluation: registers as at the last `base`; its side effects become the new reference
    let o := parseOutcome (line.drop 4).toString
    let st' := { st with bad := st.bad ++ judgeOutcome thrown st "run" (line.drop 4).toString }
    { st' with probe0 := o.probe }
  else st

/-! ### the same oracle on structured observations (used by the top theorem `model_satisfies_spec`) -/

/-- what a register snapshot shows (the fields of the `sp=… csp=… …` text) -/
structure Obs where
  sp : Nat
  csp : Nat
  ctx : Nat
  cg : Nat
  co : Nat
  po : Nat
  prog : Nat
  ct : Nat
  fp : Nat
  pc : Nat
  fio : Nat
  vio : Nat
  ld : Int       -- num_objects_this_thread
  rd : Nat       -- restrict_destruct
  deriving DecidableEq, Repr

/-- one driver-level evaluation as observed: snapshot before, snapshot after, did it fail, did the driver crash -/
structure TopObs where
  before : Obs
  after : Obs
  failed : Bool
  crashed : Bool
  deriving Repr

/-- the register clauses of the oracle on one observed evaluation: no crash; sp, csp, chain depth and every register
    restored from the frame as before; both guards (load depth, destruct restriction) as before;
    command_giver as before when the evaluation failed (a completed evaluation
    may keep a command_giver it set itself) -/
def judgeObs (o : TopObs) : List String :=
  (if o.crashed then ["crash"] else []) ++
  (if o.after.sp != o.before.sp then ["restore sp"] else []) ++
  (if o.after.csp != o.before.csp then ["restore csp"] else []) ++
  (if o.after.ctx != o.before.ctx then ["restore ctx"] else []) ++
  (if o.failed && o.after.cg != o.before.cg then ["restore cg"] else []) ++
  (if o.after.co != o.before.co then ["restore co"] else []) ++
  (if o.after.po != o.before.po then ["restore po"] else []) ++
  (if o.after.prog != o.before.prog then ["restore prog"] else []) ++
  (if o.after.ct != o.before.ct then ["restore ct"] else []) ++
  (if o.after.fp != o.before.fp then ["restore fp"] else []) ++
  (if o.after.pc != o.before.pc then ["restore pc"] else []) ++
  (if o.after.fio != o.before.fio then ["restore fio"] else []) ++
  (if o.after.vio != o.before.vio then ["restore vio"] else []) ++
  (if o.after.ld != o.before.ld then ["guard load-depth"] else []) ++
  (if o.after.rd != o.before.rd then ["guard restrict-destruct"] else [])

/-- the oracle: `input` are the case lines, `impl` the canonical trace -/
def judge (input impl : List String) : List String :=
  let thrown := thrownOf input
  let exempt := input.flatMap (fun l => match toks l with
    | ["inject", _, _, r, _] => [r]
    -- with a lowered MaxCallDepth an error can arrive so deep that the master's handler cannot run (nothing is logged)
    | ["maxdepth", _] => ["hb"]
    | _ => [])
  (impl.foldl (judgeLine thrown) { exempt := exempt }).bad

end NV.C05
