/-
C06 — the driver's counters num_arrays / num_mappings / tot_alloc_object equal the number of live cells of that
kind after every history (each is incremented exactly where a cell is allocated and decremented exactly where it is
deallocated).
-/
import NV.C06.Invariant
namespace NV.C06

/-- number of live cells of kind k0 -/
def lc (k0 : Kind) (h : List Cell) : Nat := h.countP (fun c => c.live && c.kind == k0)

def isK (k0 : Kind) (c : Cell) : Nat := if (c.live && c.kind == k0) = true then 1 else 0

theorem lc_cons (k0 : Kind) (a : Cell) (t : List Cell) : lc k0 (a :: t) = lc k0 t + isK k0 a := by
  unfold lc isK
  rw [List.countP_cons]

theorem lc_set (k0 : Kind) (h : List Cell) (d : Nat) (x : Cell) (hd : d < h.length) :
    lc k0 (h.set d x) + isK k0 h[d] = lc k0 h + isK k0 x := by
  induction h generalizing d with
  | nil => simp at hd
  | cons a t ih =>
    cases d with
    | zero => simp only [List.set, lc_cons, List.getElem_cons_zero]; omega
    | succ j =>
      simp only [List.set, lc_cons, List.getElem_cons_succ]
      have := ih j (by simpa using hd)
      omega

theorem lc_append (k0 : Kind) (h : List Cell) (x : Cell) : lc k0 (h ++ [x]) = lc k0 h + isK k0 x := by
  induction h with
  | nil => simp [lc, isK, List.countP_cons]
  | cons a t ih => simp only [List.cons_append, lc_cons, ih]; omega

theorem lc_set_same (k0 : Kind) (h : List Cell) (d : Nat) (cell x : Cell) (hd : h[d]? = some cell)
    (h1 : x.live = cell.live) (h2 : x.kind = cell.kind) : lc k0 (h.set d x) = lc k0 h := by
  rcases List.getElem?_eq_some_iff.mp hd with ⟨hlt, heq⟩
  have := lc_set k0 h d x hlt
  rw [heq] at this
  have e : isK k0 x = isK k0 cell := by unfold isK; rw [h1, h2]
  omega

/-- a statistics counter that counts the live cells of one kind -/
structure Counter where
  π : Stats → Int
  k0 : Kind
  alloc : ∀ st k n, π (Stats.onAlloc st k n) = π st + (if k = k0 then 1 else 0)
  free : ∀ st k n, π (Stats.onFree st k n) = π st - (if k = k0 then 1 else 0)
  allocd : ∀ (st : Stats) x, π { st with allocdStrings := x } = π st
  distinct : ∀ (st : Stats) x, π { st with distinctStrings := x } = π st
  nodes : ∀ (st : Stats) x, π { st with mapNodes := x } = π st

def cArrays : Counter where
  π := Stats.numArrays
  k0 := .arr
  alloc := by intro st k n; cases k <;> simp [Stats.onAlloc]
  free := by intro st k n; cases k <;> simp [Stats.onFree]
  allocd := by intros; rfl
  distinct := by intros; rfl
  nodes := by intros; rfl

def cMappings : Counter where
  π := Stats.numMappings
  k0 := .map
  alloc := by intro st k n; cases k <;> simp [Stats.onAlloc]
  free := by intro st k n; cases k <;> simp [Stats.onFree]
  allocd := by intros; rfl
  distinct := by intros; rfl
  nodes := by intros; rfl

def cObjects : Counter where
  π := Stats.objects
  k0 := .obj
  alloc := by intro st k n; cases k <;> simp [Stats.onAlloc]
  free := by intro st k n; cases k <;> simp [Stats.onFree]
  allocd := by intros; rfl
  distinct := by intros; rfl
  nodes := by intros; rfl

/-- the counter equals the number of live cells of its kind -/
def CountOK (C : Counter) (s : St) : Prop := C.π s.stats = (lc C.k0 s.heap : Int)

theorem writeLoc_lc (C : Counter) (s s' : St) (l : Loc) (v : Val) (h : writeLoc s l v = .ok s') :
    lc C.k0 s'.heap = lc C.k0 s.heap ∧ s'.stats = s.stats := by
  cases l with
  | root i =>
    simp only [writeLoc] at h
    split at h
    · cases h; exact ⟨rfl, rfl⟩
    · cases h
  | item d j =>
    simp only [writeLoc] at h
    split at h
    · cases h
    · rename_i cell hd
      split at h
      · cases h
      · split at h
        · cases h
          exact ⟨lc_set_same C.k0 s.heap d cell _ hd rfl rfl, rfl⟩
        · cases h

theorem incVal_lc (C : Counter) (s s' : St) (v : Val) (n : Nat) (h : incVal s v n = .ok s') :
    lc C.k0 s'.heap = lc C.k0 s.heap ∧ s'.stats = s.stats := by
  cases v with
  | num x => have := incVal_num s s' x n h; subst this; exact ⟨rfl, rfl⟩
  | ptr d =>
    rcases incVal_ptr s s' d n h with ⟨cell, hd, hl, rfl⟩
    exact ⟨lc_set_same C.k0 s.heap d cell _ hd rfl rfl, rfl⟩

theorem CountOK_of_eq (C : Counter) (s s' : St) (h1 : lc C.k0 s'.heap = lc C.k0 s.heap) (h2 : C.π s'.stats = C.π s.stats)
    (ok : CountOK C s) : CountOK C s' := by
  unfold CountOK at *; rw [h1, h2]; exact ok

theorem eqK (k k0 : Kind) : (if k = k0 then (1 : Int) else 0) = ((if (true && k == k0) = true then 1 else 0 : Nat) : Int) := by
  by_cases h : k = k0 <;> simp [h]

theorem rel1_count (C : Counter) (s s' : St) (h : rel1 s = .ok s') (ok : CountOK C s) : CountOK C s' := by
  unfold rel1 at h
  split at h
  · cases h
  · simp only [pure, Except.pure] at h; cases h; exact CountOK_of_eq C s _ rfl rfl ok
  · rename_i d rest ht
    split at h
    · cases h
    · rename_i cell hd
      split at h
      · cases h
      · rename_i hlive
        have hl : cell.live = true := by simpa using hlive
        rcases List.getElem?_eq_some_iff.mp hd with ⟨hlt, heq⟩
        simp only at h
        have hst : C.π (if cell.kind.isStr = true then
            { s.stats with allocdStrings := s.stats.allocdStrings - 1 } else s.stats) = C.π s.stats := by
          split
          · exact C.allocd _ _
          · rfl
        generalize (if cell.kind.isStr = true then
            { s.stats with allocdStrings := s.stats.allocdStrings - 1 } else s.stats) = st at h hst
        split at h
        · simp only [pure, Except.pure] at h
          cases h
          unfold CountOK St.upd at *
          simp only
          rw [lc_set_same C.k0 s.heap d cell { cell with ref := (decRef cell.kind cell.ref).1 } hd rfl rfl, hst]
          exact ok
        · split at h
          · cases h
          · split at h
            · cases h
            · simp only [pure, Except.pure] at h
              cases h
              unfold CountOK St.upd at *
              simp only
              have a := lc_set C.k0 s.heap d
                { cell with ref := (decRef cell.kind cell.ref).1, live := false, items := [] } hlt
              rw [heq] at a
              have e1 : isK C.k0 { cell with ref := (decRef cell.kind cell.ref).1, live := false, items := [] } = 0 := by
                simp [isK]
              have e2 : (isK C.k0 cell : Int) = (if cell.kind = C.k0 then 1 else 0) := by
                unfold isK; rw [hl]; exact (eqK cell.kind C.k0).symm
              rw [C.free, hst, ok]
              omega

theorem relLoop_count (C : Counter) : ∀ (f depth : Nat) (s s' : St), relLoop f depth s = .ok s' → CountOK C s → CountOK C s' := by
  intro f
  induction f with
  | zero => intro depth s s' h; simp [relLoop] at h
  | succ f ih =>
    intro depth s s' h ok
    simp only [relLoop] at h
    split at h
    · simp only [pure, Except.pure] at h; cases h; exact ok
    · simp only [bind, Except.bind] at h
      split at h
      · cases h
      · rename_i s1 h1
        exact ih depth s1 s' h (rel1_count C s s1 h1 ok)

theorem isK_new (C : Counter) (k : Kind) (x : Cell) (hl : x.live = true) (hk : x.kind = k) :
    (isK C.k0 x : Int) = (if k = C.k0 then 1 else 0) := by
  unfold isK; rw [hl, hk]; exact (eqK k C.k0).symm

theorem mstep_count (C : Counter) (s s' : St) (i : Mi) (h : mstep s i = .ok s') (ok : CountOK C s) : CountOK C s' := by
  cases i with
  | take l =>
    simp only [mstep, bind, Except.bind] at h
    split at h
    · cases h
    · split at h
      · cases h
      · rename_i s1 hw
        cases h
        rcases writeLoc_lc C s s1 l _ hw with ⟨a, b⟩
        exact CountOK_of_eq C s _ a (by rw [show ({ s1 with temps := _ } : St).stats = s1.stats from rfl, b]) ok
  | put l =>
    simp only [mstep] at h
    split at h
    · cases h
    · simp only [bind, Except.bind] at h
      split at h
      · cases h
      · split at h
        · cases h
        · simp only [pure, Except.pure] at h
          split at h
          · cases h
          · rename_i s1 hw
            cases h
            rcases writeLoc_lc C s s1 l _ hw with ⟨a, b⟩
            exact CountOK_of_eq C s _ a (by rw [show ({ s1 with temps := _ } : St).stats = s1.stats from rfl, b]) ok
  | dup l =>
    simp only [mstep, bind, Except.bind] at h
    split at h
    · cases h
    · split at h
      · cases h
      · rename_i s1 hi
        cases h
        rcases incVal_lc C s s1 _ 1 hi with ⟨a, b⟩
        exact CountOK_of_eq C s _ a (by rw [show ({ s1 with temps := _ } : St).stats = s1.stats from rfl, b]) ok
  | free =>
    simp only [mstep] at h
    split at h
    · cases h
    · exact relLoop_count C _ _ s s' h ok
  | alloc k n vis text tag =>
    simp only [mstep, pure, Except.pure] at h
    cases h
    unfold CountOK at *
    simp only
    rw [lc_append, C.alloc, ok]
    have := isK_new C k { kind := k, ref := 1, live := true, items := List.replicate n (.num 0),
                          vis := vis, text := text, tag := tag } rfl rfl
    omega
  | fillFrom d l =>
    simp only [mstep, bind, Except.bind] at h
    split at h
    · cases h
    · split at h
      · cases h
      · rename_i cell hd
        split at h
        · cases h
        · split at h
          · cases h
          · rcases incVal_lc C _ s' _ _ h with ⟨a, b⟩
            unfold CountOK at *
            rw [a, b]
            unfold St.setCell
            simp only
            rw [lc_set_same C.k0 s.heap d cell _ hd ?_ ?_]
            · exact ok
            · rfl
            · rfl
  | grow d =>
    simp only [mstep] at h
    split at h
    · cases h
    · rename_i cell hd
      split at h
      · cases h
      · simp only [pure, Except.pure] at h
        cases h
        unfold CountOK St.setCell at *
        simp only
        rw [lc_set_same C.k0 s.heap d cell _ hd ?_ ?_, C.nodes]
        · exact ok
        · rfl
        · rfl
  | shrink d j =>
    simp only [mstep] at h
    split at h
    · cases h
    · rename_i cell hd
      split at h
      · cases h
      · split at h
        · simp only [pure, Except.pure] at h
          cases h
          unfold CountOK St.setCell at *
          simp only
          rw [lc_set_same C.k0 s.heap d cell _ hd ?_ ?_, C.nodes]
          · exact ok
          · rfl
          · rfl
        · cases h
  | pushRoot => simp only [mstep, pure, Except.pure] at h; cases h; exact ok
  | popRoot =>
    simp only [mstep] at h
    split at h
    · simp only [pure, Except.pure] at h; cases h; exact ok
    · cases h
  | mark d =>
    simp only [mstep] at h
    split at h
    · cases h
    · rename_i cell hd
      split at h
      · cases h
      · simp only [pure, Except.pure] at h
        cases h
        unfold CountOK St.setCell at *
        simp only
        rw [lc_set_same C.k0 s.heap d cell _ hd ?_ ?_]
        · exact ok
        · rfl
        · rfl
  | unlist d => simp only [mstep, pure, Except.pure] at h; cases h; exact ok
  | share w =>
    simp only [mstep] at h
    split at h
    · simp only [bind, Except.bind] at h
      split at h
      · cases h
      · rename_i s1 hi
        simp only [pure, Except.pure] at h
        cases h
        rcases incVal_lc C s s1 _ 1 hi with ⟨a, b⟩
        unfold CountOK at *
        simp only
        rw [a, C.allocd, b]
        exact ok
    · simp only [pure, Except.pure] at h
      cases h
      unfold CountOK at *
      simp only
      rw [lc_append, C.alloc, ok]
      have := isK_new C .str { kind := .str, ref := 1, live := true, items := [], text := w } rfl rfl
      omega
  | allocd δ =>
    simp only [mstep, pure, Except.pure] at h; cases h
    unfold CountOK at *; simp only; rw [C.allocd]; exact ok
  | distinct δ =>
    simp only [mstep, pure, Except.pure] at h; cases h
    unfold CountOK at *; simp only; rw [C.distinct]; exact ok
  | swap =>
    simp only [mstep] at h
    split at h
    · simp only [pure, Except.pure] at h; cases h; exact ok
    · cases h
  | inplace d =>
    simp only [mstep] at h
    split at h
    · cases h
    · split at h
      · cases h
      · simp only [pure, Except.pure] at h; cases h; exact ok
  | settext d w =>
    simp only [mstep] at h
    split at h
    · cases h
    · rename_i cell hd
      split at h
      · cases h
      · simp only [pure, Except.pure] at h
        cases h
        unfold CountOK St.setCell at *
        simp only
        rw [lc_set_same C.k0 s.heap d cell _ hd ?_ ?_]
        · exact ok
        · rfl
        · rfl

theorem runMi_count (C : Counter) : ∀ (prog : List Mi) (s s' : St), runMi s prog = .ok s' → CountOK C s → CountOK C s' := by
  intro prog
  induction prog with
  | nil => intro s s' h ok; simp only [runMi, pure, Except.pure] at h; cases h; exact ok
  | cons i is ih =>
    intro s s' h ok
    simp only [runMi, bind, Except.bind] at h
    split at h
    · cases h
    · rename_i s1 h1
      exact ih s1 s' h (mstep_count C s s1 i h1 ok)

theorem sweepFrom_count (C : Counter) : ∀ (ks : List Nat) (s s' : St), sweepFrom s ks = .ok s' → CountOK C s → CountOK C s' := by
  intro ks
  induction ks with
  | nil => intro s s' h ok; simp only [sweepFrom, pure, Except.pure] at h; cases h; exact ok
  | cons k ks ih =>
    intro s s' h ok
    simp only [sweepFrom, bind, Except.bind] at h
    split at h
    · cases h
    · rename_i s1 h1
      exact ih s1 s' h (runMi_count C _ s s1 h1 ok)

theorem step_count (C : Counter) (s s' : St) (op : Op) (h : step s op = .ok s') (ok : CountOK C s) : CountOK C s' := by
  have gen : ∀ (r : Option (List Mi)), compile s op = r →
      (match r with
        | none => Res.skip
        | some prog => match runMi s prog with
          | .ok s' => Res.ok s'
          | .error e => Res.fail e) = Res.ok s' → CountOK C s' := by
    intro r _ hres
    cases r with
    | none => cases hres
    | some prog =>
      simp only at hres
      split at hres
      · rename_i s2 h2
        cases hres
        exact runMi_count C prog s _ h2 ok
      · cases hres
  cases op <;> first
    | exact gen _ rfl h
    | (simp only [step] at h
       first
         | (cases h; exact ok)
         | (split at h
            · rename_i s2 h2; cases h; exact sweepFrom_count C _ s _ h2 ok
            · cases h))

theorem run_count (C : Counter) : ∀ (ops : List Op) (s s' : St), run s ops = .ok s' → CountOK C s → CountOK C s' := by
  intro ops
  induction ops with
  | nil => intro s s' h ok; simp only [run, pure, Except.pure] at h; cases h; exact ok
  | cons op ops ih =>
    intro s s' h ok
    simp only [run] at h
    split at h
    · rename_i s1 h1
      exact ih s1 s' h (step_count C s s1 op h1 ok)
    · exact ih s s' h ok
    · cases h

theorem CountOK_init (C : Counter) (h0 : C.π {} = 0) (hk : C.k0 ≠ .prog) : CountOK C St.init := by
  unfold CountOK St.init lc
  have hne : (Kind.prog == C.k0) = false := by
    cases h : C.k0 <;> simp_all
  simp [h0, List.countP_cons, hne]

end NV.C06
