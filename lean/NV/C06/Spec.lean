/-
C06 — specification oracle ("judge").

The specification knows nothing about counters.  It keeps the *graph*: which variable / stack slot / container /
pending call_out / sentence / function pointer / object variable refers to which value (the pointer moves an
operation means are given by the same micro programs the model executes, read as pure moves and copies: `dup` is a
copy, `free` just forgets the temp).  After every operation it applies the definition of exact reference counting
declaratively:

   a value exists  <->  something that exists (or a root) refers to it          (least fixpoint from "everything
                                                                                  allocated exists": values nobody
                                                                                  refers to disappear, repeatedly)

and then judges the line the implementation printed for that operation:

  * a value the specification still holds must not be reported freed        -> `freed-while-held`
  * an access to freed memory (harness `uaf`, driver fatal(), ASan report)  -> `use-after-free`
  * a value nobody holds must be gone                                       -> `leak cell=.. kind=..`
  * the reported counter equals the number of holders                       -> `ref-mismatch`
  * num_arrays / total_array_size / num_mappings / total_mapping_nodes / tot_alloc_object equal the number (size)
    of the existing values of that kind                                     -> `leak counter=.. by=..`
  * at the end: values that exist only because they hold each other        -> `leak-cyclic`

Verdicts that involve a value whose number of holders exceeded the range of the counter (2^W - 1) carry the
suffix `ref-wrap`; a string whose holders exceeded 2^SW - 1 is immortal by design and exempt from `leak`.
-/
import NV.Common.Proto
import NV.C06.Model

namespace NV.C06

open NV.Proto

/-- graph-only reading of a micro-instruction -/
def gstep (s : St) : Mi → M St
  | .take l => do
    let v ← readLoc s l
    let s ← writeLoc s l (.num 0)
    pure { s with temps := v :: s.temps }
  | .put l =>
    match s.temps with
    | [] => throw .misuse
    | v :: rest => do
      let s ← writeLoc s l v
      pure { s with temps := rest }
  | .dup l => do
    let v ← readLoc s l
    pure { s with temps := v :: s.temps }
  | .free => pure { s with temps := s.temps.drop 1 }
  | .alloc k n vis text tag =>
    pure { s with heap := s.heap ++ [{ kind := k, ref := 0, live := true, items := List.replicate n (.num 0),
                                       vis := vis, text := text, tag := tag }],
                  temps := .ptr s.heap.length :: s.temps }
  | .fillFrom d l => do
    let v ← readLoc s l
    match s.heap[d]? with
    | some cell => pure (s.setCell d { cell with items := List.replicate cell.items.length v })
    | none => throw .misuse
  | .grow d =>
    match s.heap[d]? with
    | some cell => pure (s.setCell d { cell with items := cell.items ++ [.num 0, .num 0] })
    | none => throw .misuse
  | .shrink d j =>
    match s.heap[d]? with
    | some cell => pure (s.setCell d { cell with items := (cell.items.eraseIdx (2 * j + 1)).eraseIdx (2 * j) })
    | none => throw .misuse
  | .pushRoot => pure { s with roots := s.roots ++ [.num 0] }
  | .popRoot => pure { s with roots := s.roots.dropLast }
  | .mark d =>
    match s.heap[d]? with
    | some cell => pure { (s.setCell d { cell with destructed := true }) with dlist := d :: s.dlist }
    | none => throw .misuse
  | .unlist d => pure { s with dlist := s.dlist.filter (· != d) }
  | .share w =>
    match findShared s.heap w with
    | some c => pure { s with temps := .ptr c :: s.temps }
    | none =>
      pure { s with heap := s.heap ++ [{ kind := .str, ref := 0, live := true, items := [], text := w }],
                    temps := .ptr s.heap.length :: s.temps }
  | .allocd _ => pure s
  | .distinct _ => pure s
  | .swap =>
    match s.temps with
    | a :: b :: rest => pure { s with temps := b :: a :: rest }
    | _ => throw .misuse
  | .inplace _ => pure s
  | .settext d w =>
    match s.heap[d]? with
    | some cell => pure (s.setCell d { cell with text := w })
    | none => throw .misuse

def grun (s : St) : List Mi → M St
  | [] => pure s
  | i :: is => do grun (← gstep s i) is

/-- number of references to cell c from roots, temps and existing containers -/
def holders (s : St) (c : Nat) : Nat :=
  s.roots.count (.ptr c) + s.temps.count (.ptr c) +
    (s.heap.map (fun d => if d.live then d.items.count (.ptr c) else 0)).sum

/-- one round: every existing value nobody refers to disappears; `ref` is set to the number of holders -/
def collect1 (s : St) : St × Bool :=
  let hs := (List.range s.heap.length).map (holders s)
  let heap := (s.heap.zip hs).map (fun (cell, h) =>
    if cell.live && h == 0 then { cell with live := false, items := [], ref := 0 } else { cell with ref := h })
  let changed := (s.heap.zip hs).any (fun (cell, h) => cell.live && h == 0)
  ({ s with heap := heap }, changed)

def collect : Nat → St → St
  | 0, s => s
  | f + 1, s =>
    let (s', ch) := collect1 s
    if ch then collect f s' else s'

def specRun (s : St) (prog : List Mi) : M St := do
  let s ← grun s prog
  pure (collect (s.heap.length + 1) s)

def specSweep (s : St) : List Nat → M St
  | [] => pure s
  | k :: ks => do specSweep (← specRun s (fireProg s k)) ks

/-- strings are VALUES: an operation that "modifies" the string of one variable gives that variable a new string;
    every other holder keeps the old text.  (Whether the implementation may reuse the block is its business; the
    specification never does.) -/
def valueText (s : St) (op : Op) : Option (Nat × String) :=
  match op with
  | .sappend d w => (strSlot s d).map (fun (_, cell) => (d, cell.text ++ w))
  | .sjoin d t =>
    match strSlot s d, strSlot s t with
    | some (_, cell), some (_, tcell) => some (d, cell.text ++ tcell.text)
    | _, _ => none
  | .sadd d a w => (strSlot s a).map (fun (_, cell) => (d, cell.text ++ w))
  | .saddl d a w => (strSlot s a).map (fun (_, cell) => (d, w ++ cell.text))
  | .sadd2 d a t =>
    match strSlot s a, strSlot s t with
    | some (_, cell), some (_, tcell) => some (d, cell.text ++ tcell.text)
    | _, _ => none
  | .schar d i w => (strSlot s d).map (fun (_, cell) => (d, setCharAt cell.text i w))
  | .srange d i j w => (strSlot s d).map (fun (_, cell) => (d, setRange cell.text i j w))
  | _ => none

/-- `none` = the operation is not applicable (the implementation must print `skip`) -/
def specStep (s : St) (op : Op) : Option (M St) :=
  match valueText s op with
  | some (d, w) =>
    (compile s op).map (fun _ =>
      -- bookkeeping only: a run-time string with ONE holder that keeps its length keeps its identity in the trace
      -- (giving the single holder a new value and overwriting the bytes are the same thing)
      match op, strSlot s d with
      | .schar _ _ _, some (c, cell) =>
        if cell.kind == .mstr && cell.ref == 1 then specRun s [.settext c w] else specRun s (replaceStr d w)
      | .srange _ _ _ _, some (c, cell) =>
        if cell.kind == .mstr && cell.ref == 1 && w.length == cell.text.length then specRun s [.settext c w]
        else specRun s (replaceStr d w)
      | _, _ => specRun s (replaceStr d w))
  | none =>
  match op with
  | .sweep => some (specSweep s (sweepOrder s))
  | .err _ _ => some (pure s)
  | .efun _ _ _ => some (pure s)
  | .rest _ => some (pure s)
  | .resto _ => some (pure s)
  | .fefun _ _ _ _ => some (pure s)
  | .frest _ _ => some (pure s)
  | op => (compile s op).map (specRun s)

/-- cells reachable from the roots -/
def reach : Nat → St → List Nat → List Nat → List Nat
  | 0, _, _, seen => seen
  | _, _, [], seen => seen
  | f + 1, s, c :: work, seen =>
    if seen.contains c then reach f s work seen
    else
      match s.heap[c]? with
      | some cell =>
        let kids := cell.items.filterMap (fun v => match v with | .ptr d => some d | .num _ => none)
        reach f s (kids ++ work) (c :: seen)
      | none => reach f s work seen

def rootPtrs (s : St) : List Nat :=
  s.roots.filterMap (fun v => match v with | .ptr d => some d | .num _ => none)

def kindName : Kind → String
  | .arr => "array" | .map => "mapping" | .cls => "class" | .buf => "buffer" | .fn => "funptr"
  | .str => "string" | .mstr => "mstring" | .obj => "object" | .call => "call_out" | .sent => "sentence"
  | .prog => "program" | .pack => "clones"

structure JSt where
  s : St := St.init
  wrap : Bool := false                -- some counted value had more than 2^W - 1 holders
  immortal : List Nat := []           -- strings that had more than 2^SW - 1 holders
  bad : List String := []             -- newest first
  flagged : List String := []         -- counters already reported
  stop : Bool := false
  idx : Nat := 0
  ctx : String := ""                  -- which value builder the current operation runs (verdict text)
  pwrap : Bool := false               -- the program had more than 2^progRefBits - 1 holders

def JSt.flag (j : JSt) (v : String) : JSt := { j with bad := v :: j.bad }

def wrapSfx (b : Bool) : String := if b then " ref-wrap" else ""

def noteRanges (j : JSt) (s : St) : JSt :=
  let idxs := List.range s.heap.length
  let over := idxs.any (fun c => match s.heap[c]? with
    | some cell => cell.live && !cell.kind.isStr && cell.ref ≥ 2 ^ W
    | none => false)
  let imm := idxs.filter (fun c => match s.heap[c]? with
    -- transient copies (a pushed operand, an argument on the stack) count while an operation runs: a string within
    -- a few holders of the limit may saturate (and become immortal) during the operation
    | some cell => cell.live && cell.kind.isStr && cell.ref + 8 ≥ 2 ^ SW
    | none => false)
  { j with wrap := j.wrap || over, immortal := j.immortal ++ imm.filter (fun c => !j.immortal.contains c) }

def maxHolders (s : St) : Nat := s.heap.foldl (fun m c => if c.live && c.ref > m then c.ref else m) 0

def parseField (pfx : String) (t : String) : Option (List String) :=
  if t.startsWith pfx then some ((t.drop pfx.length).toString.splitOn ",") else none

def expectStats (s : St) : List (String × Int) :=
  let anon := anonCount s
  let lv := s.heap.filter (·.live)
  let arrs := lv.filter (·.kind == .arr)
  let maps := lv.filter (·.kind == .map)
  [("num_arrays", (arrs.length : Int)),
   ("total_array_size", (arrs.map (fun c => arrBytes c.items.length)).foldl (· + ·) 0),
   ("num_mappings", (maps.length : Int)),
   ("total_mapping_nodes", ((maps.map (fun c => c.items.length / 2)).foldl (· + ·) 0 : Nat)),
   ("num_distinct_strings", ((lv.filter (·.kind.isStr)).length : Int)),
   ("allocd_strings", 0),
   ("tot_alloc_object", (((lv.filter (·.kind == .obj)).length + anon : Nat) : Int) - (unloadedCount s : Int))]

/-- compare one `ok r:.. st:..` line with the specification state -/
def judgeOk (j : JSt) (s : St) (rs sts : List String) : JSt := Id.run do
  let mut j := j
  let vis := (List.range s.heap.length).filter (fun c => match s.heap[c]? with
    | some cell => cell.vis
    | none => false)
  let rs := if rs == [""] then [] else rs
  if rs.length != vis.length then
    return j.flag s!"trace-mismatch op={j.idx} cells={rs.length} expected={vis.length}"
  for (c, r) in vis.zip rs do
    match s.heap[c]? with
    | none => pure ()
    | some cell =>
      let k := kindName cell.kind
      if r == "x" then
        if cell.live then
          j := j.flag s!"freed-while-held op={j.idx} cell={c} kind={k} holders={cell.ref}{wrapSfx j.wrap}"
      else
        match r.toNat? with
        | none => j := j.flag s!"trace-mismatch op={j.idx} ref={r}"
        | some rv =>
          if !cell.live then
            if !(cell.kind.isStr && j.immortal.contains c) then
              j := j.flag s!"leak op={j.idx} cell={c} kind={k} ref={rv} holders=0{wrapSfx j.wrap}"
          else if rv != cell.ref then
            if cell.kind.isStr && j.immortal.contains c && rv == 0 then pure ()
            else
              j := j.flag s!"ref-mismatch op={j.idx} cell={c} kind={k} ref={rv} holders={cell.ref}{wrapSfx (j.wrap || cell.ref ≥ 2 ^ W)}"
  let exp := expectStats s
  for ((name, want), got) in exp.zip sts do
    if name == "allocd_strings" || got == "-" then pure ()
    else if name == "num_distinct_strings" then
      -- existing string cells + the verb of every add_action sentence + strings that became immortal
      match got.toInt? with
      | none => j := j.flag s!"trace-mismatch op={j.idx} counter={name} value={got}"
      | some g =>
        let verbs := ((List.range nSents).filter (fun k => !isNumRoot s (rSent k))).length
        let imm := (j.immortal.filter (fun c => match s.heap[c]? with
          | some cell => !cell.live
          | none => false)).length
        let w : Int := want + (verbs : Int) + (imm : Int)
        if g != w && !j.flagged.contains name then
          j := { j with flagged := name :: j.flagged }
          j := j.flag (if g > w then s!"leak op={j.idx}{j.ctx} counter={name} by=+{g - w}{wrapSfx j.wrap}"
                       else s!"counter-low op={j.idx}{j.ctx} counter={name} by={g - w}{wrapSfx j.wrap}")
    else match got.toInt? with
      | none => j := j.flag s!"trace-mismatch op={j.idx} counter={name} value={got}"
      | some g =>
        if g != want && !j.flagged.contains name then
          let d := g - want
          j := { j with flagged := name :: j.flagged }
          j := j.flag (if d > 0 then s!"leak op={j.idx}{j.ctx} counter={name} by=+{d}{wrapSfx j.wrap}"
                       else s!"counter-low op={j.idx}{j.ctx} counter={name} by={d}{wrapSfx j.wrap}")
  return j

/-- programs: the specification state holds the cells `cProg` / `cBase` like any other value (holders: blueprint
    objects, object structures, inheriting programs); the implementation prints `p:<uobj>/<base>` -/
def judgeProgOne (j : JSt) (s : St) (c : Nat) (name got : String) : JSt :=
  match s.heap[c]? with
  | none => j
  | some cell =>
    let j := { j with pwrap := j.pwrap || cell.ref ≥ 2 ^ NV.Gen.C06.progRefBits }
    if got == "x" then
      if cell.live then j.flag s!"freed-while-held op={j.idx} kind=program prog={name} holders={cell.ref}{wrapSfx j.pwrap}" else j
    else match got.toNat? with
      | some r =>
        if !cell.live then j.flag s!"leak op={j.idx} kind=program prog={name} ref={r} holders=0{wrapSfx j.pwrap}"
        else if r != cell.ref then
          j.flag s!"ref-mismatch op={j.idx} kind=program prog={name} ref={r} holders={cell.ref}{wrapSfx j.pwrap}"
        else j
      | none => j.flag s!"trace-mismatch op={j.idx} field=p:{got}"

/-- func_ref: the specification holds the func_ref cell of a program like any value; holders = its function pointers
    + the permanent one -/
def judgeFuncOne (j : JSt) (s : St) (c : Nat) (name got : String) : JSt :=
  match s.heap[c]? with
  | none => j
  | some cell =>
    if got == "x" then j
    else match got.toNat? with
      | some r =>
        if cell.live && r + 1 != cell.ref then
          j.flag s!"ref-mismatch op={j.idx} kind=program-func_ref prog={name} func_ref={r} function-pointers={cell.ref - 1}"
        else j
      | none => j.flag s!"trace-mismatch op={j.idx} field=func_ref:{got}"

def judgeProgPair (j : JSt) (s : St) (c fc : Nat) (name fld : String) : JSt :=
  match fld.splitOn "." with
  | [a, f] => judgeFuncOne (judgeProgOne j s c name a) s fc name f
  | _ => j.flag s!"trace-mismatch op={j.idx} field=p:{fld}"

def judgeProg (j : JSt) (s : St) (pf : String) : JSt :=
  match (pf.drop 2).toString.splitOn "/" with
  | [a, b] => if pf.startsWith "p:" then judgeProgPair (judgeProgPair j s cProg cFProg "uobj" a) s cBase cFBase "base" b
              else j.flag s!"trace-mismatch op={j.idx} field={pf}"
  | _ => j.flag s!"trace-mismatch op={j.idx} field={pf}"

def specProgFreed (s : St) : Bool :=
  match s.heap[cProg]? with
  | some cell => !cell.live
  | none => true

/-- the function-name strings must be held exactly once per pending call_out and per add_action sentence -/
def judgeNames (j : JSt) (s : St) (ff : String) : JSt :=
  let want := ((List.range nCalls).filter (fun k => !isNumRoot s (rCall k))).length +
              ((List.range nSents).filter (fun k => !isNumRoot s (rSent k))).length
  if ff == "f:-" then (if specProgFreed s then j else j.flag s!"trace-mismatch op={j.idx} field={ff}")
  else match ((ff.drop 2).toString.toInt?) with
    | some g =>
      if g != (want : Int) && !j.flagged.contains "fn" then
        let j := { j with flagged := "fn" :: j.flagged }
        j.flag (if g > (want : Int) then s!"leak op={j.idx} counter=function_name_string_refs by=+{g - want}"
                else s!"counter-low op={j.idx} counter=function_name_string_refs by={g - want}")
      else j
    | none => j.flag s!"trace-mismatch op={j.idx} field={ff}"

/-- value-level oracle: the text every variable sees is the text the specification gave it -/
def judgeTexts (j : JSt) (s : St) (tf : String) : JSt := Id.run do
  let mut j := j
  let got := (tf.drop 2).toString.splitOn ","
  if got.length != nSlots then
    return j.flag s!"trace-mismatch op={j.idx} field={tf}"
  for (i, g) in (List.range nSlots).zip got do
    let want := match strSlot s i with
      | some (_, cell) => (cell.text, cell.ref)
      | none => ("-", 0)
    if g != want.1 && !j.flagged.contains "text" then
      j := { j with flagged := "text" :: j.flagged }
      if want.2 > 1 then
        j := j.flag s!"modified-while-shared op={j.idx} slot={i} text={g} expected={want.1} holders={want.2}"
      else
        j := j.flag s!"text-mismatch op={j.idx} slot={i} text={g} expected={want.1}"
  return j

def judgeLine (j : JSt) (op : Option Op) (line : String) : JSt :=
  if j.stop then j else
  let j := { j with idx := j.idx + 1 }
  let j := { j with ctx := match op with
    | some (.efun f _ _) => s!" efun={f}"
    | some (.fefun f _ _ k) => s!" efun={f} error-injected-at-instruction={k}"
    | some (.frest w k) => s!" restore_variable={w} error-injected-at-instruction={k}"
    | some (.rest w) => s!" restore_variable={w}"
    | some (.resto w) => s!" restore_object={w}"
    | some (.err _ _) => " error-under-frames"
    | _ => "" }
  let exp : Option (M St) := match op with
    | none => none
    | some op => specStep j.s op
  match exp with
  | none =>
    if line == "skip" then j else { (j.flag s!"trace-mismatch op={j.idx} expected=skip got={line}") with stop := true }
  | some (.error e) => { (j.flag s!"spec-error op={j.idx} {e.name}") with stop := true }
  | some (.ok s') =>
    let j := noteRanges (noteRanges j j.s) s'
    -- a fault-injection sweep that found a difference names the instruction index in a 7th field `k:<n>`
    let (tk, j) := match toks line with
      | ["ok", r, st, pf, ff, tf, kf] => (["ok", r, st, pf, ff, tf], { j with ctx := j.ctx ++ s!" first-difference-at={kf}" })
      | t => (t, j)
    match tk with
    | ["ok", r, st, pf, ff, tf] =>
      match parseField "r:" r, parseField "st:" st with
      | some rs, some sts =>
        { (judgeTexts (judgeNames (judgeProg (judgeOk j s' rs sts) s' pf) s' ff) s' tf) with s := s' }
      | _, _ => { (j.flag s!"trace-mismatch op={j.idx} line={line}") with stop := true }
    | ["skip"] => { (j.flag s!"trace-mismatch op={j.idx} got=skip") with stop := true }
    | _ =>
      let h := Nat.max (maxHolders j.s) (maxHolders s')
      let l := line
      if l == "uaf" || (l.splitOn "heap-use-after-free").length > 1 || (l.splitOn "double-free").length > 1 then
        let ph := match s'.heap[cProg]? with
          | some cell => cell.ref
          | none => 0
        let pw := j.pwrap || ph ≥ 2 ^ NV.Gen.C06.progRefBits
        if pw && !j.wrap then
          { (j.flag s!"use-after-free op={j.idx} kind=program holders={ph} ref-wrap") with stop := true }
        else
          { (j.flag s!"use-after-free op={j.idx} max-holders={h}{wrapSfx j.wrap}") with stop := true }
      else if l == "fatal" || l == "objvars" then
        { (j.flag s!"use-after-free op={j.idx} driver-fatal max-holders={h}{wrapSfx j.wrap}") with stop := true }
      else { (j.flag s!"crash op={j.idx} {l}") with stop := true }

def judgeEnd (j : JSt) (lpc : Bool) : JSt :=
  if j.stop then j else
  let s := j.s
  let seen := reach (s.size + s.heap.length + s.roots.length + 8) s (rootPtrs s) []
  let garbage := (List.range s.heap.length).filter (fun c => match s.heap[c]? with
    | some cell => cell.live && !seen.contains c
    | none => false)
  let cnt (k : Kind) : Nat := (garbage.filter (fun c => match s.heap[c]? with
    | some cell => cell.kind == k
    | none => false)).length
  let _ := lpc
  if garbage.isEmpty then j
  else j.flag s!"leak-cyclic values={garbage.length} arrays={cnt .arr} mappings={cnt .map} classes={cnt .cls} funptrs={cnt .fn} objects={cnt .obj}"

/-- the oracle: operations (none = not executed in this mode) and the implementation's output lines -/
def judge (lpc : Bool) (ops : List (Option Op)) (impl : List String) : List String :=
  let rec go (j : JSt) (ops : List (Option Op)) (impl : List String) : JSt :=
    match ops, impl with
    | [], [] => judgeEnd j lpc
    | [], l :: _ => if j.stop then j else j.flag s!"trace-mismatch extra-line {l}"
    | _ :: _, [] => if j.stop then j else j.flag s!"crash op={j.idx + 1} output-ends"
    | op :: ops, l :: impl => go (judgeLine j op l) ops impl
  (go {} ops impl).bad.reverse

end NV.C06
