import NV.C06.Model
import NV.C06.Spec
namespace NV.C06
end NV.C06
