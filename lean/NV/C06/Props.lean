/-
C06 — property theorems (PARTIAL: they are about the reference-counting PRIMITIVES; that every efun and opcode
uses the primitives according to their contract is observed by the correspondence run, not proved).

All theorems quantify over every history of operations `ops : List Op` run from the empty state (and, through
`runMi_ok`, over every sequence of micro-instructions, i.e. of primitive calls).

The side condition.  The counters have W bits (`NV.Gen.C06.refBits`, regenerated from the source).  `FitsRun`
says that in every state the history passes through no counted value has more than 2^W holders.  The task's
hypothesis `holders <= 2^W - 1` implies it (`Fits_of_le`); the condition is sharp: with 2^W + 1 holders the next
release frees the value (`Witness.wrap_uaf`).  Strings need no condition at all: their counter saturates.
-/
import NV.C06.Invariant
import NV.C06.Counters
import NV.C06.Strings
import NV.C06.Spec
import NV.C06.Oracle
import NV.C06.Weights

namespace NV.C06

/-- every reference-counted header has its counter at the same width as `refed_t.ref` through which
    free_svalue / assign_svalue_no_free access it (a partial widening would make them read a wrong field) -/
theorem widths_agree :
    NV.Gen.C06.arrRefBits = W ∧ NV.Gen.C06.mapRefBits = W ∧ NV.Gen.C06.bufRefBits = W ∧
    NV.Gen.C06.funRefBits = W ∧ NV.Gen.C06.objRefBits = W ∧ NV.Gen.C06.sharedRefBits = SW := by decide

/-! ### the counter updates of the model are the regenerated ones

`NV.Gen.C06.strInc / strDec` are translated from the bodies of INC_COUNTED_REF / DEC_COUNTED_REF (`gcc -E`),
`refedDec / refedInc` from the T_REFED branches of free_svalue / assign_svalue_no_free (the translator also insists
that the increment is unconditional and that assign_svalue frees before it copies).  A changed C line changes these
definitions and breaks the bridging lemmas below. -/

theorem incRef_str_matches (r : Nat) (h : r < 2 ^ SW) : incRef .str r 1 = NV.Gen.C06.strInc r := by
  unfold incRef NV.Gen.C06.strInc
  simp only [Kind.isStr, if_true]
  by_cases h0 : r = 0
  · simp [h0]
  · have hne : (r != 0) = true := by simp [h0]
    rw [if_neg h0, if_pos hne]
    by_cases hlt : r + 1 < 2 ^ SW
    · rw [if_pos hlt]; exact (Nat.mod_eq_of_lt hlt).symm
    · rw [if_neg hlt]
      have : r + 1 = 2 ^ SW := by omega
      rw [this]; exact (Nat.mod_self _).symm

theorem decRef_str_matches (r : Nat) (h : r < 2 ^ SW) : decRef .str r = NV.Gen.C06.strDec r := by
  unfold decRef NV.Gen.C06.strDec
  simp only [Kind.isStr, if_true]
  by_cases h0 : r = 0
  · simp [h0]
  · have hne : (r == 0) = false := by simp [h0]
    rw [if_neg h0, hne]
    simp only [Bool.false_eq_true, if_false]
    have hp : 0 < 2 ^ SW := Nat.pow_pos (by decide)
    have e : (r + 2 ^ SW - 1) % 2 ^ SW = r - 1 := by
      rw [show r + 2 ^ SW - 1 = (r - 1) + 2 ^ SW by omega, Nat.add_mod_right, Nat.mod_eq_of_lt (by omega)]
    show (r - 1, r - 1 == 0) = ((r + 2 ^ SW - 1) % 2 ^ SW, !decide ((r + 2 ^ SW - 1) % 2 ^ SW > 0))
    rw [e]
    cases r - 1 with
    | zero => simp
    | succ n => simp

theorem decRef_refed_matches (k : Kind) (hk : k.isStr = false) (r : Nat) :
    decRef k r = NV.Gen.C06.refedDec r := by
  unfold decRef NV.Gen.C06.refedDec
  rw [if_neg (by simp [hk])]
  show ((r + 2 ^ W - 1) % 2 ^ W, (r + 2 ^ W - 1) % 2 ^ W == 0) = ((r + 2 ^ W - 1) % 2 ^ W, !((r + 2 ^ W - 1) % 2 ^ W != 0))
  generalize (r + 2 ^ W - 1) % 2 ^ W = x
  cases x with
  | zero => simp
  | succ n => simp

theorem incRef_refed_matches (k : Kind) (hk : k.isStr = false) (r : Nat) :
    incRef k r 1 = NV.Gen.C06.refedInc r := by
  unfold incRef NV.Gen.C06.refedInc
  rw [if_neg (by simp [hk])]

/-! ### programs: `program_t.ref` is a cell of the heap model (kind `.prog`)

The model counts program references at the width `W` of `refed_t.ref`; `prog_widths_agree` is the obligation that
`program_t.ref` (and `func_ref`) really have that width (they had 16 bits until repo commit 0280873: see
`Witness.prog_wrap_uaf`), `incRef_prog_matches` / `decRef_prog_matches` tie the model's updates to the regenerated
bodies of reference_prog / free_prog (with `func_ref = 0`: the harness program has no function pointers compiled in). -/

theorem prog_widths_agree : NV.Gen.C06.progRefBits = W ∧ NV.Gen.C06.progFuncRefBits = W := by decide

theorem incRef_prog_matches (r : Nat) : incRef .prog r 1 = NV.Gen.C06.progInc r := by
  unfold incRef NV.Gen.C06.progInc
  rw [if_neg (by simp [Kind.isStr])]
  rw [prog_widths_agree.1]

theorem decRef_prog_matches (r : Nat) : decRef .prog r = NV.Gen.C06.progDec r 0 := by
  unfold decRef NV.Gen.C06.progDec
  rw [if_neg (by simp [Kind.isStr])]
  rw [prog_widths_agree.1]
  show ((r + 2 ^ W - 1) % 2 ^ W, (r + 2 ^ W - 1) % 2 ^ W == 0) = _
  generalize (r + 2 ^ W - 1) % 2 ^ W = x
  cases x with
  | zero => simp
  | succ n => simp

/-- **func_ref_sites_agree** (obligation on the regenerated site expressions): make_functional_funp increments func_ref
    of the very program it stores in the pointer, and dealloc_funp / f_bind address the program stored in the pointer —
    so every increment is undone on the same program (the model: one func_ref cell per program, held by the pointer). -/
theorem func_ref_sites_agree :
    NV.Gen.C06.funcRefIncProg = NV.Gen.C06.funcRefStoredProg ∧ NV.Gen.C06.funcRefDecProg = "f.functional.prog" ∧
    NV.Gen.C06.funcRefBindProg = "f.functional.prog" := by decide

/-- the byte count the model keeps per array (total_array_size) is the regenerated formula of allocate_array /
    allocate_empty_array / dealloc_array / free_empty_array -/
theorem arrBytes_matches (n : Nat) : arrBytes n = NV.Gen.C06.arrBytesOf n := by
  unfold arrBytes NV.Gen.C06.arrBytesOf NV.Gen.C06.sizeofArrayT NV.Gen.C06.sizeofSvalue
  omega

/-- the hypothesis of the task (`holders ≤ 2^W − 1` for every value) implies `Fits` -/
theorem Fits_of_le (s : St) (h : ∀ c, H s c ≤ 2 ^ W - 1) : Fits s := by
  intro c
  right
  have := h c
  have := two_pow_W_pos
  omega

/-- **ref_eq_holders.**  After any history in which the holders always fit the counters, the counter of every
    live array / mapping / class / buffer / function pointer / object / call record / sentence equals its number
    of holders modulo 2^W — hence equals it exactly, and is positive, when the holders fit in W bits. -/
theorem ref_eq_holders (ops : List Op) (s : St) (h : run St.init ops = .ok s) (fit : FitsRun St.init ops)
    (c : Nat) (cell : Cell) (hc : s.heap[c]? = some cell) (hl : cell.live = true) (hk : cell.kind.isStr = false) :
    cell.ref = H s c % 2 ^ W ∧ (H s c < 2 ^ W → cell.ref = H s c ∧ 0 < H s c) := by
  have inv := run_ok ops St.init s h Inv_init fit c
  unfold CellOK at inv
  rw [metaOf_some s c cell hc, hl] at inv
  simp only [RefOK, hk] at inv
  simp only [Bool.false_eq_true, if_false] at inv
  refine ⟨inv.1, fun hlt => ⟨?_, inv.2 hlt⟩⟩
  rw [inv.1, Nat.mod_eq_of_lt hlt]

example : ∃ s cell, run St.init [.newarr 0 2, .assign 1 0, .newmap 2, .mset 2 0 0, .push 0] = .ok s ∧
    s.heap[c0]? = some cell ∧ cell.ref = 5 ∧ H s c0 = 5 := by
  refine ⟨_, _, rfl, rfl, ?_, ?_⟩ <;> decide

/-- **no_free_while_held.**  Under the same hypothesis a deallocated cell has no holder left: no variable, stack
    slot, container, pending call_out, sentence, function pointer or object variable refers to freed memory. -/
theorem no_free_while_held (ops : List Op) (s : St) (h : run St.init ops = .ok s) (fit : FitsRun St.init ops)
    (c : Nat) (cell : Cell) (hc : s.heap[c]? = some cell) (hl : cell.live = false) : H s c = 0 := by
  have inv := run_ok ops St.init s h Inv_init fit c
  unfold CellOK at inv
  rw [metaOf_some s c cell hc, hl] at inv
  exact inv

example : ∃ s cell, run St.init [.newarr 0 2, .newarr 1 1, .aset 0 0 1, .free 1, .free 0] = .ok s ∧
    s.heap[c0 + 1]? = some cell ∧ cell.live = false := ⟨_, _, rfl, rfl, rfl⟩

/-- a pointer stored in a container counts as a holder -/
theorem heapCnt_pos_of_mem (p : Nat) (h : List Cell) (d : Nat) (dc : Cell) (hd : h[d]? = some dc)
    (hm : Val.ptr p ∈ dc.items) : 0 < heapCnt p h := by
  induction h generalizing d with
  | nil => simp at hd
  | cons a t ih =>
    rw [heapCnt_cons]
    cases d with
    | zero =>
      simp at hd
      subst hd
      have : 0 < cnt p a.items := by unfold cnt; exact List.count_pos_iff.mpr hm
      omega
    | succ j =>
      have := ih j (by simpa using hd)
      omega

/-- **no_dangling_reference.**  After any history in which the holders always fit the counters, every pointer that
    is stored anywhere — a variable, a stack slot, a handle, the object list, a pending call_out, a sentence, a value
    in transit, an element of a container, a variable of an object, the program field of an object structure, the
    inherit table of a program — refers to a cell that is allocated and has not been deallocated. -/
theorem no_dangling_reference (ops : List Op) (s : St) (h : run St.init ops = .ok s) (fit : FitsRun St.init ops)
    (p : Nat) (held : 0 < H s p) : ∃ cell, s.heap[p]? = some cell ∧ cell.live = true := by
  have inv := run_ok ops St.init s h Inv_init fit p
  unfold CellOK at inv
  cases hc : s.heap[p]? with
  | none =>
    have : metaOf s p = none := by unfold metaOf; rw [hc]; rfl
    rw [this] at inv
    simp only at inv
    omega
  | some cell =>
    rw [metaOf_some s p cell hc] at inv
    cases hl : cell.live with
    | true => exact ⟨cell, rfl, hl⟩
    | false =>
      rw [hl] at inv
      simp only at inv
      omega

/-- **program_alive_while_referenced.**  Under the same hypothesis, whatever a live cell stores a pointer to is live:
    in particular the program of every object structure that has not been deallocated (`ob->prog`, item `nVars` of an
    object cell; the object may be destructed and waiting for its last holder) and every program in the inherit table
    of a live program are allocated — free_prog never deallocates a program some object or program still uses. -/
theorem program_alive_while_referenced (ops : List Op) (s : St) (h : run St.init ops = .ok s)
    (fit : FitsRun St.init ops) (d : Nat) (dc : Cell) (hd : s.heap[d]? = some dc) (p : Nat)
    (hm : Val.ptr p ∈ dc.items) : ∃ pc, s.heap[p]? = some pc ∧ pc.live = true := by
  apply no_dangling_reference ops s h fit p
  have := heapCnt_pos_of_mem p s.heap d dc hd hm
  unfold H
  omega

/-- **prog_ref_eq_holders.**  `program_t.ref` of a live program equals the number of its holders (blueprint object,
    object structures of clones, inheriting programs) modulo 2^W, and exactly when they fit. -/
theorem prog_ref_eq_holders (ops : List Op) (s : St) (h : run St.init ops = .ok s) (fit : FitsRun St.init ops)
    (c : Nat) (cell : Cell) (hc : s.heap[c]? = some cell) (hl : cell.live = true) (hk : cell.kind = .prog) :
    cell.ref = H s c % 2 ^ W ∧ (H s c < 2 ^ W → cell.ref = H s c ∧ 0 < H s c) :=
  ref_eq_holders ops s h fit c cell hc hl (by rw [hk]; rfl)

/-- non-vacuity: two named clones and three anonymous ones; the program of /c06/uobj has 6 holders, the inherited
    program 2; after the blueprint is unloaded and all clones are gone both programs are deallocated -/
example : ∃ s pc bc, run St.init [.newobj 0, .newobj 1, .clones 3] = .ok s ∧
    s.heap[cProg]? = some pc ∧ pc.ref = 6 ∧ H s cProg = 6 ∧ s.heap[cBase]? = some bc ∧ bc.ref = 2 ∧ H s cBase = 2 := by
  refine ⟨_, _, _, rfl, rfl, ?_, ?_, rfl, ?_, ?_⟩ <;> decide

example : ∃ s pc bc, run St.init [.newobj 0, .clones 2, .unload 0, .unload 1, .unclone 2, .dest 0, .cleanup, .drop 0] = .ok s ∧
    s.heap[cProg]? = some pc ∧ pc.live = false ∧ s.heap[cBase]? = some bc ∧ bc.live = false ∧ H s cProg = 0 ∧ H s cBase = 0 := by
  refine ⟨_, _, _, rfl, rfl, ?_, rfl, ?_, ?_, ?_⟩ <;> decide

/-- the same for all sequences of primitive calls (micro-instructions), from any state satisfying the invariant -/
theorem primitives_preserve_invariant (prog : List Mi) (s s' : St) (h : runMi s prog = .ok s') (inv : Inv s)
    (fit : FitsAlong s prog) : Inv s' := runMi_ok prog s s' h inv fit

/-! ### strings: saturation makes them immortal, never freed while held — no hypothesis -/

/-- life of one string block seen from its counter: `true` = a new holder (INC_COUNTED_REF), `false` = a holder
    lets go (DEC_COUNTED_REF).  Result: `none` = the block was deallocated by that release, with the number of
    holders that remained. -/
def strLife : Nat × Nat → List Bool → (Nat × Nat) ⊕ Nat
  | st, [] => .inl st
  | (r, h), true :: evs => strLife (incRef .str r 1, h + 1) evs
  | (r, h), false :: evs =>
    if (decRef .str r).2 then .inr (h - 1) else strLife ((decRef .str r).1, h - 1) evs

/-- `releases never exceed holders`: every release is made by one of the current holders -/
def strLegal : Nat → List Bool → Prop
  | _, [] => True
  | h, true :: evs => strLegal (h + 1) evs
  | h, false :: evs => 0 < h ∧ strLegal (h - 1) evs

/-- **string_never_freed_while_held.**  For every sequence of new holders and releases of a string (shared or
    malloc'ed), however long: if the block is deallocated, no holder remains.  (After 2^SW - 1 simultaneous
    holders the counter sticks at 0 and the string is never deallocated at all.) -/
theorem string_never_freed_while_held (evs : List Bool) :
    ∀ (r h : Nat), RefOK .str r h → strLegal h evs → ∀ left, strLife (r, h) evs = .inr left → left = 0 := by
  induction evs with
  | nil => intro r h _ _ left e; simp [strLife] at e
  | cons e evs ih =>
    intro r h ok legal left hres
    cases e with
    | true =>
      simp only [strLife] at hres
      exact ih _ _ (RefOK_inc .str r h 1 ok) legal left hres
    | false =>
      simp only [strLife] at hres
      simp only [strLegal] at legal
      split at hres
      · rename_i hd
        cases hres
        exact RefOK_dec_dead .str r h ok legal.1 (by intro x; cases x) hd
      · rename_i hd
        exact ih _ _ (RefOK_dec_alive .str r h ok legal.1 (by simpa using hd)) legal.2 left hres

/-- **string_cells_never_freed_while_held** (heap level, NO hypothesis on the number of holders): after any history,
    a deallocated string (shared or malloc'ed) has no holder, and a live one has counter 0 (immortal after
    saturation) or exactly its number of holders. -/
theorem string_cells_never_freed_while_held (ops : List Op) (s : St) (h : run St.init ops = .ok s)
    (c : Nat) (cell : Cell) (hc : s.heap[c]? = some cell) (hk : cell.kind.isStr = true) :
    (cell.live = false → H s c = 0) ∧
    (cell.live = true → cell.ref = 0 ∨ (cell.ref = H s c ∧ 0 < H s c ∧ H s c < 2 ^ SW)) := by
  have inv := run_str_ok ops St.init s c h (Inv_init c) (by intro cell' hc'; rw [hc] at hc'; cases hc'; exact hk)
  unfold CellOK at inv
  rw [metaOf_some s c cell hc] at inv
  constructor
  · intro hl; rw [hl] at inv; exact inv
  · intro hl
    rw [hl] at inv
    simp only [RefOK, hk, if_true] at inv
    exact inv

example : ∃ s cell, run St.init [.newstr 0 "a", .newstr 1 "a", .fill 2 3 0, .free 0, .free 1, .free 2] = .ok s ∧
    s.heap[c0]? = some cell ∧ cell.kind = .str ∧ cell.live = false := ⟨_, _, rfl, rfl, rfl, rfl⟩

/-! ### a string block is modified in place only by its single holder

The string-building primitives read the counter to decide whether they may reuse the block: EXTEND_SVALUE_STRING and
SVALUE_STRING_JOIN call extend_string() on the block itself, unlink_string_svalue lets the caller overwrite its
bytes (s[i] = c, s[i..j] = ...) or free it.  The decision expressions are regenerated from the source
(`NV.Gen.C06.extendInPlace`, `joinInPlace`, `unlinkCopies`); the obligations below hold only if "in place" implies
"counter = 1 exactly" - a counter of 0 is a string with more than 2^SW - 1 holders (immortal), not a private one. -/

/-- obligation on the regenerated EXTEND_SVALUE_STRING condition -/
theorem extendInPlace_sole (m : Bool) (r : Nat) (h : NV.Gen.C06.extendInPlace m r = true) : m = true ∧ r = 1 := by
  unfold NV.Gen.C06.extendInPlace at h
  cases m <;> simp at h ⊢ <;> omega

/-- obligation on the regenerated SVALUE_STRING_JOIN condition -/
theorem joinInPlace_sole (m : Bool) (r : Nat) (h : NV.Gen.C06.joinInPlace m r = true) : m = true ∧ r = 1 := by
  unfold NV.Gen.C06.joinInPlace at h
  cases m <;> simp at h ⊢ <;> omega

/-- obligation on the regenerated unlink_string_svalue condition: no copy is made only for counter 1 -/
theorem unlink_inplace_sole (r : Nat) (h : NV.Gen.C06.unlinkCopies r = false) : r = 1 := by
  unfold NV.Gen.C06.unlinkCopies at h
  simp at h
  omega

/-- the block the operation `op` modifies in place in state s (the `inplace` marker of its micro program), if any -/
def inPlaceTarget (s : St) (op : Op) : Option Nat :=
  match compile s op with
  | some prog => prog.findSome? (fun i => match i with | .inplace c => some c | _ => none)
  | none => none

/-- a live string cell whose counter is exactly 1 has exactly one holder - after ANY history (saturation included) -/
theorem sole_of_ref_one (ops : List Op) (s : St) (h : run St.init ops = .ok s) (c : Nat) (cell : Cell)
    (hc : s.heap[c]? = some cell) (hk : cell.kind.isStr = true) (hl : cell.live = true) (hr : cell.ref = 1) :
    H s c = 1 := by
  rcases (string_cells_never_freed_while_held ops s h c cell hc hk).2 hl with h0 | ⟨h1, _, _⟩
  · omega
  · omega

/-- **no_inplace_modification_while_shared.**  After any history of operations (any number of holders, saturated
    counters included), whenever `v[d] += n`, `v[d] += v[t]`, `v[d][i] = c` or `v[d][i..j] = w` decides to modify the
    block of v[d] in place, that block has exactly one holder (v[d] itself): nobody else can observe the change. -/
theorem no_inplace_modification_while_shared (ops : List Op) (s : St) (h : run St.init ops = .ok s)
    (d : Nat) (c : Nat) (cell : Cell) (hs : strSlot s d = some (c, cell)) :
    (∀ w, Mi.inplace c ∈ extendProg NV.Gen.C06.extendInPlace c cell cell.ref d w → H s c = 1) ∧
    (∀ w, Mi.inplace c ∈ unlinkStoreProg c cell d w → H s c = 1) ∧
    (NV.Gen.C06.joinInPlace (cell.kind == .mstr) cell.ref = true → H s c = 1) := by
  have hcell : s.heap[c]? = some cell ∧ cell.live = true ∧ cell.kind.isStr = true := by
    unfold strSlot slotCell at hs
    split at hs
    · rename_i c' cell' hsc
      split at hs
      · rename_i hlk
        cases hs
        split at hsc
        · split at hsc
          · rename_i hh; cases hsc
            simp at hlk
            exact ⟨hh, hlk.1, hlk.2⟩
          · cases hsc
        · cases hsc
      · cases hs
    · cases hs
  rcases hcell with ⟨hc, hl, hk⟩
  refine ⟨?_, ?_, ?_⟩
  · intro w hm
    unfold extendProg replaceStr at hm
    by_cases hd : NV.Gen.C06.extendInPlace (cell.kind == .mstr) cell.ref = true
    · exact sole_of_ref_one ops s h c cell hc hk hl (extendInPlace_sole _ _ hd).2
    · simp [hd] at hm
  · intro w hm
    unfold unlinkStoreProg replaceStr at hm
    by_cases hd : (cell.kind == .mstr && !(NV.Gen.C06.unlinkCopies cell.ref)) = true
    · have : NV.Gen.C06.unlinkCopies cell.ref = false := by
        have h2 := (Bool.and_eq_true _ _ ▸ hd).2
        simpa using h2
      exact sole_of_ref_one ops s h c cell hc hk hl (unlink_inplace_sole _ this)
    · simp [hd] at hm
  · intro hd
    exact sole_of_ref_one ops s h c cell hc hk hl (joinInPlace_sole _ _ hd).2

/-- `v[d] = v[s] + n` works on a pushed copy (one more holder): it never modifies the block of v[s] in place -/
theorem add_never_inplace (k : Kind) (hk : k.isStr = true) (r : Nat) :
    NV.Gen.C06.extendInPlace (k == .mstr) (incRef k r 1) = false := by
  cases hx : NV.Gen.C06.extendInPlace (k == .mstr) (incRef k r 1) with
  | false => rfl
  | true =>
    have := (extendInPlace_sole _ _ hx).2
    unfold incRef at this
    rw [if_pos hk] at this
    split at this
    · omega
    · split at this <;> omega

/-- `v[d] = v[s] + v[t]` joins two pushed copies: the left block has one more holder, it is never reused -/
theorem join_on_copy_never_inplace (k : Kind) (hk : k.isStr = true) (r : Nat) :
    NV.Gen.C06.joinInPlace (k == .mstr) (incRef k r 1) = false := by
  cases hx : NV.Gen.C06.joinInPlace (k == .mstr) (incRef k r 1) with
  | false => rfl
  | true =>
    have := (joinInPlace_sole _ _ hx).2
    unfold incRef at this
    rw [if_pos hk] at this
    split at this
    · omega
    · split at this <;> omega

/-- non-vacuity: the single holder of a run-time string appends in place; with a second holder a copy is made and the
    other holder keeps its text -/
example : inPlaceTarget (match run St.init [.newmstr 0 "ab"] with | .ok s => s | .error _ => St.init) (.sappend 0 "7")
    = some c0 := by decide
example : ∃ s c0 c1, run St.init [.newmstr 0 "ab", .assign 1 0, .schar 1 0 "z"] = .ok s ∧
    strSlot s 0 = some c0 ∧ c0.2.text = "ab" ∧ strSlot s 1 = some c1 ∧ c1.2.text = "zb" :=
  ⟨_, _, _, rfl, rfl, by decide, rfl, by decide⟩

/-- a fresh string satisfies the invariant -/
example : RefOK .str 1 1 := RefOK_new .str

/-- non-vacuity: 3 holders, 3 releases: deallocated by the last one -/
example : strLife (1, 1) [true, true, false, false, false] = .inr 0 := by decide

/-- the saturation rule of the code: once 2^SW - 1 more holders arrive the counter is 0 and stays 0 -/
theorem string_saturates (n : Nat) (hn : 2 ^ SW ≤ 1 + n) : incRef .str 1 n = 0 ∧ decRef .str 0 = (0, false) := by
  unfold incRef decRef
  simp only [Kind.isStr, if_true]
  refine ⟨?_, by simp⟩
  rw [if_neg (by decide), if_neg (by omega)]

/-! ### balanced histories return to the baseline -/

/-- the three live-value counters of the driver are exact after every history -/
theorem counters_exact (ops : List Op) (s : St) (h : run St.init ops = .ok s) :
    s.stats.numArrays = (lc .arr s.heap : Int) ∧ s.stats.numMappings = (lc .map s.heap : Int) ∧
    s.stats.objects = (lc .obj s.heap : Int) :=
  ⟨run_count cArrays ops St.init s h (CountOK_init cArrays rfl (by decide)),
   run_count cMappings ops St.init s h (CountOK_init cMappings rfl (by decide)),
   run_count cObjects ops St.init s h (CountOK_init cObjects rfl (by decide))⟩

/-- **sizes_exact** (oracle clauses `leak counter=total_array_size` / `total_mapping_nodes`): after every history, with no
    hypothesis, total_array_size is the sum of `arrBytes (number of elements)` over the live arrays and
    total_mapping_nodes the sum of the node counts of the live mappings (`ws` sums the contribution `wc` of every cell:
    0 for deallocated cells and for other kinds). -/
theorem sizes_exact (ops : List Op) (s : St) (h : run St.init ops = .ok s) :
    s.stats.arrayBytes = ws wBytes s.heap ∧ s.stats.mapNodes = ws wNodes s.heap :=
  ⟨run_w wBytes ops St.init s h (WOK_init wBytes rfl (by intro n; simp [wBytes])),
   run_w wNodes ops St.init s h (WOK_init wNodes rfl (by intro n; simp [wNodes]))⟩

/-- what a cell contributes: a live array its accounted bytes, a live mapping its nodes -/
theorem wc_meaning (c : Cell) :
    wc wBytes c = (if c.live = true ∧ c.kind = .arr then arrBytes c.items.length else 0) ∧
    wc wNodes c = (if c.live = true ∧ c.kind = .map then ((c.items.length / 2 : Nat) : Int) else 0) := by
  unfold wc wBytes wNodes
  by_cases hl : c.live = true <;> by_cases ha : c.kind = .arr <;> by_cases hm : c.kind = .map <;> simp [hl, ha, hm]

example : ∃ s, run St.init [.newarr 0 3, .newmap 1, .mset 1 0 0, .mset 1 1 0, .newarr 2 1, .free 2] = .ok s ∧
    s.stats.arrayBytes = arrBytes 3 ∧ s.stats.mapNodes = 2 ∧ ws wNodes s.heap = 2 := by
  refine ⟨_, rfl, ?_, ?_, ?_⟩ <;> decide

theorem lc_zero_of_all (k0 : Kind) (h : List Cell) (hall : ∀ cell ∈ h, cell.live = true → cell.kind ≠ k0) : lc k0 h = 0 := by
  unfold lc
  rw [List.countP_eq_zero]
  intro cell hm
  by_cases hl : cell.live = true
  · have := hall cell hm hl
    simp [hl, this]
  · simp [hl]

/-- **balanced_history_returns_to_baseline.**  If at the end of a history (holders always fitting the counters)
    nothing refers to any value any more — every holder was released — then every array, mapping, class, buffer,
    function pointer, object, call record and sentence has been deallocated (only strings that became immortal by
    saturation may remain) and num_arrays, num_mappings and tot_alloc_object are back at their initial values.
    Values that hold each other do NOT satisfy the premise (`H > 0` for ever): see `Witness.cycle_leaks`. -/
theorem balanced_history_returns_to_baseline (ops : List Op) (s : St) (h : run St.init ops = .ok s)
    (fit : FitsRun St.init ops) (released : ∀ c, c ≠ cFProg → c ≠ cFBase → H s c = 0) :
    (∀ (c : Nat) (cell : Cell), c ≠ cFProg → c ≠ cFBase → s.heap[c]? = some cell → cell.live = true →
        cell.kind.isStr = true ∧ cell.ref = 0) ∧
    s.stats.numArrays = 0 ∧ s.stats.numMappings = 0 ∧ s.stats.objects = 0 := by
  have inv := run_ok ops St.init s h Inv_init fit
  have dead : ∀ (c : Nat) (cell : Cell), c ≠ cFProg → c ≠ cFBase → s.heap[c]? = some cell → cell.live = true →
      cell.kind.isStr = true ∧ cell.ref = 0 := by
    intro c cell n1 n2 hc hl
    have i := inv c
    unfold CellOK at i
    rw [metaOf_some s c cell hc, hl, released c n1 n2] at i
    simp only [RefOK] at i
    by_cases hk : cell.kind.isStr = true
    · rw [if_pos hk] at i
      refine ⟨hk, ?_⟩
      rcases i with i | i
      · exact i
      · omega
    · rw [if_neg hk] at i
      have := i.2 two_pow_W_pos
      omega
  -- the two func_ref cells (the only cells with a permanent holder) are programs for ever: cells keep their kind
  have kprog : ∀ c, (c = cFProg ∨ c = cFBase) → ∀ cell, s.heap[c]? = some cell → cell.kind = .prog := by
    intro c hcc cell hc
    have hK := run_K ops St.init s h
    rcases hcc with e | e <;> subst e
    · rcases hK cFProg _ (by rfl : St.init.heap[cFProg]? = some _) with ⟨cell', h1, h2⟩
      rw [hc] at h1; cases h1; exact h2
    · rcases hK cFBase _ (by rfl : St.init.heap[cFBase]? = some _) with ⟨cell', h1, h2⟩
      rw [hc] at h1; cases h1; exact h2
  have nolive : ∀ k0, k0.isStr = false → k0 ≠ .prog → lc k0 s.heap = 0 := by
    intro k0 hk0 hnp
    apply lc_zero_of_all
    intro cell hm hl e
    rcases List.getElem?_of_mem hm with ⟨c, hc⟩
    by_cases hcc : c = cFProg ∨ c = cFBase
    · have := kprog c hcc cell hc
      rw [e] at this
      exact hnp this
    · have := (dead c cell (fun x => hcc (Or.inl x)) (fun x => hcc (Or.inr x)) hc hl).1
      rw [e, hk0] at this
      cases this
  rcases counters_exact ops s h with ⟨a, b, c⟩
  refine ⟨dead, ?_, ?_, ?_⟩
  · rw [a, nolive .arr rfl (by decide)]; rfl
  · rw [b, nolive .map rfl (by decide)]; rfl
  · rw [c, nolive .obj rfl (by decide)]; rfl

/-- **unreferenced_is_deallocated** (per value): after any history in which the holders always fit, a value other than
    a string that nothing refers to any more has been deallocated — whatever else is still alive.  (Strings: only a
    saturated, immortal one can survive without holders, `string_cells_never_freed_while_held`.) -/
theorem unreferenced_is_deallocated (ops : List Op) (s : St) (h : run St.init ops = .ok s) (fit : FitsRun St.init ops)
    (c : Nat) (cell : Cell) (hc : s.heap[c]? = some cell) (hk : cell.kind.isStr = false) (h0 : H s c = 0) :
    cell.live = false := by
  have i := run_ok ops St.init s h Inv_init fit c
  unfold CellOK at i
  rw [metaOf_some s c cell hc, h0] at i
  cases hl : cell.live with
  | false => rfl
  | true =>
    rw [hl] at i
    simp only [RefOK, hk] at i
    simp only [Bool.false_eq_true, if_false] at i
    have := i.2 two_pow_W_pos
    omega

/-! ### the per-value clauses of the specification oracle hold on the model's own states

Clause-level part of the top statement `judge (model trace) = []`: the oracle compares every printed counter with
`holders` (its own count over roots, values in transit and the items of existing containers).  On every state the model
reaches these comparisons succeed: `DeadEmpty` (run_DE) gives `holders = H`, the counting invariant does the rest.
What is still missing for the full statement is the simulation between the oracle's graph machine (`gstep` + `collect`)
and the counting machine (`mstep`), i.e. that both are in the same state after every operation. -/

/-- clause `ref-mismatch`: the counter the model prints for a live non-string value is the number of holders the
    oracle counts (holders fitting the counter) -/
theorem oracle_ref_clause (ops : List Op) (s : St) (h : run St.init ops = .ok s) (fit : FitsRun St.init ops)
    (c : Nat) (cell : Cell) (hc : s.heap[c]? = some cell) (hl : cell.live = true) (hk : cell.kind.isStr = false)
    (hlt : H s c < 2 ^ W) : cell.ref = holders s c := by
  rw [holders_eq_H s (run_DE ops St.init s h DE_init) c]
  exact ((ref_eq_holders ops s h fit c cell hc hl hk).2 hlt).1

/-- clause `freed-while-held`: a value the model prints as freed (`x`) has no holder in the oracle's count -/
theorem oracle_freed_clause (ops : List Op) (s : St) (h : run St.init ops = .ok s) (fit : FitsRun St.init ops)
    (c : Nat) (cell : Cell) (hc : s.heap[c]? = some cell) (hl : cell.live = false) : holders s c = 0 := by
  rw [holders_eq_H s (run_DE ops St.init s h DE_init) c]
  exact no_free_while_held ops s h fit c cell hc hl

/-- clause `leak cell=`: a non-string value without holders in the oracle's count is printed as freed -/
theorem oracle_leak_clause (ops : List Op) (s : St) (h : run St.init ops = .ok s) (fit : FitsRun St.init ops)
    (c : Nat) (cell : Cell) (hc : s.heap[c]? = some cell) (hk : cell.kind.isStr = false) (h0 : holders s c = 0) :
    cell.live = false := by
  rw [holders_eq_H s (run_DE ops St.init s h DE_init) c] at h0
  exact unreferenced_is_deallocated ops s h fit c cell hc hk h0

/-- the three clauses for strings, without any hypothesis on the number of holders: freed ⇒ no holder; live ⇒ the
    printed counter is 0 (immortal: exempt in the oracle) or the oracle's number of holders -/
theorem oracle_string_clauses (ops : List Op) (s : St) (h : run St.init ops = .ok s)
    (c : Nat) (cell : Cell) (hc : s.heap[c]? = some cell) (hk : cell.kind.isStr = true) :
    (cell.live = false → holders s c = 0) ∧ (cell.live = true → cell.ref = 0 ∨ cell.ref = holders s c) := by
  rw [holders_eq_H s (run_DE ops St.init s h DE_init) c]
  have := string_cells_never_freed_while_held ops s h c cell hc hk
  exact ⟨this.1, fun hl => (this.2 hl).elim Or.inl (fun x => Or.inr x.1)⟩


/-- **oracle_accepts_model_state** (clause-level top theorem for the per-value part of the oracle).  The oracle's
    declarative step `collect1` — "every existing value nobody refers to disappears; every counter is the number of
    holders" — changes NOTHING on a state the model reaches (holders fitting the counters, no string saturated to the
    immortal counter 0): after every history the counting machine is already in the state the declarative definition of
    exact reference counting demands, and the iteration `collect` stops at once. -/
theorem oracle_accepts_model_state (ops : List Op) (s : St) (h : run St.init ops = .ok s) (fit : FitsRun St.init ops)
    (small : ∀ c, H s c < 2 ^ W)
    (nosat : ∀ (c : Nat) (cell : Cell), s.heap[c]? = some cell → cell.live = true → cell.kind.isStr = true → cell.ref ≠ 0) :
    collect1 s = (s, false) ∧ ∀ n, collect (n + 1) s = s := by
  have de := run_DE ops St.init s h DE_init
  have c1 : collect1 s = (s, false) := by
    apply collect1_fix s de
    · intro c cell hc hl
      rw [holders_eq_H s de c]
      cases hk : cell.kind.isStr with
      | false =>
        have := (ref_eq_holders ops s h fit c cell hc hl hk).2 (small c)
        exact ⟨this.1, this.2⟩
      | true =>
        rcases (string_cells_never_freed_while_held ops s h c cell hc hk).2 hl with h0 | ⟨h1, h2, _⟩
        · exact absurd h0 (nosat c cell hc hl hk)
        · exact ⟨h1, h2⟩
    · intro c cell hc hl
      exact oracle_freed_clause ops s h fit c cell hc hl
  refine ⟨c1, fun n => ?_⟩
  simp only [collect, c1]
  rfl

/-- non-vacuity: a model state with shared values, a pending call_out and a destructed object is a fixpoint of the oracle -/
example : ∃ s, run St.init [.newarr 0 2, .assign 1 0, .newmap 2, .mset 2 0 0, .newobj 0, .call 0 0 1 0 2, .dest 0, .free 1] = .ok s ∧
    (collect1 s).2 = false ∧ (collect1 s).1.heap.map (·.ref) = s.heap.map (·.ref) ∧ (∀ c, c < s.heap.length → H s c < 2 ^ W) := by
  refine ⟨_, rfl, ?_, ?_, ?_⟩ <;> decide


/-- non-vacuity: the oracle's count on a model state with shared values -/
example : ∃ s, run St.init [.newarr 0 2, .assign 1 0, .newmap 2, .mset 2 0 0, .free 1] = .ok s ∧ holders s c0 = 3 ∧ H s c0 = 3 := by
  refine ⟨_, rfl, ?_, ?_⟩ <;> decide

/-- non-vacuity: a history that shares one array between a variable, a container, a mapping, an object variable,
    a function pointer, a pending call_out and a sentence, and then releases everything -/
def balancedExample : List Op :=
  [.newarr 0 2, .newmap 1, .newobj 0, .mset 1 0 0, .setvar 0 1 0, .newfun 2 0 0, .call 0 0 1 0 1, .sent 0 0 0 1,
   .free 0, .free 1, .free 2, .sweep, .dest 0, .cleanup, .drop 0, .unload 0, .unload 1]

example : ∃ s, run St.init balancedExample = .ok s ∧ (∀ c, c < s.heap.length → c ≠ cFProg → c ≠ cFBase → H s c = 0) ∧
    s.stats.numArrays = 0 ∧ s.stats.objects = 0 := by
  refine ⟨_, rfl, ?_, ?_, ?_⟩ <;> decide

/-! ### one sweep of call_out() runs every pending call exactly once -/

theorem insCall_perm (x : Nat × Nat) (l : List (Nat × Nat)) : (insCall x l).Perm (x :: l) := by
  induction l with
  | nil => exact List.Perm.refl _
  | cons y ys ih =>
    unfold insCall
    split
    · exact List.Perm.refl _
    · exact ((List.Perm.cons y ih).trans (List.Perm.swap x y ys))

theorem foldl_insCall_perm (l acc : List (Nat × Nat)) :
    (l.foldl (fun acc x => insCall x acc) acc).Perm (l ++ acc) := by
  induction l generalizing acc with
  | nil => exact List.Perm.refl _
  | cons x xs ih =>
    simp only [List.foldl_cons]
    refine (ih (insCall x acc)).trans ?_
    refine (List.Perm.append_left xs (insCall_perm x acc)).trans ?_
    simp only [List.cons_append]
    exact List.perm_middle

/-- the pending calls: slots whose root holds a call record, with the record's cell index -/
def pendingCalls (s : St) : List (Nat × Nat) :=
  (List.range nCalls).filterMap (fun k => match s.roots[rCall k]? with
    | some (.ptr c) => some (c, k)
    | _ => none)

/-- **sweep_runs_every_pending_call_once.**  One sweep of call_out() (model: `sweepOrder`) visits exactly the slots that
    hold a pending call, each once: no call is lost and none is run twice, whatever the order. -/
theorem sweep_runs_every_pending_call_once (s : St) :
    (sweepOrder s).Perm ((pendingCalls s).map (·.2)) ∧ (sweepOrder s).Nodup := by
  have hp : (sweepOrder s).Perm ((pendingCalls s).map (·.2)) := by
    unfold sweepOrder pendingCalls
    have := foldl_insCall_perm ((List.range nCalls).filterMap (fun k => match s.roots[rCall k]? with
      | some (.ptr c) => some (c, k)
      | _ => none)) []
    simp only [List.append_nil] at this
    exact this.map _
  refine ⟨hp, ?_⟩
  rw [hp.nodup_iff]
  unfold pendingCalls
  have hsub : ((List.range nCalls).filterMap (fun k => match s.roots[rCall k]? with
      | some (.ptr c) => some (c, k)
      | _ => none)).map (·.2) = (List.range nCalls).filter (fun k => match s.roots[rCall k]? with
      | some (.ptr _) => true
      | _ => false) := by
    induction (List.range nCalls) with
    | nil => rfl
    | cons k ks ih =>
      cases hr : s.roots[rCall k]? with
      | none => simp [hr, ih]
      | some v =>
        cases v with
        | num n => simp [hr, ih]
        | ptr c => simp [hr, ih]
  rw [hsub]
  exact List.Nodup.sublist List.filter_sublist List.nodup_range


end NV.C06
