/-
C06 — strings need no side condition: cells never change their kind, and a cell that is a string (or not yet
allocated) satisfies `FitsC` in every state, so its invariant is preserved by every history.
-/
import NV.C06.Invariant
namespace NV.C06

/-- cells stay where they are and keep their kind -/
def KExt (h h' : List Cell) : Prop :=
  ∀ (c : Nat) (cell : Cell), h[c]? = some cell → ∃ cell' : Cell, h'[c]? = some cell' ∧ cell'.kind = cell.kind

theorem KExt_refl (h : List Cell) : KExt h h := fun _ cell hc => ⟨cell, hc, rfl⟩

theorem KExt_trans {a b c : List Cell} (h1 : KExt a b) (h2 : KExt b c) : KExt a c := by
  intro i cell hi
  rcases h1 i cell hi with ⟨x, hx, kx⟩
  rcases h2 i x hx with ⟨y, hy, ky⟩
  exact ⟨y, hy, by rw [ky, kx]⟩

theorem KExt_set (h : List Cell) (d : Nat) (cell x : Cell) (hd : h[d]? = some cell) (hk : x.kind = cell.kind) :
    KExt h (h.set d x) := by
  intro c y hy
  by_cases e : d = c
  · subst e
    rw [hd] at hy; cases hy
    exact ⟨x, by simp [lt_of_getElem? _ _ _ hd], hk⟩
  · exact ⟨y, by simp [e, hy], rfl⟩

theorem KExt_append (h : List Cell) (x : Cell) : KExt h (h ++ [x]) := by
  intro c y hy
  exact ⟨y, by rw [List.getElem?_append_left (lt_of_getElem? _ _ _ hy)]; exact hy, rfl⟩

theorem writeLoc_K (s s' : St) (l : Loc) (v : Val) (h : writeLoc s l v = .ok s') : KExt s.heap s'.heap := by
  cases l with
  | root i =>
    simp only [writeLoc] at h
    split at h
    · cases h; exact KExt_refl _
    · cases h
  | item d j =>
    simp only [writeLoc] at h
    split at h
    · cases h
    · rename_i cell hd
      split at h
      · cases h
      · split at h
        · cases h; exact KExt_set s.heap d cell _ hd rfl
        · cases h

theorem incVal_K (s s' : St) (v : Val) (n : Nat) (h : incVal s v n = .ok s') : KExt s.heap s'.heap := by
  cases v with
  | num x => have := incVal_num s s' x n h; subst this; exact KExt_refl _
  | ptr d =>
    rcases incVal_ptr s s' d n h with ⟨cell, hd, _, rfl⟩
    exact KExt_set s.heap d cell _ hd rfl

theorem rel1_K (s s' : St) (h : rel1 s = .ok s') : KExt s.heap s'.heap := by
  unfold rel1 at h
  split at h
  · cases h
  · simp only [pure, Except.pure] at h; cases h; exact KExt_refl _
  · split at h
    · cases h
    · rename_i cell hd
      split at h
      · cases h
      · simp only at h
        split at h
        · simp only [pure, Except.pure] at h; cases h
          exact KExt_set s.heap _ cell _ hd rfl
        · split at h
          · cases h
          · split at h
            · cases h
            · simp only [pure, Except.pure] at h; cases h
              exact KExt_set s.heap _ cell _ hd rfl

theorem relLoop_K : ∀ (f depth : Nat) (s s' : St), relLoop f depth s = .ok s' → KExt s.heap s'.heap := by
  intro f
  induction f with
  | zero => intro depth s s' h; simp [relLoop] at h
  | succ f ih =>
    intro depth s s' h
    simp only [relLoop] at h
    split at h
    · simp only [pure, Except.pure] at h; cases h; exact KExt_refl _
    · simp only [bind, Except.bind] at h
      split at h
      · cases h
      · rename_i s1 h1
        exact KExt_trans (rel1_K s s1 h1) (ih depth s1 s' h)

theorem mstep_K (s s' : St) (i : Mi) (h : mstep s i = .ok s') : KExt s.heap s'.heap := by
  cases i with
  | take l =>
    simp only [mstep, bind, Except.bind] at h
    split at h
    · cases h
    · split at h
      · cases h
      · rename_i s1 hw
        cases h
        exact writeLoc_K s s1 l _ hw
  | put l =>
    simp only [mstep] at h
    split at h
    · cases h
    · simp only [bind, Except.bind] at h
      split at h
      · cases h
      · split at h
        · cases h
        · simp only [pure, Except.pure] at h
          split at h
          · cases h
          · rename_i s1 hw
            cases h
            exact writeLoc_K s s1 l _ hw
  | dup l =>
    simp only [mstep, bind, Except.bind] at h
    split at h
    · cases h
    · split at h
      · cases h
      · rename_i s1 hi
        cases h
        exact incVal_K s s1 _ 1 hi
  | free =>
    simp only [mstep] at h
    split at h
    · cases h
    · exact relLoop_K _ _ s s' h
  | alloc k n vis text tag =>
    simp only [mstep, pure, Except.pure] at h
    cases h
    exact KExt_append _ _
  | fillFrom d l =>
    simp only [mstep, bind, Except.bind] at h
    split at h
    · cases h
    · split at h
      · cases h
      · rename_i cell hd
        split at h
        · cases h
        · split at h
          · cases h
          · exact KExt_trans (KExt_set s.heap d cell { cell with items := List.replicate cell.items.length _ } hd rfl) (incVal_K _ s' _ _ h)
  | grow d =>
    simp only [mstep] at h
    split at h
    · cases h
    · rename_i cell hd
      split at h
      · cases h
      · simp only [pure, Except.pure] at h
        cases h
        exact KExt_set s.heap d cell _ hd rfl
  | shrink d j =>
    simp only [mstep] at h
    split at h
    · cases h
    · rename_i cell hd
      split at h
      · cases h
      · split at h
        · simp only [pure, Except.pure] at h
          cases h
          exact KExt_set s.heap d cell _ hd rfl
        · cases h
  | pushRoot => simp only [mstep, pure, Except.pure] at h; cases h; exact KExt_refl _
  | popRoot =>
    simp only [mstep] at h
    split at h
    · simp only [pure, Except.pure] at h; cases h; exact KExt_refl _
    · cases h
  | mark d =>
    simp only [mstep] at h
    split at h
    · cases h
    · rename_i cell hd
      split at h
      · cases h
      · simp only [pure, Except.pure] at h
        cases h
        exact KExt_set s.heap d cell _ hd rfl
  | unlist d => simp only [mstep, pure, Except.pure] at h; cases h; exact KExt_refl _
  | share w =>
    simp only [mstep] at h
    split at h
    · simp only [bind, Except.bind] at h
      split at h
      · cases h
      · rename_i s1 hi
        simp only [pure, Except.pure] at h
        cases h
        exact incVal_K s s1 _ 1 hi
    · simp only [pure, Except.pure] at h
      cases h
      exact KExt_append _ _
  | allocd δ => simp only [mstep, pure, Except.pure] at h; cases h; exact KExt_refl _
  | distinct δ => simp only [mstep, pure, Except.pure] at h; cases h; exact KExt_refl _
  | swap =>
    simp only [mstep] at h
    split at h
    · simp only [pure, Except.pure] at h; cases h; exact KExt_refl _
    · cases h
  | inplace d =>
    simp only [mstep] at h
    split at h
    · cases h
    · split at h
      · cases h
      · simp only [pure, Except.pure] at h; cases h; exact KExt_refl _
  | settext d w =>
    simp only [mstep] at h
    split at h
    · cases h
    · rename_i cell hd
      split at h
      · cases h
      · simp only [pure, Except.pure] at h
        cases h
        exact KExt_set s.heap d cell _ hd rfl

theorem runMi_K : ∀ (prog : List Mi) (s s' : St), runMi s prog = .ok s' → KExt s.heap s'.heap := by
  intro prog
  induction prog with
  | nil => intro s s' h; simp only [runMi, pure, Except.pure] at h; cases h; exact KExt_refl _
  | cons i is ih =>
    intro s s' h
    simp only [runMi, bind, Except.bind] at h
    split at h
    · cases h
    · rename_i s1 h1
      exact KExt_trans (mstep_K s s1 i h1) (ih s1 s' h)

/-- the string version of `mstep_ok`: no side condition, provided the cell is a string (or not allocated) afterwards -/
theorem mstep_str_ok (s s' : St) (i : Mi) (c : Nat) (h : mstep s i = .ok s') (ok : CellOK s c)
    (hs : ∀ cell', s'.heap[c]? = some cell' → cell'.kind.isStr = true) : CellOK s' c := by
  apply mstep_ok s s' i c h ok
  cases hc : s.heap[c]? with
  | none =>
    right
    unfold CellOK metaOf at ok
    rw [hc] at ok
    simp only [Option.map] at ok
    rw [ok]; exact Nat.succ_pos _
  | some cell =>
    left
    rcases mstep_K s s' i h c cell hc with ⟨cell', hc', hk⟩
    exact ⟨cell, hc, by rw [← hk]; exact hs cell' hc'⟩

theorem runMi_str_ok : ∀ (prog : List Mi) (s s' : St) (c : Nat), runMi s prog = .ok s' → CellOK s c →
    (∀ cell', s'.heap[c]? = some cell' → cell'.kind.isStr = true) → CellOK s' c := by
  intro prog
  induction prog with
  | nil => intro s s' c h ok _; simp only [runMi, pure, Except.pure] at h; cases h; exact ok
  | cons i is ih =>
    intro s s' c h ok hs
    simp only [runMi, bind, Except.bind] at h
    split at h
    · cases h
    · rename_i s1 h1
      have hs1 : ∀ cell1, s1.heap[c]? = some cell1 → cell1.kind.isStr = true := by
        intro cell1 hc1
        rcases runMi_K is s1 s' h c cell1 hc1 with ⟨cell', hc', hk⟩
        rw [← hk]; exact hs cell' hc'
      exact ih s1 s' c h (mstep_str_ok s s1 i c h1 ok hs1) hs

theorem sweepFrom_K : ∀ (ks : List Nat) (s s' : St), sweepFrom s ks = .ok s' → KExt s.heap s'.heap := by
  intro ks
  induction ks with
  | nil => intro s s' h; simp only [sweepFrom, pure, Except.pure] at h; cases h; exact KExt_refl _
  | cons k ks ih =>
    intro s s' h
    simp only [sweepFrom, bind, Except.bind] at h
    split at h
    · cases h
    · rename_i s1 h1
      exact KExt_trans (runMi_K _ s s1 h1) (ih s1 s' h)

theorem sweepFrom_str_ok : ∀ (ks : List Nat) (s s' : St) (c : Nat), sweepFrom s ks = .ok s' → CellOK s c →
    (∀ cell', s'.heap[c]? = some cell' → cell'.kind.isStr = true) → CellOK s' c := by
  intro ks
  induction ks with
  | nil => intro s s' c h ok _; simp only [sweepFrom, pure, Except.pure] at h; cases h; exact ok
  | cons k ks ih =>
    intro s s' c h ok hs
    simp only [sweepFrom, bind, Except.bind] at h
    split at h
    · cases h
    · rename_i s1 h1
      have hs1 : ∀ cell1, s1.heap[c]? = some cell1 → cell1.kind.isStr = true := by
        intro cell1 hc1
        rcases sweepFrom_K ks s1 s' h c cell1 hc1 with ⟨cell', hc', hk⟩
        rw [← hk]; exact hs cell' hc'
      exact ih s1 s' c h (runMi_str_ok _ s s1 c h1 ok hs1) hs

theorem step_K_str (s s' : St) (op : Op) (c : Nat) (h : step s op = .ok s') :
    KExt s.heap s'.heap ∧ (CellOK s c → (∀ cell', s'.heap[c]? = some cell' → cell'.kind.isStr = true) → CellOK s' c) := by
  have gen : ∀ (r : Option (List Mi)), compile s op = r →
      (match r with
        | none => Res.skip
        | some prog => match runMi s prog with
          | .ok s' => Res.ok s'
          | .error e => Res.fail e) = Res.ok s' →
      KExt s.heap s'.heap ∧ (CellOK s c → (∀ cell', s'.heap[c]? = some cell' → cell'.kind.isStr = true) → CellOK s' c) := by
    intro r _ hres
    cases r with
    | none => cases hres
    | some prog =>
      simp only at hres
      split at hres
      · rename_i s2 h2
        cases hres
        exact ⟨runMi_K prog s _ h2, fun ok hs => runMi_str_ok prog s _ c h2 ok hs⟩
      · cases hres
  cases op <;> first
    | exact gen _ rfl h
    | (simp only [step] at h
       first
         | (cases h; exact ⟨KExt_refl _, fun ok _ => ok⟩)
         | (split at h
            · rename_i s2 h2; cases h
              exact ⟨sweepFrom_K _ s _ h2, fun ok hs => sweepFrom_str_ok _ s _ c h2 ok hs⟩
            · cases h))

theorem run_K : ∀ (ops : List Op) (s s' : St), run s ops = .ok s' → KExt s.heap s'.heap := by
  intro ops
  induction ops with
  | nil => intro s s' h; simp only [run, pure, Except.pure] at h; cases h; exact KExt_refl _
  | cons op ops ih =>
    intro s s' h
    simp only [run] at h
    split at h
    · rename_i s1 h1
      exact KExt_trans (step_K_str s s1 op 0 h1).1 (ih s1 s' h)
    · exact ih s s' h
    · cases h

/-- the invariant of a cell that ends up a string needs no side condition -/
theorem run_str_ok : ∀ (ops : List Op) (s s' : St) (c : Nat), run s ops = .ok s' → CellOK s c →
    (∀ cell', s'.heap[c]? = some cell' → cell'.kind.isStr = true) → CellOK s' c := by
  intro ops
  induction ops with
  | nil => intro s s' c h ok _; simp only [run, pure, Except.pure] at h; cases h; exact ok
  | cons op ops ih =>
    intro s s' c h ok hs
    simp only [run] at h
    split at h
    · rename_i s1 h1
      have hs1 : ∀ cell1, s1.heap[c]? = some cell1 → cell1.kind.isStr = true := by
        intro cell1 hc1
        rcases run_K ops s1 s' h c cell1 hc1 with ⟨cell', hc', hk⟩
        rw [← hk]; exact hs cell' hc'
      exact ih s1 s' c h ((step_K_str s s1 op c h1).2 ok hs1) hs
    · exact ih s s' c h ok hs
    · cases h

end NV.C06
