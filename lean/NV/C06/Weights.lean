/-
C06 — the size statistics of the driver are exact: total_array_size is the sum of the accounted bytes of the live
arrays, total_mapping_nodes the number of nodes of the live mappings, after every history (no hypothesis).

A `Weight` is a statistics counter `π` together with the amount `wf kind n` a live cell of that kind with n items
contributes; the counter moves by exactly that amount where a cell is allocated (onAlloc) or deallocated (onFree) and,
for mapping nodes, where a node is added (find_for_insert) or removed (mapping_delete).
-/
import NV.C06.Counters
namespace NV.C06

structure Weight where
  π : Stats → Int
  wf : Kind → Nat → Int
  alloc : ∀ st k n, π (Stats.onAlloc st k n) = π st + wf k n
  free : ∀ st k n, π (Stats.onFree st k n) = π st - wf k n
  allocd : ∀ (st : Stats) x, π { st with allocdStrings := x } = π st
  distinct : ∀ (st : Stats) x, π { st with distinctStrings := x } = π st
  nodeUp : ∀ (st : Stats) n, π { st with mapNodes := st.mapNodes + 1 } = π st + (wf .map (n + 2) - wf .map n)
  nodeDown : ∀ (st : Stats) n, 2 ≤ n → π { st with mapNodes := st.mapNodes - 1 } = π st - (wf .map n - wf .map (n - 2))

/-- contribution of one cell -/
def wc (W : Weight) (c : Cell) : Int := if c.live = true then W.wf c.kind c.items.length else 0

/-- sum over the heap -/
def ws (W : Weight) (h : List Cell) : Int := (h.map (wc W)).sum

def WOK (W : Weight) (s : St) : Prop := W.π s.stats = ws W s.heap

theorem ws_cons (W : Weight) (a : Cell) (t : List Cell) : ws W (a :: t) = wc W a + ws W t := by
  unfold ws; simp

theorem ws_append (W : Weight) (h : List Cell) (x : Cell) : ws W (h ++ [x]) = ws W h + wc W x := by
  unfold ws; simp

theorem ws_set (W : Weight) (h : List Cell) (d : Nat) (x : Cell) (hd : d < h.length) :
    ws W (h.set d x) = ws W h - wc W h[d] + wc W x := by
  induction h generalizing d with
  | nil => simp at hd
  | cons a t ih =>
    cases d with
    | zero => simp only [List.set, ws_cons, List.getElem_cons_zero]; omega
    | succ j =>
      simp only [List.set, ws_cons, List.getElem_cons_succ]
      have := ih j (by simpa using hd)
      omega

theorem ws_set_same (W : Weight) (h : List Cell) (d : Nat) (cell x : Cell) (hd : h[d]? = some cell)
    (h1 : x.live = cell.live) (h2 : x.kind = cell.kind) (h3 : x.items.length = cell.items.length) :
    ws W (h.set d x) = ws W h := by
  rcases List.getElem?_eq_some_iff.mp hd with ⟨hlt, heq⟩
  have := ws_set W h d x hlt
  rw [heq] at this
  have e : wc W x = wc W cell := by unfold wc; rw [h1, h2, h3]
  omega

theorem writeLoc_ws (W : Weight) (s s' : St) (l : Loc) (v : Val) (h : writeLoc s l v = .ok s') :
    ws W s'.heap = ws W s.heap ∧ s'.stats = s.stats := by
  cases l with
  | root i =>
    simp only [writeLoc] at h
    split at h
    · cases h; exact ⟨rfl, rfl⟩
    · cases h
  | item d j =>
    simp only [writeLoc] at h
    split at h
    · cases h
    · rename_i cell hd
      split at h
      · cases h
      · split at h
        · cases h
          exact ⟨ws_set_same W s.heap d cell _ hd rfl rfl (by simp), rfl⟩
        · cases h

theorem incVal_ws (W : Weight) (s s' : St) (v : Val) (n : Nat) (h : incVal s v n = .ok s') :
    ws W s'.heap = ws W s.heap ∧ s'.stats = s.stats := by
  cases v with
  | num x => have := incVal_num s s' x n h; subst this; exact ⟨rfl, rfl⟩
  | ptr d =>
    rcases incVal_ptr s s' d n h with ⟨cell, hd, hl, rfl⟩
    exact ⟨ws_set_same W s.heap d cell _ hd rfl rfl rfl, rfl⟩

theorem WOK_of_eq (W : Weight) (s s' : St) (h1 : ws W s'.heap = ws W s.heap) (h2 : W.π s'.stats = W.π s.stats)
    (ok : WOK W s) : WOK W s' := by
  unfold WOK at *; rw [h1, h2]; exact ok

theorem rel1_w (W : Weight) (s s' : St) (h : rel1 s = .ok s') (ok : WOK W s) : WOK W s' := by
  unfold rel1 at h
  split at h
  · cases h
  · simp only [pure, Except.pure] at h; cases h; exact WOK_of_eq W s _ rfl rfl ok
  · rename_i d rest ht
    split at h
    · cases h
    · rename_i cell hd
      split at h
      · cases h
      · rename_i hlive
        have hl : cell.live = true := by simpa using hlive
        rcases List.getElem?_eq_some_iff.mp hd with ⟨hlt, heq⟩
        simp only at h
        have hst : W.π (if cell.kind.isStr = true then
            { s.stats with allocdStrings := s.stats.allocdStrings - 1 } else s.stats) = W.π s.stats := by
          split
          · exact W.allocd _ _
          · rfl
        generalize (if cell.kind.isStr = true then
            { s.stats with allocdStrings := s.stats.allocdStrings - 1 } else s.stats) = st at h hst
        split at h
        · simp only [pure, Except.pure] at h
          cases h
          unfold WOK St.upd at *
          simp only
          rw [ws_set_same W s.heap d cell { cell with ref := (decRef cell.kind cell.ref).1 } hd rfl rfl rfl, hst]
          exact ok
        · split at h
          · cases h
          · split at h
            · cases h
            · simp only [pure, Except.pure] at h
              cases h
              unfold WOK St.upd at *
              simp only
              have a := ws_set W s.heap d
                { cell with ref := (decRef cell.kind cell.ref).1, live := false, items := [] } hlt
              rw [heq] at a
              have e1 : wc W { cell with ref := (decRef cell.kind cell.ref).1, live := false, items := [] } = 0 := by
                simp [wc]
              have e2 : wc W cell = W.wf cell.kind cell.items.length := by
                unfold wc; rw [if_pos hl]
              rw [W.free, hst, ok]
              omega

theorem relLoop_w (W : Weight) : ∀ (f depth : Nat) (s s' : St), relLoop f depth s = .ok s' → WOK W s → WOK W s' := by
  intro f
  induction f with
  | zero => intro depth s s' h; simp [relLoop] at h
  | succ f ih =>
    intro depth s s' h ok
    simp only [relLoop] at h
    split at h
    · simp only [pure, Except.pure] at h; cases h; exact ok
    · simp only [bind, Except.bind] at h
      split at h
      · cases h
      · rename_i s1 h1
        exact ih depth s1 s' h (rel1_w W s s1 h1 ok)

theorem mstep_w (W : Weight) (s s' : St) (i : Mi) (h : mstep s i = .ok s') (ok : WOK W s) : WOK W s' := by
  cases i with
  | take l =>
    simp only [mstep, bind, Except.bind] at h
    split at h
    · cases h
    · split at h
      · cases h
      · rename_i s1 hw
        cases h
        rcases writeLoc_ws W s s1 l _ hw with ⟨a, b⟩
        exact WOK_of_eq W s _ a (by rw [show ({ s1 with temps := _ } : St).stats = s1.stats from rfl, b]) ok
  | put l =>
    simp only [mstep] at h
    split at h
    · cases h
    · simp only [bind, Except.bind] at h
      split at h
      · cases h
      · split at h
        · cases h
        · simp only [pure, Except.pure] at h
          split at h
          · cases h
          · rename_i s1 hw
            cases h
            rcases writeLoc_ws W s s1 l _ hw with ⟨a, b⟩
            exact WOK_of_eq W s _ a (by rw [show ({ s1 with temps := _ } : St).stats = s1.stats from rfl, b]) ok
  | dup l =>
    simp only [mstep, bind, Except.bind] at h
    split at h
    · cases h
    · split at h
      · cases h
      · rename_i s1 hi
        cases h
        rcases incVal_ws W s s1 _ 1 hi with ⟨a, b⟩
        exact WOK_of_eq W s _ a (by rw [show ({ s1 with temps := _ } : St).stats = s1.stats from rfl, b]) ok
  | free =>
    simp only [mstep] at h
    split at h
    · cases h
    · exact relLoop_w W _ _ s s' h ok
  | alloc k n vis text tag =>
    simp only [mstep, pure, Except.pure] at h
    cases h
    unfold WOK at *
    simp only
    rw [ws_append, W.alloc, ok]
    simp [wc]
  | fillFrom d l =>
    simp only [mstep, bind, Except.bind] at h
    split at h
    · cases h
    · split at h
      · cases h
      · rename_i cell hd
        split at h
        · cases h
        · split at h
          · cases h
          · rcases incVal_ws W _ s' _ _ h with ⟨a, b⟩
            unfold WOK at *
            rw [a, b]
            unfold St.setCell
            simp only
            rw [ws_set_same W s.heap d cell _ hd ?_ ?_ ?_]
            · exact ok
            · rfl
            · rfl
            · simp
  | grow d =>
    simp only [mstep] at h
    split at h
    · cases h
    · rename_i cell hd
      split at h
      · cases h
      · rename_i hlive
        simp only [pure, Except.pure] at h
        cases h
        have hlk : cell.live = true ∧ cell.kind = .map := by simpa using hlive
        rcases List.getElem?_eq_some_iff.mp hd with ⟨hlt, heq⟩
        unfold WOK St.setCell at *
        simp only
        have a := ws_set W s.heap d { cell with items := cell.items ++ [.num 0, .num 0] } hlt
        rw [heq] at a
        have e1 : wc W { cell with items := cell.items ++ [.num 0, .num 0] } = W.wf .map (cell.items.length + 2) := by
          simp [wc, hlk.1, hlk.2]
        have e2 : wc W cell = W.wf .map cell.items.length := by
          simp [wc, hlk.1, hlk.2]
        rw [W.nodeUp _ cell.items.length, ok]
        omega
  | shrink d j =>
    simp only [mstep] at h
    split at h
    · cases h
    · rename_i cell hd
      split at h
      · cases h
      · rename_i hlive
        split at h
        · rename_i h0 h1
          simp only [pure, Except.pure] at h
          cases h
          have hlk : cell.live = true ∧ cell.kind = .map := by simpa using hlive
          rcases List.getElem?_eq_some_iff.mp hd with ⟨hlt, heq⟩
          rcases List.getElem?_eq_some_iff.mp h1 with ⟨hl1, _⟩
          have hlen : ((cell.items.eraseIdx (2 * j + 1)).eraseIdx (2 * j)).length = cell.items.length - 2 := by
            rw [List.length_eraseIdx, List.length_eraseIdx]
            simp [hl1]
            have : 2 * j < cell.items.length - 1 := by omega
            simp [this]
            omega
          unfold WOK St.setCell at *
          simp only
          have a := ws_set W s.heap d { cell with items := (cell.items.eraseIdx (2 * j + 1)).eraseIdx (2 * j) } hlt
          rw [heq] at a
          have e1 : wc W { cell with items := (cell.items.eraseIdx (2 * j + 1)).eraseIdx (2 * j) } = W.wf .map (cell.items.length - 2) := by
            simp [wc, hlk.1, hlk.2, hlen]
          have e2 : wc W cell = W.wf .map cell.items.length := by
            simp [wc, hlk.1, hlk.2]
          rw [W.nodeDown _ cell.items.length (by omega), ok]
          omega
        · cases h
  | pushRoot => simp only [mstep, pure, Except.pure] at h; cases h; exact ok
  | popRoot =>
    simp only [mstep] at h
    split at h
    · simp only [pure, Except.pure] at h; cases h; exact ok
    · cases h
  | mark d =>
    simp only [mstep] at h
    split at h
    · cases h
    · rename_i cell hd
      split at h
      · cases h
      · simp only [pure, Except.pure] at h
        cases h
        unfold WOK St.setCell at *
        simp only
        rw [ws_set_same W s.heap d cell _ hd ?_ ?_ ?_]
        · exact ok
        · rfl
        · rfl
        · rfl
  | unlist d => simp only [mstep, pure, Except.pure] at h; cases h; exact ok
  | share w =>
    simp only [mstep] at h
    split at h
    · simp only [bind, Except.bind] at h
      split at h
      · cases h
      · rename_i s1 hi
        simp only [pure, Except.pure] at h
        cases h
        rcases incVal_ws W s s1 _ 1 hi with ⟨a, b⟩
        unfold WOK at *
        simp only
        rw [a, W.allocd, b]
        exact ok
    · simp only [pure, Except.pure] at h
      cases h
      unfold WOK at *
      simp only
      rw [ws_append, W.alloc, ok]
      simp [wc]
  | allocd δ =>
    simp only [mstep, pure, Except.pure] at h; cases h
    unfold WOK at *; simp only; rw [W.allocd]; exact ok
  | distinct δ =>
    simp only [mstep, pure, Except.pure] at h; cases h
    unfold WOK at *; simp only; rw [W.distinct]; exact ok
  | swap =>
    simp only [mstep] at h
    split at h
    · simp only [pure, Except.pure] at h; cases h; exact ok
    · cases h
  | inplace d =>
    simp only [mstep] at h
    split at h
    · cases h
    · split at h
      · cases h
      · simp only [pure, Except.pure] at h; cases h; exact ok
  | settext d w =>
    simp only [mstep] at h
    split at h
    · cases h
    · rename_i cell hd
      split at h
      · cases h
      · simp only [pure, Except.pure] at h
        cases h
        unfold WOK St.setCell at *
        simp only
        rw [ws_set_same W s.heap d cell _ hd ?_ ?_ ?_]
        · exact ok
        · rfl
        · rfl
        · rfl

theorem runMi_w (W : Weight) : ∀ (prog : List Mi) (s s' : St), runMi s prog = .ok s' → WOK W s → WOK W s' := by
  intro prog
  induction prog with
  | nil => intro s s' h ok; simp only [runMi, pure, Except.pure] at h; cases h; exact ok
  | cons i is ih =>
    intro s s' h ok
    simp only [runMi, bind, Except.bind] at h
    split at h
    · cases h
    · rename_i s1 h1
      exact ih s1 s' h (mstep_w W s s1 i h1 ok)

theorem sweepFrom_w (W : Weight) : ∀ (ks : List Nat) (s s' : St), sweepFrom s ks = .ok s' → WOK W s → WOK W s' := by
  intro ks
  induction ks with
  | nil => intro s s' h ok; simp only [sweepFrom, pure, Except.pure] at h; cases h; exact ok
  | cons k ks ih =>
    intro s s' h ok
    simp only [sweepFrom, bind, Except.bind] at h
    split at h
    · cases h
    · rename_i s1 h1
      exact ih s1 s' h (runMi_w W _ s s1 h1 ok)

theorem step_w (W : Weight) (s s' : St) (op : Op) (h : step s op = .ok s') (ok : WOK W s) : WOK W s' := by
  have gen : ∀ (r : Option (List Mi)), compile s op = r →
      (match r with
        | none => Res.skip
        | some prog => match runMi s prog with
          | .ok s' => Res.ok s'
          | .error e => Res.fail e) = Res.ok s' → WOK W s' := by
    intro r _ hres
    cases r with
    | none => cases hres
    | some prog =>
      simp only at hres
      split at hres
      · rename_i s2 h2
        cases hres
        exact runMi_w W prog s _ h2 ok
      · cases hres
  cases op <;> first
    | exact gen _ rfl h
    | (simp only [step] at h
       first
         | (cases h; exact ok)
         | (split at h
            · rename_i s2 h2; cases h; exact sweepFrom_w W _ s _ h2 ok
            · cases h))

theorem run_w (W : Weight) : ∀ (ops : List Op) (s s' : St), run s ops = .ok s' → WOK W s → WOK W s' := by
  intro ops
  induction ops with
  | nil => intro s s' h ok; simp only [run, pure, Except.pure] at h; cases h; exact ok
  | cons op ops ih =>
    intro s s' h ok
    simp only [run] at h
    split at h
    · rename_i s1 h1
      exact ih s1 s' h (step_w W s s1 op h1 ok)
    · exact ih s s' h ok
    · cases h

/-- total_array_size: every live array contributes `arrBytes (number of elements)` -/
def wBytes : Weight where
  π := Stats.arrayBytes
  wf := fun k n => if k = .arr then arrBytes n else 0
  alloc := by intro st k n; cases k <;> simp [Stats.onAlloc]
  free := by intro st k n; cases k <;> simp [Stats.onFree]
  allocd := by intros; rfl
  distinct := by intros; rfl
  nodeUp := by intros; simp
  nodeDown := by intros; simp

/-- total_mapping_nodes: every live mapping contributes its number of nodes (two items per node) -/
def wNodes : Weight where
  π := Stats.mapNodes
  wf := fun k n => if k = .map then ((n / 2 : Nat) : Int) else 0
  alloc := by intro st k n; cases k <;> simp [Stats.onAlloc]
  free := by intro st k n; cases k <;> simp [Stats.onFree]
  allocd := by intros; rfl
  distinct := by intros; rfl
  nodeUp := by intro st n; simp; omega
  nodeDown := by intro st n hn; simp; omega

theorem WOK_init (W : Weight) (h0 : W.π {} = 0) (hp : ∀ n, W.wf .prog n = 0) : WOK W St.init := by
  unfold WOK St.init ws wc
  simp [h0, hp]

end NV.C06
