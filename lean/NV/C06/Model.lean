/-
C06 — executable model `Refcount` of the reference-counting primitives of the driver.

A heap of cells, each with a counter `ref` of the REAL width (`NV.Gen.C06.refBits`, regenerated from
`sizeof(((refed_t*)0)->ref)` on every run; wrap-around arithmetic) or, for strings, the saturating counter of
src/stralloc.h (`INC_COUNTED_REF` / `DEC_COUNTED_REF`: 0 = immortal).  Everything that can hold a value
(harness variables, the value stack, object handles, the object list, pending call_outs, sentences) is a *root*
slot; containers hold values in `items`.

The C primitives are short programs of micro-instructions (`Mi`), the real units of ownership transfer:

  C                                                   micro program
  --------------------------------------------------  -------------------------------------------------
  free_svalue(loc)                                    take loc; free
  assign_svalue_no_free(tmp, loc)   (copy + ref++)    dup loc
  assign_svalue(dst, src)   (free dst, copy, ref++)   take dst; free; dup src; put dst
  push_svalue/push_array/...(loc)                     pushRoot; dup loc; put top
  push_refed_*(v) / transfer (no ref++)               pushRoot; take loc; put top
  pop_stack()                                         take top; free; popRoot
  allocate_array/allocate_mapping/allocate_class/...  alloc kind n        (ref = 1, owned by the temp)
  make_shared_string(w)                               share w             (found: saturating ref++, else new block)
  find_for_insert (new node) / mapping_delete         grow m / take..free..shrink m j
  free_call / free_sentence / dealloc_funp            free of the record: its captured values are its items
  destruct_object                                     mark c  (+ stack slots holding the object zeroed, its sentences freed)
  destruct2                                           take (item c i); free  for every variable; take exist; free

`free` is free_svalue: decrement; when the counter reaches 0 the cell is deallocated and every value it holds is
released in turn (dealloc_array / dealloc_mapping / dealloc_class / dealloc_funp / free_call / free_sentence),
depth first, last item first, exactly like the recursion of the C code (a work stack instead of the C stack).

Explicit outcomes instead of undefined behaviour: `uaf` (a freed cell is touched: use-after-free / double free),
`fatal` (dealloc_object of an object that is not destructed: the driver calls fatal()), `objvars`
(dealloc_object while variables still hold values: C would silently leak them), `misuse` (a primitive is applied
outside its contract, e.g. a raw store over a counted value), `stuck` (fuel exhausted; never happens).
-/
import NV.Gen.C06

namespace NV.C06

/-- width in bits of `refed_t.ref` (arrays, mappings, classes, buffers, function pointers, objects) -/
abbrev W : Nat := NV.Gen.C06.refBits
/-- width in bits of the string counter (`malloc_block_t.ref` / `block_t.refs`) -/
abbrev SW : Nat := NV.Gen.C06.strRefBits

inductive Kind where
  | arr | map | cls | buf | fn | str | mstr | obj | call | sent
  | prog    -- program_t: counter `ref` (reference_prog / free_prog); items = the programs it inherits
  | pack    -- bookkeeping of the harness: n anonymous clones (each item = the program reference of one object
            -- structure), or a link of the chain of such packs
  deriving DecidableEq, Repr

def Kind.isStr : Kind → Bool
  | .str => true
  | .mstr => true
  | _ => false

inductive Val where
  | num (n : Int)
  | ptr (c : Nat)
  deriving DecidableEq, Repr

def Val.isNum : Val → Bool
  | .num _ => true
  | .ptr _ => false

inductive Loc where
  | root (i : Nat)
  | item (c j : Nat)
  deriving DecidableEq, Repr

structure Cell where
  kind : Kind
  ref : Nat
  live : Bool
  items : List Val
  vis : Bool := true          -- printed in traces (the harness knows its address)
  text : String := ""         -- strings: contents
  destructed : Bool := false  -- objects: O_DESTRUCTED
  tag : Nat := 0              -- objects: harness id; call records: store flag; sentences: owner cell
  deriving Repr

/-- the driver's statistics counters (deltas against the start of the case) -/
structure Stats where
  numArrays : Int := 0
  arrayBytes : Int := 0
  numMappings : Int := 0
  mapNodes : Int := 0
  distinctStrings : Int := 0
  allocdStrings : Int := 0
  objects : Int := 0
  deriving Repr, DecidableEq

structure St where
  heap : List Cell := []
  roots : List Val := []
  temps : List Val := []      -- values in transit (C locals / the work stack of a running free_svalue)
  stats : Stats := {}
  dlist : List Nat := []      -- obj_list_destruct (newest first)
  deriving Repr

inductive Out where
  | uaf | misuse | stuck | fatal | objvars
  deriving DecidableEq, Repr

def Out.name : Out → String
  | .uaf => "uaf"
  | .misuse => "misuse"
  | .stuck => "stuck"
  | .fatal => "fatal"
  | .objvars => "objvars"

abbrev M := Except Out

/-! ### counters -/

/-- `n` increments.  refed: `ref++` on an unsigned field of W bits.  strings: `INC_COUNTED_REF`
    (`if (ref) ref++`, so reaching 2^SW wraps to 0 = immortal and stays there). -/
def incRef (k : Kind) (r n : Nat) : Nat :=
  if k.isStr then (if r = 0 then 0 else if r + n < 2 ^ SW then r + n else 0)
  else (r + n) % 2 ^ W

/-- one decrement; the flag says "deallocate".  refed: `!(--ref)`.  strings: `DEC_COUNTED_REF`. -/
def decRef (k : Kind) (r : Nat) : Nat × Bool :=
  if k.isStr then (if r = 0 then (0, false) else (r - 1, r - 1 == 0))
  else ((r + 2 ^ W - 1) % 2 ^ W, (r + 2 ^ W - 1) % 2 ^ W == 0)

/-! ### statistics -/

def arrBytes (n : Nat) : Int :=
  (NV.Gen.C06.sizeofArrayT : Int) + (NV.Gen.C06.sizeofSvalue : Int) * ((n : Int) - 1)

def Stats.onAlloc (st : Stats) (k : Kind) (n : Nat) : Stats :=
  match k with
  | .arr => { st with numArrays := st.numArrays + 1, arrayBytes := st.arrayBytes + arrBytes n }
  | .map => { st with numMappings := st.numMappings + 1, mapNodes := st.mapNodes + (n / 2 : Nat) }
  | .str => { st with distinctStrings := st.distinctStrings + 1, allocdStrings := st.allocdStrings + 1 }
  | .mstr => { st with distinctStrings := st.distinctStrings + 1, allocdStrings := st.allocdStrings + 1 }
  | .obj => { st with objects := st.objects + 1 }
  | _ => st

def Stats.onFree (st : Stats) (k : Kind) (n : Nat) : Stats :=
  match k with
  | .arr => { st with numArrays := st.numArrays - 1, arrayBytes := st.arrayBytes - arrBytes n }
  | .map => { st with numMappings := st.numMappings - 1, mapNodes := st.mapNodes - (n / 2 : Nat) }
  | .str => { st with distinctStrings := st.distinctStrings - 1 }
  | .mstr => { st with distinctStrings := st.distinctStrings - 1 }
  | .obj => { st with objects := st.objects - 1 }
  | _ => st

/-! ### locations -/

def St.setCell (s : St) (c : Nat) (cell : Cell) : St := { s with heap := s.heap.set c cell }

/-- replace cell c, the temps and the statistics -/
def St.upd (s : St) (c : Nat) (cell : Cell) (t : List Val) (st : Stats) : St :=
  { s with heap := s.heap.set c cell, temps := t, stats := st }

/-- read a location; touching a freed container is a use-after-free -/
def readLoc (s : St) : Loc → M Val
  | .root i =>
    match s.roots[i]? with
    | some v => pure v
    | none => throw .misuse
  | .item c j =>
    match s.heap[c]? with
    | none => throw .uaf
    | some cell =>
      if !cell.live then throw .uaf
      else match cell.items[j]? with
        | some v => pure v
        | none => throw .misuse

/-- raw store (no counting); the location must exist -/
def writeLoc (s : St) (l : Loc) (v : Val) : M St :=
  match l with
  | .root i => if i < s.roots.length then pure { s with roots := s.roots.set i v } else throw .misuse
  | .item c j =>
    match s.heap[c]? with
    | none => throw .uaf
    | some cell =>
      if !cell.live then throw .uaf
      else if j < cell.items.length then pure (s.setCell c { cell with items := cell.items.set j v })
      else throw .misuse

/-- `ref += n` on the cell a value points to (nothing for numbers); a freed cell is a use-after-free -/
def incVal (s : St) (v : Val) (n : Nat) : M St :=
  match v with
  | .num _ => pure s
  | .ptr c =>
    match s.heap[c]? with
    | none => throw .uaf
    | some cell =>
      if !cell.live then throw .uaf
      else pure (s.setCell c { cell with ref := incRef cell.kind cell.ref n })

/-- variables of a harness object; an object cell has nVars + 1 items: the variables and its program (`ob->prog`) -/
def nVars : Nat := 4

/-! ### micro-instructions -/

inductive Mi where
  | take (l : Loc)        -- move the value out of a location (the location becomes 0) onto the temps
  | put (l : Loc)         -- move the top temp into a location that holds a number (raw store)
  | dup (l : Loc)         -- assign_svalue_no_free(temp, loc): copy and count
  | free                  -- free_svalue(top temp)
  | alloc (k : Kind) (n : Nat) (vis : Bool) (text : String) (tag : Nat)
  | fillFrom (d : Nat) (l : Loc)   -- every item of the fresh cell d := value at l, counted once per item
  | grow (d : Nat)        -- new mapping node: two zero items appended
  | shrink (d j : Nat)    -- remove node j (both items already taken)
  | pushRoot              -- the stack grows by one slot
  | popRoot               -- the (emptied) top slot goes away
  | mark (d : Nat)        -- O_DESTRUCTED, object goes onto obj_list_destruct
  | unlist (d : Nat)      -- object leaves obj_list_destruct
  | share (w : String)    -- make_shared_string
  | allocd (δ : Int)      -- ADD_STRING / SUB_STRING of strings that are not cells (function names, verbs)
  | distinct (δ : Int)
  | swap                  -- exchange the two top temps
  | inplace (c : Nat)     -- marker: the primitive has decided "single owner" and modifies block c in place
  | settext (c : Nat) (w : String)   -- bytes of string block c overwritten
  deriving Repr

/-- one step of a running free_svalue: pop a value; decrement; on zero deallocate and schedule the contents -/
def rel1 (s : St) : M St :=
  match s.temps with
  | [] => throw .misuse
  | .num _ :: rest => pure { s with temps := rest }
  | .ptr c :: rest =>
    match s.heap[c]? with
    | none => throw .uaf
    | some cell =>
      if !cell.live then throw .uaf
      else
        let st := if cell.kind.isStr then { s.stats with allocdStrings := s.stats.allocdStrings - 1 } else s.stats
        let dr := decRef cell.kind cell.ref
        if !dr.2 then pure (s.upd c { cell with ref := dr.1 } rest st)
        else if cell.kind == .obj && !cell.destructed then throw .fatal
        else if cell.kind == .obj && !((cell.items.take nVars).all Val.isNum) then throw .objvars
        else
          pure (s.upd c { cell with ref := dr.1, live := false, items := [] } (cell.items.reverse ++ rest)
                  (st.onFree cell.kind cell.items.length))

/-- run `rel1` until the temps are back at `depth` entries -/
def relLoop : Nat → Nat → St → M St
  | 0, _, _ => throw .stuck
  | f + 1, depth, s => if s.temps.length ≤ depth then pure s else do relLoop f depth (← rel1 s)

/-- number of values stored anywhere: an upper bound for the steps of one free_svalue -/
def St.size (s : St) : Nat := (s.heap.map (fun c => c.items.length)).sum + s.temps.length

def findShared (h : List Cell) (w : String) : Option Nat :=
  h.findIdx? (fun c => c.live && c.kind == .str && c.text == w)

def mstep (s : St) : Mi → M St
  | .take l => do
    let v ← readLoc s l
    let s ← writeLoc s l (.num 0)
    pure { s with temps := v :: s.temps }
  | .put l =>
    match s.temps with
    | [] => throw .misuse
    | v :: rest => do
      let old ← readLoc s l
      if !old.isNum then throw .misuse
      let s ← writeLoc s l v
      pure { s with temps := rest }
  | .dup l => do
    let v ← readLoc s l
    let s ← incVal s v 1
    pure { s with temps := v :: s.temps }
  | .free =>
    match s.temps with
    | [] => throw .misuse
    | _ :: rest => relLoop (s.size + 2) rest.length s
  | .alloc k n vis text tag =>
    pure { s with heap := s.heap ++ [{ kind := k, ref := 1, live := true, items := List.replicate n (.num 0),
                                       vis := vis, text := text, tag := tag }],
                  temps := .ptr s.heap.length :: s.temps,
                  stats := s.stats.onAlloc k n }
  | .fillFrom d l => do
    let v ← readLoc s l
    match s.heap[d]? with
    | none => throw .uaf
    | some cell =>
      if !cell.live then throw .uaf
      else if !(cell.items.all Val.isNum) then throw .misuse
      else
        let s := s.setCell d { cell with items := List.replicate cell.items.length v }
        incVal s v cell.items.length
  | .grow d =>
    match s.heap[d]? with
    | none => throw .uaf
    | some cell =>
      -- nodes exist in mappings only (find_for_insert); anything else is outside the primitive's contract
      if !cell.live || cell.kind != .map then throw (if !cell.live then .uaf else .misuse)
      else pure { (s.setCell d { cell with items := cell.items ++ [.num 0, .num 0] }) with
                  stats := { s.stats with mapNodes := s.stats.mapNodes + 1 } }
  | .shrink d j =>
    match s.heap[d]? with
    | none => throw .uaf
    | some cell =>
      if !cell.live || cell.kind != .map then throw (if !cell.live then .uaf else .misuse)
      else match cell.items[2 * j]?, cell.items[2 * j + 1]? with
        | some (.num _), some (.num _) =>
          pure { (s.setCell d { cell with items := (cell.items.eraseIdx (2 * j + 1)).eraseIdx (2 * j) }) with
                 stats := { s.stats with mapNodes := s.stats.mapNodes - 1 } }
        | _, _ => throw .misuse
  | .pushRoot => pure { s with roots := s.roots ++ [.num 0] }
  | .popRoot =>
    match s.roots.getLast? with
    | some (.num _) => pure { s with roots := s.roots.dropLast }
    | _ => throw .misuse
  | .mark d =>
    match s.heap[d]? with
    | none => throw .uaf
    | some cell =>
      if !cell.live then throw .uaf
      else pure { (s.setCell d { cell with destructed := true }) with dlist := d :: s.dlist }
  | .unlist d => pure { s with dlist := s.dlist.filter (· != d) }
  | .share w =>
    match findShared s.heap w with
    | some c => do
      let s ← incVal s (.ptr c) 1
      pure { s with temps := .ptr c :: s.temps,
                    stats := { s.stats with allocdStrings := s.stats.allocdStrings + 1 } }
    | none =>
      pure { s with heap := s.heap ++ [{ kind := .str, ref := 1, live := true, items := [], text := w }],
                    temps := .ptr s.heap.length :: s.temps,
                    stats := s.stats.onAlloc .str 0 }
  | .allocd δ => pure { s with stats := { s.stats with allocdStrings := s.stats.allocdStrings + δ } }
  | .distinct δ => pure { s with stats := { s.stats with distinctStrings := s.stats.distinctStrings + δ } }
  | .swap =>
    match s.temps with
    | a :: b :: rest => pure { s with temps := b :: a :: rest }
    | _ => throw .misuse
  | .inplace c =>
    match s.heap[c]? with
    | none => throw .uaf
    | some cell => if !cell.live then throw .uaf else pure s
  | .settext c w =>
    match s.heap[c]? with
    | none => throw .uaf
    | some cell => if !cell.live then throw .uaf else pure (s.setCell c { cell with text := w })

def runMi (s : St) : List Mi → M St
  | [] => pure s
  | i :: is => do runMi (← mstep s i) is

/-! ### the operation language shared by the C harness, the LPC harness and this model -/

def nSlots : Nat := 10
def nObjs : Nat := 4
def nCalls : Nat := 4
def nSents : Nat := 4
def rHandle (o : Nat) : Nat := nSlots + o
def rExist (o : Nat) : Nat := nSlots + nObjs + o
def rCall (k : Nat) : Nat := nSlots + 2 * nObjs + k
def rSent (k : Nat) : Nat := nSlots + 2 * nObjs + nCalls + k
/-- the pending input_to of the (single) interactive user -/
def rInput : Nat := nSlots + 2 * nObjs + nCalls + nSents
/-- the blueprint object of /c06/uobj (holds one reference on the program) -/
def rProg : Nat := nSlots + 2 * nObjs + nCalls + nSents + 1
/-- the blueprint object of /c06/base, the program /c06/uobj inherits -/
def rBase : Nat := nSlots + 2 * nObjs + nCalls + nSents + 2
/-- chain of the packs of anonymous clones (`clones n`) -/
def rAnon : Nat := nSlots + 2 * nObjs + nCalls + nSents + 3
/-- replace_program() family: layout L (0..3) has three programs, /c06/ra<L> (j = 0), /c06/rb<L> (j = 1) and
    /c06/rc<L> (j = 2), which inherits the other two; `rLay L j` is the blueprint object of program j -/
def nLayouts : Nat := 4
def rLay (L j : Nat) : Nat := nSlots + 2 * nObjs + nCalls + nSents + 4 + 3 * L + j
/-- `func_ref` of the program of /c06/base (w = 1) and of /c06/uobj (w = 0) is a cell of its own (`cFBase`, `cFProg`):
    its holders are the function pointers compiled into that program ((: ... :), function (...) { ... }) that are
    alive.  The cell has one permanent holder, the root `rFunc w`, so that it exists while func_ref = 0: the counter of
    the cell is func_ref + 1. -/
def rFunc (w : Nat) : Nat := nSlots + 2 * nObjs + nCalls + nSents + 4 + 3 * nLayouts + w
def nFixed : Nat := nSlots + 2 * nObjs + nCalls + nSents + 4 + 3 * nLayouts + 2

/-- variables of the first / second inherited program of layout L (4 variables altogether, the rest are rc's own) -/
def layNa : Nat → Nat
  | 2 => 2
  | 3 => 3
  | _ => 1
def layNb : Nat → Nat
  | 1 => 2
  | _ => 1

/-- heap index of the program of /c06/base and of /c06/uobj -/
def cBase : Nat := 0
def cProg : Nat := 1
def cFProg : Nat := 2
def cFBase : Nat := 3

/-- the state after the harness has loaded /c06/uobj: the program of /c06/base is held by its blueprint object and
    by the inherit table of the program of /c06/uobj, which is held by its own blueprint object -/
def St.init : St :=
  { heap := [{ kind := .prog, ref := 2, live := true, items := [], vis := false, tag := 0 },
             { kind := .prog, ref := 1, live := true, items := [.ptr cBase], vis := false, tag := nVars },
             { kind := .prog, ref := 1, live := true, items := [], vis := false, tag := 0 },
             { kind := .prog, ref := 1, live := true, items := [], vis := false, tag := 0 }],
    roots := (List.replicate (nFixed - 5 - 3 * nLayouts) (.num 0)) ++ [.ptr cProg, .ptr cBase, .num 0]
               ++ List.replicate (3 * nLayouts) (.num 0) ++ [.ptr cFProg, .ptr cFBase] }

/-- index of the first cell a case allocates (the cells of `St.init` come before it) -/
def c0 : Nat := St.init.heap.length

inductive Op where
  | newarr (s n : Nat) | newmap (s : Nat) | newcls (s : Nat) | newbuf (s n : Nat)
  | newstr (s : Nat) (w : String) | newmstr (s : Nat) (w : String)
  | newfun (s o t : Nat)
  | newffun (s o w : Nat)    -- object o makes a function pointer compiled into a program: w = 0 / 2 (: ... :) / function () {} in its
                             -- own program, w = 1 / 3 the same inside a function it inherits from /c06/base (func_ref of THAT program),
                             -- w = 4 / 5 in its own program and using a global variable (flag FP_NOT_BINDABLE in hdr.type)
  | fill (d n t : Nat)
  | assign (d s : Nat) | free (s : Nat)
  | aset (s i t : Nat) | aget (d s i : Nat)
  | mset (s k t : Nat) | mdel (s k : Nat)
  | push (s : Nat) | pushr (s : Nat) | pop | popto (d : Nat)
  | newobj (o : Nat) | setvar (o i s : Nat) | getvar (d o i : Nat) | oref (d o : Nat)
  | dest (o : Nat) | cleanup | drop (o : Nat)
  | call (k o st s t : Nat) | rmcall (k : Nat) | sweep
  | rmcalln (k : Nat)      -- remove_call_out("cbs<k>") by the owner: remove_call_out(ob, fun)
  | rmall (o : Nat)        -- remove_call_out() by object o: remove_all_call_out(ob)
  | sent (k o s t : Nat) | rmsent (k : Nat)
  | err (s t : Nat) | efun (f s t : Nat)
  | rest (w : String) | resto (w : String)    -- restore_variable / restore_object of a (damaged) save text, result dropped
  | fefun (f s t k : Nat)                     -- `efun f s t` with an error injected at the k-th instruction (k = 0: at every k in turn)
  | frest (w : String) (k : Nat)              -- `rest w` with an error injected at the k-th instruction
  | inp (o s t : Nat) | input
  | inpr (o s t : Nat)                        -- input_to("icb2", ..): the callback installs a new input_to (re-entrancy)
  | sappend (d : Nat) (w : String)            -- v[d] += "w"             (EXTEND_SVALUE_STRING)
  | sjoin (d t : Nat)                         -- v[d] += v[t]            (SVALUE_STRING_JOIN)
  | sadd (d s : Nat) (w : String)             -- v[d] = v[s] + "w"       (EXTEND_SVALUE_STRING on the pushed copy)
  | saddl (d s : Nat) (w : String)            -- v[d] = <number w> + v[s]   (SVALUE_STRING_ADD_LEFT: always a new block)
  | sadd2 (d s t : Nat)                       -- v[d] = v[s] + v[t]         (SVALUE_STRING_JOIN on two pushed copies)
  | schar (d i : Nat) (w : String)            -- v[d][i] = 'w'           (unlink_string_svalue + byte store)
  | srange (d i j : Nat) (w : String)         -- v[d][i..j] = "w"        (unlink_string_svalue + copy_lvalue_range)
  | clones (n : Nat) | unclone (n : Nat)   -- n further clones of /c06/uobj (only their program reference is modelled)
  | unload (w : Nat)                        -- destruct + clean up the blueprint object of /c06/uobj (0) or /c06/base (1)
  | arange (d i len n t f : Nat)            -- v[d][i .. i+len-1] = <temporary array of n copies of v[t]>; f = 1: value form x = (...)
  | arangev (d i len t f : Nat)             -- v[d][i .. i+len-1] = v[t] (an array that other holders share)
  | brange (d i len n : Nat)                -- the same on a buffer with a temporary buffer of n bytes
  | reclaimu                                -- reclaim_objects() in unit mode: the variables of every object are walked (check_svalue)
  | reclaim                                 -- reclaim_objects(): references to destructed objects found in object variables are released
  | newobjr (o L : Nat)                     -- clone of /c06/rc<L>: inherits ra<L> (layNa L variables) and rb<L> (layNb L variables)
  | replace (o w : Nat)                     -- replace_program() by the first (w = 0) / second (w = 1) inherited program + replace_programs()
  deriving Repr

/-- number of members of the harness class -/
def clsSize : Nat := 3

def slotCell (s : St) (i : Nat) : Option (Nat × Cell) :=
  match s.roots[i]? with
  | some (.ptr c) =>
    match s.heap[c]? with
    | some cell => some (c, cell)
    | none => none
  | _ => none

/-- usable object behind handle o: live, not destructed -/
def objCell (s : St) (o : Nat) : Option (Nat × Cell) :=
  if o < nObjs then
    match slotCell s (rHandle o) with
    | some (c, cell) => if cell.live && cell.kind == .obj && !cell.destructed then some (c, cell) else none
    | none => none
  else none

/-- number of variables of an object = `num_variables_total` of its program (tag of the program cell) -/
def objVars (s : St) (cell : Cell) : Nat :=
  match cell.items[nVars]? with
  | some (.ptr p) =>
    match s.heap[p]? with
    | some pc => pc.tag
    | none => 0
  | _ => 0

/-- the object runs the program of /c06/uobj (callbacks, add_action, input_to, function pointers) -/
def isUobj (cell : Cell) : Bool := cell.items[nVars]? == some (.ptr cProg)

/-- usable /c06/uobj object behind handle o -/
def uobjCell (s : St) (o : Nat) : Option (Nat × Cell) :=
  match objCell s o with
  | some (c, cell) => if isUobj cell then some (c, cell) else none
  | none => none

/-- the layout whose program rc<L> the object still runs (replace_program() not yet done) -/
def layoutOf (s : St) (cell : Cell) : Option Nat :=
  match cell.items[nVars]? with
  | some (.ptr p) => (List.range nLayouts).find? (fun L => s.roots[rLay L 2]? == some (.ptr p))
  | _ => none

/-- live string behind a root -/
def strSlot (s : St) (i : Nat) : Option (Nat × Cell) :=
  match slotCell s i with
  | some (c, cell) => if cell.live && cell.kind.isStr then some (c, cell) else none
  | none => none

/-- a new malloc string with the given text replaces the value at root i (new_string, copy, free_string_svalue) -/
def replaceStr (i : Nat) (w : String) : List Mi :=
  [.alloc .mstr 0 true w 0, .take (.root i), .free, .put (.root i)]

/-- EXTEND_SVALUE_STRING / SVALUE_STRING_JOIN on the string at root i whose block currently has counter `r`:
    the regenerated condition decides between extend_string() on the block itself and a new block.  With a single
    owner both have the same effect on counters and values (realloc keeps the header). -/
def extendProg (inPlace : Bool → Nat → Bool) (c : Nat) (cell : Cell) (r : Nat) (i : Nat) (w : String) : List Mi :=
  (if inPlace (cell.kind == .mstr) r then [Mi.inplace c] else []) ++ replaceStr i w

/-- unlink_string_svalue on the string at root d, followed by a store that produces text w (same length: bytes
    overwritten; other length: the - now private - block is replaced) -/
def unlinkStoreProg (c : Nat) (cell : Cell) (d : Nat) (w : String) : List Mi :=
  if cell.kind == .mstr && !(NV.Gen.C06.unlinkCopies cell.ref) then
    (if w.length == cell.text.length then [.inplace c, .settext c w] else .inplace c :: replaceStr d w)
  else replaceStr d w

def setCharAt (t : String) (i : Nat) (w : String) : String :=
  String.mk (t.toList.take i ++ w.toList.take 1 ++ t.toList.drop (i + 1))

def setRange (t : String) (i j : Nat) (w : String) : String :=
  String.mk (t.toList.take i ++ w.toList ++ t.toList.drop (j + 1))

def assignProg (dst src : Loc) : List Mi := [.take dst, .free, .dup src, .put dst]

/-- store the top temp into slot d (the old content is released first) -/
def intoSlot (d : Nat) : List Mi := [.take (.root d), .free, .put (.root d)]

def findKey (items : List Val) (k : Val) : Option Nat :=
  let rec go (l : List Val) (j : Nat) : Option Nat :=
    match l with
    | a :: _ :: rest => if a == k then some j else go rest (j + 1)
    | _ => none
  go items 0

def isNumRoot (s : St) (i : Nat) : Bool :=
  match s.roots[i]? with
  | some (.num _) => true
  | _ => false

/-- programs releasing the destructed-object arguments of a call (call_out() zeroes them before the call) -/
def deadObjArgs (s : St) (vs : Nat) (items : List Val) : List Mi :=
  ((List.range items.length).reverse.filter (fun idx =>
      match (items[idx]? : Option Val) with
      | some (Val.ptr a) =>
        match s.heap[a]? with
        | some ac => ac.kind == .obj && ac.destructed
        | none => false
      | _ => false)).flatMap (fun idx => [Mi.take (.item vs idx), Mi.free])

def sentsOf (s : St) (c : Nat) : List Nat :=
  (List.range nSents).filter (fun k =>
    match slotCell s (rSent k) with
    | some (_, sc) => sc.tag == c
    | none => false)

/-- destruct_object(ob) called from inside a running call_out callback whose two arguments sit in the stack slots
    `top`, `top + 1` (contents `a0`, `a1`): remove_object_from_stack releases and zeroes every stack slot holding the
    object, its sentences are freed, it is marked and queued for destruct2 -/
def destructInCallback (s : St) (ob top : Nat) (a0 a1 : Val) : List Mi :=
  let onStack := (List.range (top - nFixed)).filter (fun i => s.roots[nFixed + i]? == some (.ptr ob))
  onStack.flatMap (fun i => [Mi.take (.root (nFixed + i)), Mi.free])
    ++ (if a0 == .ptr ob then [Mi.take (.root top), Mi.free] else [])
    ++ (if a1 == .ptr ob then [Mi.take (.root (top + 1)), Mi.free] else [])
    ++ (sentsOf s ob).flatMap (fun k => [Mi.take (.root (rSent k)), .free, .allocd (-2), .distinct (-1)])
    ++ [.mark ob]

/-- what call_out() does with the call in root k.  tag of the call record = the callback: 0 `cb` drops its arguments,
    1 `cbs<k>` keeps the first one in variable k of the owner, 2 `cbe` raises an error (the arguments are popped by
    the error recovery), 3 `cbd` destructs its own object -/
def fireProg (s : St) (k : Nat) : List Mi :=
  match slotCell s (rCall k) with
  | none => []
  | some (cc, ccell) =>
    match ccell.items with
    | [.ptr ob, .ptr vs] =>
      match s.heap[ob]?, s.heap[vs]? with
      | some obc, some vsc =>
        if obc.destructed then [.take (.root (rCall k)), .free, .allocd (-1)]
        else
          let top := s.roots.length
          let dead : Val → Bool := fun v => match v with
            | .ptr a => (match s.heap[a]? with
              | some ac => ac.kind == .obj && ac.destructed
              | none => false)
            | .num _ => false
          let arg := fun (i : Nat) => match vsc.items[i]? with
            | some v => if dead v then Val.num 0 else v
            | none => Val.num 0
          deadObjArgs s vs vsc.items ++
          [.pushRoot, .take (.item vs 0), .put (.root top), .pushRoot, .take (.item vs 1), .put (.root (top + 1)),
           .take (.item cc 1), .free] ++
          (if ccell.tag == 1 then [.take (.item ob k), .free, .dup (.root top), .put (.item ob k)] else []) ++
          (if ccell.tag == 3 then destructInCallback s ob top (arg 0) (arg 1) else []) ++
          [.take (.root (top + 1)), .free, .popRoot, .take (.root top), .free, .popRoot,
           .allocd (-1), .take (.root (rCall k)), .free]
      | _, _ => []
    | _ => []

/-- insertion into a list of (call cell, slot) sorted by cell index, newest (highest) first -/
def insCall (x : Nat × Nat) : List (Nat × Nat) → List (Nat × Nat)
  | [] => [x]
  | y :: ys => if y.1 ≤ x.1 then x :: y :: ys else y :: insCall x ys

/-- the order in which one sweep of call_out() runs the pending calls: new_call_out() inserts a call in front of
    the calls that are due at the same time, so the newest call (the highest cell index) runs first -/
def sweepOrder (s : St) : List Nat :=
  (((List.range nCalls).filterMap (fun k => match s.roots[rCall k]? with
    | some (.ptr c) => some (c, k)
    | _ => none)).foldl (fun acc x => insCall x acc) []).map (·.2)

/-- pointer items of a pack, highest index first -/
def packPtrs (p : Nat) (items : List Val) : List (Nat × Nat) :=
  (items.zipIdx.filterMap (fun (v, i) => match v with
    | .ptr _ => some (p, i)
    | .num _ => none)).reverse

/-- the anonymous clones that still exist, newest pack first: (pack cell, item index) of their program reference.
    The chain hangs at root `rAnon`: link cells [pack, next link]. -/
def anonFrom (s : St) : Nat → Val → List (Nat × Nat)
  | 0, _ => []
  | _, .num _ => []
  | f + 1, .ptr l =>
    match s.heap[l]? with
    | some lc =>
      match lc.items with
      | [.ptr p, nxt] =>
        (match s.heap[p]? with
          | some pc => packPtrs p pc.items
          | none => []) ++ anonFrom s f nxt
      | _ => []
    | none => []

def anonSlots (s : St) : List (Nat × Nat) :=
  match s.roots[rAnon]? with
  | some v => anonFrom s (s.heap.length + 1) v
  | none => []

/-- object structures of anonymous clones (they count in tot_alloc_object) -/
def anonCount (s : St) : Nat := (anonSlots s).length

/-- blueprint objects of /c06/uobj and /c06/base that have been unloaded: object structures that existed at the
    baseline and are gone (the blueprints are roots of the model, not object cells) -/
def unloadedCount (s : St) : Nat := (if isNumRoot s rProg then 1 else 0) + (if isNumRoot s rBase then 1 else 0)

/-! ### assignment to an array range lvalue (copy_lvalue_range / assign_lvalue_range of src/interpret.c)

`owner[i .. i+len-1] = rhs` with the right-hand array `fv` (cell fv, n elements) as the top value in transit; c = the
owner's array (size elements), held by slot d.
 * statement form (F_VOID_ASSIGN, copy_lvalue_range):
     n = len, fv->ref == 1 : every replaced element is released, the new one MOVED in (`*dptr++ = *fptr++`), free_empty_array(fv)
     n = len, shared       : assign_svalue element by element (a no-op where an element is assigned to itself: the array
                             assigned to its own whole range), `fv->ref--`
     n ≠ len               : a new array: prefix copied (counted), fv's elements moved (ref == 1) or copied (counted),
                             suffix copied, free_array(old), owner->u.arr = new
 * value form (F_ASSIGN, assign_lvalue_range): always copies (counted); the right-hand side stays on the stack and is
   popped by the caller (model: released at the end). -/
def rangeProg (c size d i len fv n dv : Nat) (moveRhs valueForm : Bool) : List Mi :=
  if n == len then
    (List.range n).flatMap (fun k =>
      if moveRhs && !valueForm then [Mi.take (.item c (i + k)), .free, .take (.item fv k), .put (.item c (i + k))]
      -- assign_svalue (dest, v) with dest == v (the array assigned to its own whole range) is a no-op
      else if c == fv && i == 0 then []
      else [Mi.take (.item c (i + k)), .free, .dup (.item fv k), .put (.item c (i + k))]) ++ [.free]
  else
    -- values in transit: [fv]; the new array dv goes on top of it
    [Mi.alloc .arr (size - len + n) true "" 0] ++
    (List.range i).flatMap (fun k => [Mi.dup (.item c k), .put (.item dv k)]) ++
    (List.range n).flatMap (fun k =>
      if moveRhs && !valueForm then [Mi.take (.item fv k), .put (.item dv (i + k))]
      else [Mi.dup (.item fv k), .put (.item dv (i + k))]) ++
    (if valueForm then [] else [.swap, .free]) ++
    (List.range (size - (i + len))).flatMap (fun k => [Mi.dup (.item c (i + len + k)), .put (.item dv (i + n + k))]) ++
    [.take (.root d), .free, .put (.root d)] ++
    (if valueForm then [.free] else [])

/-! ### reclaim_objects() (lib/efuns/reclaim_object.c)

check_svalue walks the variables of every object of the object list: a destructed object is released and zeroed, arrays
and classes are walked element by element, a function pointer through its bound arguments, a mapping node whose key is
a destructed object is deleted (key and value released, the value is not walked), otherwise key and value are walked.
The recursion counter `nested` is global: `nested++; if (nested > MAX_RECURSION) return;` returns WITHOUT the
decrement (mirrored).  The result is a list of locations to zero and of mapping nodes to delete. -/

def maxRecursion : Nat := 25

structure RAcc where
  nested : Nat := 0
  zeros : List Loc := []
  dels : List (Nat × Nat) := []

def reclaimGo : Nat → St → Loc → RAcc → RAcc
  | 0, _, _, a => a
  | f + 1, s, loc, a =>
    let a := { a with nested := a.nested + 1 }
    if a.nested > maxRecursion then a
    else
      let a' : RAcc := match readLoc s loc with
        | .ok (.ptr c) =>
          match s.heap[c]? with
          | some cell =>
            if !cell.live then a
            else match cell.kind with
              | .obj => if cell.destructed then { a with zeros := loc :: a.zeros } else a
              | .arr => (List.range cell.items.length).foldl (fun a i => reclaimGo f s (.item c i) a) a
              | .cls => (List.range cell.items.length).foldl (fun a i => reclaimGo f s (.item c i) a) a
              | .fn => (match (cell.items[0]? : Option Val) with
                | some (Val.ptr _) => reclaimGo f s (.item c 0) a
                | _ => a)
              | .map => (List.range (cell.items.length / 2)).foldl (fun a j =>
                  let keyObj : Option Bool := match (cell.items[2 * j]? : Option Val) with
                    | some (Val.ptr k) => (match s.heap[k]? with
                      | some kc => if kc.kind == .obj then some kc.destructed else none
                      | none => none)
                    | _ => none
                  match keyObj with
                  | some true => { a with dels := (c, j) :: a.dels }
                  | some false => reclaimGo f s (.item c (2 * j + 1)) a
                  | none => reclaimGo f s (.item c (2 * j + 1)) (reclaimGo f s (.item c (2 * j)) a)) a
              | _ => a
          | none => a
        | _ => a
      { a' with nested := a'.nested - 1 }

def insDel (x : Nat × Nat) : List (Nat × Nat) → List (Nat × Nat)
  | [] => [x]
  | y :: ys =>
    if x == y then y :: ys
    else if y.1 < x.1 || (y.1 == x.1 && y.2 < x.2) then x :: y :: ys else y :: insDel x ys

/-- objects of the object list, newest first, with the number of their variables -/
def listedObjects (s : St) : List (Nat × Nat) :=
  ((List.range s.heap.length).filterMap (fun c => match s.heap[c]? with
    | some cell => if cell.live && cell.kind == .obj && !cell.destructed then some (c, min nVars (objVars s cell)) else none
    | none => none)).reverse

/-- check_svalue on an array variable of the interpreter object whose elements are the given locations -/
def reclaimArr (f : Nat) (s : St) (locs : List Loc) (a : RAcc) : RAcc :=
  let a := { a with nested := a.nested + 1 }
  if a.nested > maxRecursion then a
  else
    let a' := locs.foldl (fun a l => reclaimGo f s l a) a
    { a' with nested := a'.nested - 1 }

/-- `withMain`: lpc mode - the interpreter object /c06/main is the oldest object of the case; its variables `v` (the
    slots) and `obs` (the handles) are walked last -/
def reclaimProg (s : St) (withMain : Bool) : List Mi :=
  let fuel := s.size + s.heap.length + s.roots.length + 2
  let a := (listedObjects s).foldl (fun a (c, n) =>
    (List.range n).foldl (fun a i => reclaimGo fuel s (.item c i) a) a) ({} : RAcc)
  let a := if withMain then
      reclaimArr fuel s ((List.range nObjs).map (fun o => Loc.root (rHandle o)))
        (reclaimArr fuel s ((List.range nSlots).map Loc.root) a)
    else a
  let dels := a.dels.foldl (fun acc x => insDel x acc) []
  a.zeros.reverse.flatMap (fun l => [Mi.take l, Mi.free]) ++
    dels.flatMap (fun (c, j) => [Mi.take (.item c (2 * j)), .free, .take (.item c (2 * j + 1)), .free, .shrink c j])

/-- translate an operation into its micro program in the current state; `none` = not applicable (skip) -/
def compile (s : St) (op : Op) : Option (List Mi) :=
  let top := s.roots.length
  let fresh := s.heap.length
  match op with
  | .newarr d n => if d < nSlots && 0 < n then some (.alloc .arr n true "" 0 :: intoSlot d) else none
  | .newmap d => if d < nSlots then some (.alloc .map 0 true "" 0 :: intoSlot d) else none
  | .newcls d => if d < nSlots then some (.alloc .cls clsSize true "" 0 :: intoSlot d) else none
  | .newbuf d n => if d < nSlots && 0 < n then some (.alloc .buf 0 true "" n :: intoSlot d) else none   -- tag = size in bytes
  | .newstr d w => if d < nSlots then some (.share w :: intoSlot d) else none
  | .newmstr d w => if d < nSlots then some (.alloc .mstr 0 true w 0 :: intoSlot d) else none
  | .newfun d o t =>
    match uobjCell s o with
    | some (_, _) =>
      if d < nSlots && t < nSlots then
        some ([.alloc .arr 1 false "" 0, .dup (.root t), .put (.item fresh 0),
               .alloc .fn 2 true "" 0, .swap, .put (.item (fresh + 1) 0),
               .dup (.root (rHandle o)), .put (.item (fresh + 1) 1)] ++ intoSlot d)
      else none
    | none => none
  | .newffun d o w =>
    match uobjCell s o with
    | some (_, _) =>
      if d < nSlots && w < 6 then
        -- make_functional_funp: owner counted, `current_prog->func_ref++` - the program whose code is running: the
        -- inherited one when the function that contains the literal is inherited; dealloc_funp releases exactly these
        some ([.alloc .fn 3 true "" 0, .dup (.root (rHandle o)), .put (.item fresh 1),
               .dup (.root (rFunc (if w == 1 || w == 3 then 1 else 0))), .put (.item fresh 2)] ++ intoSlot d)
      else none
    | none => none
  | .fill d n t =>
    if d < nSlots && t < nSlots && 0 < n then
      some ([.alloc .arr n true "" 0, .fillFrom fresh (.root t)] ++ intoSlot d)
    else none
  | .assign d t => if d < nSlots && t < nSlots && d != t then some (assignProg (.root d) (.root t)) else none
  | .free d => if d < nSlots then some [.take (.root d), .free] else none
  | .aset a i t =>
    match slotCell s a with
    | some (c, cell) =>
      if a < nSlots && t < nSlots && (cell.kind == .arr || cell.kind == .cls) && (i < cell.items.length || !cell.live)
      then some (assignProg (.item c i) (.root t)) else none
    | none => none
  | .aget d a i =>
    match slotCell s a with
    | some (c, cell) =>
      if a < nSlots && d < nSlots && d != a && (cell.kind == .arr || cell.kind == .cls)
          && (i < cell.items.length || !cell.live)
      then some (assignProg (.root d) (.item c i)) else none
    | none => none
  | .mset m k t =>
    match slotCell s m, s.roots[k]? with
    | some (c, cell), some kv =>
      let keyOk := match kv with
        | .num _ => true
        | .ptr kc => match s.heap[kc]? with
          | some kcell => !kcell.kind.isStr
          | none => false
      if m < nSlots && k < nSlots && t < nSlots && cell.kind == .map && keyOk then
        match findKey cell.items kv with
        | some j => some [.take (.item c (2 * j + 1)), .free, .dup (.root t), .put (.item c (2 * j + 1))]
        | none =>
          let n := cell.items.length
          some [.grow c, .dup (.root k), .put (.item c n), .dup (.root t), .put (.item c (n + 1))]
      else none
    | _, _ => none
  | .mdel m k =>
    match slotCell s m, s.roots[k]? with
    | some (c, cell), some kv =>
      let keyOk := match kv with
        | .num _ => true
        | .ptr kc => match s.heap[kc]? with
          | some kcell => !kcell.kind.isStr
          | none => false
      if m < nSlots && k < nSlots && cell.kind == .map && keyOk then
        if !cell.live then some [.take (.item c 0)] else
        match findKey cell.items kv with
        | some j => some [.take (.item c (2 * j + 1)), .free, .take (.item c (2 * j)), .free, .shrink c j]
        | none => some []
      else none
    | _, _ => none
  | .push d =>
    if d < nSlots then
      let extra := match slotCell s d with
        | some (_, cell) => if cell.kind == .str then [Mi.allocd 1] else []
        | none => []
      some ([.pushRoot, .dup (.root d), .put (.root top)] ++ extra)
    else none
  | .pushr d => if d < nSlots then some [.pushRoot, .take (.root d), .put (.root top)] else none
  | .pop => if nFixed < top then some [.take (.root (top - 1)), .free, .popRoot] else none
  | .popto d =>
    if nFixed < top && d < nSlots then
      some [.take (.root d), .free, .take (.root (top - 1)), .put (.root d), .popRoot]
    else none
  | .newobj o =>
    -- clone_object: get_empty_object, new_ob->prog = ob->prog, reference_prog, obj_list, (harness) add_ref
    if o < nObjs && isNumRoot s (rHandle o) && isNumRoot s (rExist o) && !isNumRoot s rProg then
      some [.alloc .obj (nVars + 1) true "" o, .dup (.root rProg), .put (.item fresh nVars),
            .put (.root (rExist o)), .dup (.root (rExist o)), .put (.root (rHandle o))]
    else none
  | .setvar o i t =>
    match objCell s o with
    | some (c, cell) => if i < objVars s cell && i < nVars && t < nSlots then some (assignProg (.item c i) (.root t)) else none
    | none => none
  | .getvar d o i =>
    match objCell s o with
    | some (c, cell) => if i < objVars s cell && i < nVars && d < nSlots then some (assignProg (.root d) (.item c i)) else none
    | none => none
  | .oref d o =>
    match objCell s o with
    | some (_, _) => if d < nSlots then some (assignProg (.root d) (.root (rHandle o))) else none
    | none => none
  | .dest o =>
    match objCell s o with
    | some (c, _) =>
      -- remove_object_from_stack: every stack slot holding the object is released and zeroed first
      let onStack := (List.range (top - nFixed)).filter (fun i => s.roots[nFixed + i]? == some (.ptr c))
      some (onStack.flatMap (fun i => [Mi.take (.root (nFixed + i)), Mi.free])
            ++ (sentsOf s c).flatMap (fun k => [Mi.take (.root (rSent k)), .free, .allocd (-2), .distinct (-1)])
            ++ [.mark c])
    | none => none
  | .cleanup =>
    some (s.dlist.flatMap (fun c =>
      match s.heap[c]? with
      | some cell =>
        (List.range nVars).flatMap (fun i => [Mi.take (.item c i), Mi.free])
          ++ [.unlist c, .take (.root (rExist cell.tag)), .free]
      | none => []))
  | .drop o =>
    if o < nObjs && !isNumRoot s (rHandle o) then some [.take (.root (rHandle o)), .free] else none
  | .call k o st a b =>
    match uobjCell s o with
    | some (_, _) =>
      if k < nCalls && a < nSlots && b < nSlots && isNumRoot s (rCall k) then
        some [.alloc .arr 2 false "" 0, .dup (.root a), .put (.item fresh 0), .dup (.root b), .put (.item fresh 1),
              .alloc .call 2 false "" st, .swap, .put (.item (fresh + 1) 1),
              .dup (.root (rHandle o)), .put (.item (fresh + 1) 0), .put (.root (rCall k)), .allocd 1]
      else none
    | none => none
  | .rmcall k =>
    if k < nCalls && !isNumRoot s (rCall k) then some [.take (.root (rCall k)), .free, .allocd (-1)] else none
  | .rmcalln k =>
    -- by name: only calls with their own function name (st = 1: "cbs<k>") are addressed this way
    match slotCell s (rCall k) with
    | some (_, ccell) =>
      match ccell.items with
      | [.ptr ob, _] =>
        let usable := (List.range nObjs).any (fun o => match objCell s o with
          | some (c, _) => c == ob
          | none => false)
        if k < nCalls && ccell.tag == 1 && usable then some [.take (.root (rCall k)), .free, .allocd (-1)] else none
      | _ => none
    | none => none
  | .rmall o =>
    match uobjCell s o with
    | some (c, _) =>
      some (((List.range nCalls).filter (fun k => match slotCell s (rCall k) with
          | some (_, ccell) =>
            -- remove_all_call_out also drops every entry whose owner has been destructed
            match ccell.items.head? with
            | some (.ptr ob) => ob == c || (match s.heap[ob]? with
              | some oc => oc.destructed
              | none => false)
            | _ => false
          | none => false)).flatMap (fun k => [Mi.take (.root (rCall k)), Mi.free, Mi.allocd (-1)]))
    | none => none
  | .sweep => none   -- handled by `step` (each call is compiled in the state left by the previous one)
  | .sent k o a b =>
    match uobjCell s o with
    | some (c, _) =>
      if k < nSents && a < nSlots && b < nSlots && isNumRoot s (rSent k) then
        some [.alloc .arr 2 false "" 0, .dup (.root a), .put (.item fresh 0), .dup (.root b), .put (.item fresh 1),
              .alloc .sent 2 false "" c, .swap, .put (.item (fresh + 1) 0),
              .dup (.root (rHandle o)), .put (.item (fresh + 1) 1), .put (.root (rSent k)),
              .allocd 2, .distinct 1]
      else none
    | none => none
  | .rmsent k =>
    -- remove_action needs the owner: applicable while the owner is still reachable through its handle
    match slotCell s (rSent k) with
    | some (_, sc) =>
      let reachable := (List.range nObjs).any (fun o => match objCell s o with
        | some (c, _) => c == sc.tag
        | none => false)
      if k < nSents && reachable then some [.take (.root (rSent k)), .free, .allocd (-2), .distinct (-1)] else none
    | none => none
  | .inp o a b =>
    -- input_to("icb", 0, a, b) called by object o for the interactive user: sentence -> (carry-over array, function
    -- pointer owned by o).  destruct_object(o) does NOT remove it (sentence->ob is 0), only the next input does.
    match uobjCell s o with
    | some (_, _) =>
      if a < nSlots && b < nSlots && !isNumRoot s rInput then
        -- an input_to is already pending: set_call() refuses; the function pointer made for the callback (one more
        -- holder of the owner) and the sentence are released again, the arguments have not been captured yet
        some [.alloc .fn 2 false "" 0, .dup (.root (rHandle o)), .put (.item fresh 1), .free]
      else if a < nSlots && b < nSlots && isNumRoot s rInput then
        some [.alloc .arr 2 false "" 0, .dup (.root a), .put (.item fresh 0), .dup (.root b), .put (.item fresh 1),
              .alloc .fn 2 false "" 0, .dup (.root (rHandle o)), .put (.item (fresh + 1) 1),
              .alloc .sent 2 false "" 0, .swap, .put (.item (fresh + 2) 1), .swap, .put (.item (fresh + 2) 0),
              .put (.root rInput)]
      else none
    | none => none
  | .inpr o a b =>
    -- the same with the callback icb2 (tag 1 of the sentence): when the input arrives it calls input_to("icb", 0, b, a)
    match uobjCell s o with
    | some (_, _) =>
      if a < nSlots && b < nSlots && !isNumRoot s rInput then
        some [.alloc .fn 2 false "" 0, .dup (.root (rHandle o)), .put (.item fresh 1), .free]
      else if a < nSlots && b < nSlots && isNumRoot s rInput then
        some [.alloc .arr 2 false "" 0, .dup (.root a), .put (.item fresh 0), .dup (.root b), .put (.item fresh 1),
              .alloc .fn 2 false "" 0, .dup (.root (rHandle o)), .put (.item (fresh + 1) 1),
              .alloc .sent 2 false "" 1, .swap, .put (.item (fresh + 2) 1), .swap, .put (.item (fresh + 2) 0),
              .put (.root rInput)]
      else none
    | none => none
  | .input =>
    -- call_function_interactive: local references on the function pointer and the carry-over array, free_sentence,
    -- arguments pushed, array released, callback (or its "owner is destructed" error), arguments popped,
    -- local reference on the function pointer released
    match slotCell s rInput with
    | some (sc, scell) =>
      match scell.items with
      | [.ptr vs, .ptr fnc] =>
        -- the callback icb2 (sentence tag 1) of a live owner installs a new input_to with its two arguments swapped:
        -- the old sentence has been freed before the call, so set_call() accepts the new one
        let ownerAlive := match s.heap[fnc]? with
          | some fcell => (match (fcell.items[1]? : Option Val) with
            | some (Val.ptr ow) => (match s.heap[ow]? with
              | some oc => oc.live && !oc.destructed
              | none => false)
            | _ => false)
          | none => false
        -- an argument that is a destructed object: the callback's local is released and zeroed when it is pushed
        -- (the interpreter never hands out destructed objects), so the new input_to captures 0
        let deadArg : Nat → Bool := fun k => match s.heap[vs]? with
          | some vsc => (match (vsc.items[k]? : Option Val) with
            | some (Val.ptr a) => (match s.heap[a]? with
              | some ac => ac.kind == .obj && ac.destructed
              | none => false)
            | _ => false)
          | none => false
        let rearm := if scell.tag == 1 && ownerAlive then
            [Mi.alloc .arr 2 false "" 0] ++
            (if deadArg 1 then [Mi.take (.root (top + 1)), .free] else [Mi.dup (.root (top + 1)), .put (.item fresh 0)]) ++
            (if deadArg 0 then [Mi.take (.root top), .free] else [Mi.dup (.root top), .put (.item fresh 1)]) ++
            [

             .alloc .fn 2 false "" 0, .dup (.item fnc 1), .put (.item (fresh + 1) 1),
             .alloc .sent 2 false "" 0, .swap, .put (.item (fresh + 2) 1), .swap, .put (.item (fresh + 2) 0),
             .put (.root rInput)]
          else []
        some ([.dup (.item sc 1), .dup (.item sc 0), .take (.root rInput), .free,
              .pushRoot, .dup (.item vs 0), .put (.root top), .pushRoot, .dup (.item vs 1), .put (.root (top + 1)),
              .free] ++ rearm ++
              [.take (.root (top + 1)), .free, .popRoot, .take (.root top), .free, .popRoot,
              .free])
      | _ => none
    | none => none
  | .sappend d w =>
    match strSlot s d with
    | some (c, cell) =>
      if d < nSlots then some (extendProg NV.Gen.C06.extendInPlace c cell cell.ref d (cell.text ++ w)) else none
    | none => none
  | .sjoin d t =>
    match strSlot s d, strSlot s t with
    | some (c, cell), some (ct, tcell) =>
      if d < nSlots && t < nSlots then
        -- the right operand is a pushed copy: if it is the same block its counter has already been incremented
        let r := if ct == c then incRef cell.kind cell.ref 1 else cell.ref
        some ([.pushRoot, .dup (.root t), .put (.root top)] ++
              (if NV.Gen.C06.joinInPlace (cell.kind == .mstr) r then [Mi.inplace c] else []) ++
              [.alloc .mstr 0 true (cell.text ++ tcell.text) 0, .take (.root top), .free, .popRoot,
               .take (.root d), .free, .put (.root d)])
      else none
    | _, _ => none
  | .sadd d a w =>
    match strSlot s a with
    | some (c, cell) =>
      if d < nSlots && a < nSlots then
        some ([.pushRoot, .dup (.root a), .put (.root top)] ++
              extendProg NV.Gen.C06.extendInPlace c cell (incRef cell.kind cell.ref 1) top (cell.text ++ w) ++
              [.take (.root d), .free, .take (.root top), .put (.root d), .popRoot])
      else none
    | none => none
  | .saddl d a w =>
    match strSlot s a with
    | some (_, cell) =>
      if d < nSlots && a < nSlots then
        -- the string operand is pushed, a new block is built from the number's text and it, the pushed copy released
        some [.pushRoot, .dup (.root a), .put (.root top), .alloc .mstr 0 true (w ++ cell.text) 0,
              .take (.root top), .free, .popRoot, .take (.root d), .free, .put (.root d)]
      else none
    | none => none
  | .sadd2 d a t =>
    match strSlot s a, strSlot s t with
    | some (c, cell), some (ct, tcell) =>
      if d < nSlots && a < nSlots && t < nSlots then
        -- both operands are pushed copies: the counter of the left block is at least 2 when the join decides
        let r := incRef cell.kind (if ct == c then incRef cell.kind cell.ref 1 else cell.ref) 1
        some ([.pushRoot, .dup (.root a), .put (.root top), .pushRoot, .dup (.root t), .put (.root (top + 1))] ++
              (if NV.Gen.C06.joinInPlace (cell.kind == .mstr) r then [Mi.inplace c] else []) ++
              [.alloc .mstr 0 true (cell.text ++ tcell.text) 0, .take (.root (top + 1)), .free, .popRoot,
               .take (.root top), .free, .popRoot, .take (.root d), .free, .put (.root d)])
      else none
    | _, _ => none
  | .schar d i w =>
    match strSlot s d with
    | some (c, cell) =>
      if d < nSlots && i < cell.text.length && w.length == 1 then
        some (unlinkStoreProg c cell d (setCharAt cell.text i w))
      else none
    | none => none
  | .srange d i j w =>
    match strSlot s d with
    | some (c, cell) =>
      if d < nSlots && i ≤ j && j < cell.text.length && 0 < w.length then
        some (unlinkStoreProg c cell d (setRange cell.text i j w))
      else none
    | none => none
  | .err _ _ => none
  | .efun _ _ _ => none
  | .rest _ => none
  | .resto _ => none
  | .fefun _ _ _ _ => none
  | .frest _ _ => none
  | .clones n =>
    -- n times clone_object: n object structures, each with one reference on the program (reference_prog); the
    -- pack goes in front of the chain at rAnon
    if 0 < n && !isNumRoot s rProg then
      some [.alloc .pack n false "" 0, .fillFrom fresh (.root rProg),
            .alloc .pack 2 false "" 1, .swap, .put (.item (fresh + 1) 0),
            .take (.root rAnon), .put (.item (fresh + 1) 1), .put (.root rAnon)]
    else none
  | .unclone n =>
    -- n anonymous clones destructed and cleaned up one at a time: dealloc_object -> free_prog(ob->prog)
    let sl := anonSlots s
    if sl.length < n || !s.dlist.isEmpty then none
    else some ((sl.take n).flatMap (fun (p, i) => [Mi.take (.item p i), Mi.free]))
  | .arange d i len n t f =>
    match slotCell s d with
    | some (c, cell) =>
      if d < nSlots && t < nSlots && cell.live && cell.kind == .arr && i + len ≤ cell.items.length && 0 < n && f < 2 then
        -- the right-hand side: a function result nobody else holds (counter 1), in a stack slot
        some ([.alloc .arr n false "" 0, .fillFrom fresh (.root t)] ++ rangeProg c cell.items.length d i len fresh n (fresh + 1) true (f == 1))
      else none
    | none => none
  | .arangev d i len t f =>
    match slotCell s d, slotCell s t with
    | some (c, cell), some (tc, tcell) =>
      if d < nSlots && t < nSlots && d != t && cell.live && cell.kind == .arr && i + len ≤ cell.items.length
          && tcell.live && tcell.kind == .arr && f < 2 then
        -- the right-hand side is pushed: one more holder, so its counter is not 1
        some ([.dup (.root t)] ++ rangeProg c cell.items.length d i len tc tcell.items.length fresh false (f == 1))
      else none
    | _, _ => none
  | .brange d i len n =>
    match slotCell s d with
    | some (_, cell) =>
      if d < nSlots && cell.live && cell.kind == .buf && i + len ≤ cell.tag && 0 < n then
        -- bytes are not counted values: same length = memcpy; other length = a new buffer replaces the owner's
        -- (free_buffer of the old one); the temporary right-hand buffer is released
        some ([.alloc .buf 0 false "" n] ++
              (if n == len then [] else [.alloc .buf 0 true "" (cell.tag - len + n), .take (.root d), .free, .put (.root d)]) ++
              [.free])
      else none
    | none => none
  | .reclaimu => some (reclaimProg s false)
  | .reclaim =>
    -- lpc mode: the same walk; the interpreter object's variables `v` (slots) and `obs` (handles) are object variables
    -- too: the handles of destructed objects go - unless the recursion counter has been used up by a deep or cyclic
    -- value met earlier (the missing decrement of check_svalue)
    some (reclaimProg s true)
  | .newobjr o L =>
    if o < nObjs && L < nLayouts && isNumRoot s (rHandle o) && isNumRoot s (rExist o) then
      -- the three programs of the layout become visible (tracked) cells the first time the layout is used: ra, rb
      -- held by their blueprint objects and by the inherit table of rc
      let progs := if isNumRoot s (rLay L 2) then
          [Mi.alloc .prog 0 true "" (layNa L), .put (.root (rLay L 0)),
           .alloc .prog 0 true "" (layNb L), .put (.root (rLay L 1)),
           .alloc .prog 2 true "" nVars, .dup (.root (rLay L 0)), .put (.item (fresh + 2) 0),
           .dup (.root (rLay L 1)), .put (.item (fresh + 2) 1), .put (.root (rLay L 2))]
        else []
      let f := fresh + (if isNumRoot s (rLay L 2) then 3 else 0)
      some (progs ++ [.alloc .obj (nVars + 1) true "" o, .dup (.root (rLay L 2)), .put (.item f nVars),
                      .put (.root (rExist o)), .dup (.root (rExist o)), .put (.root (rHandle o))])
    else none
  | .replace o w =>
    -- replace_programs() (lib/efuns/replace_program.c) for one object: the variables of the kept program are moved to
    -- the front (the slot they go to is released first), every other variable is released, then
    -- `new_prog->ref++; ob->prog = new_prog; free_prog (old_prog)`
    match objCell s o with
    | some (c, cell) =>
      match layoutOf s cell with
      | some L =>
        if w < 2 then
          let kept := if w == 0 then layNa L else layNb L
          let offset := if w == 0 then 0 else layNa L
          let move := if offset == 0 then [] else
            (List.range kept).flatMap (fun i => [Mi.take (.item c i), .free, .take (.item c (i + offset)), .put (.item c i)])
          let rest := (List.range (nVars - kept)).flatMap (fun j => [Mi.take (.item c (kept + j)), Mi.free])
          some (move ++ rest ++ [.dup (.root (rLay L w)), .take (.item c nVars), .swap, .put (.item c nVars), .free])
        else none
      | none => none
    | none => none
  | .unload w =>
    -- the blueprint object is destructed and cleaned up: its reference on the program is released (free_prog); the
    -- program goes when no clone is left, and releases the programs it inherits (deallocate_program)
    let r := if w == 0 then rProg else rBase
    if w < 2 && !isNumRoot s r && s.dlist.isEmpty then some [.take (.root r), .free] else none

/-- result of one operation -/
inductive Res where
  | ok (s : St)
  | skip
  | fail (o : Out)

def sweepFrom (s : St) : List Nat → M St
  | [] => pure s
  | k :: ks => do sweepFrom (← runMi s (fireProg s k)) ks

def step (s : St) (op : Op) : Res :=
  match op with
  | .sweep =>
    match sweepFrom s (sweepOrder s) with
    | .ok s' => .ok s'
    | .error e => .fail e
  | .err _ _ => .ok s
  | .efun _ _ _ => .ok s
  | .rest _ => .ok s
  | .resto _ => .ok s
  | .fefun _ _ _ _ => .ok s
  | .frest _ _ => .ok s
  | op =>
    match compile s op with
    | none => .skip
    | some prog =>
      match runMi s prog with
      | .ok s' => .ok s'
      | .error e => .fail e

/-- run a whole history; the first failure stops it -/
def run (s : St) : List Op → Except Out St
  | [] => pure s
  | op :: ops =>
    match step s op with
    | .ok s' => run s' ops
    | .skip => run s ops
    | .fail e => throw e

end NV.C06
