/-
C06 — helper lemmas: how the number of holders `H` and the counter of a cell change under every micro-instruction.
-/
import NV.C06.Model

namespace NV.C06

/-- occurrences of a pointer to cell c in a list of values -/
def cnt (c : Nat) (l : List Val) : Nat := l.count (.ptr c)

/-- occurrences of a pointer to cell c inside the containers of the heap -/
def heapCnt (c : Nat) (h : List Cell) : Nat := (h.map (fun d => cnt c d.items)).sum

/-- number of holders of cell c: roots (variables, stack, handles, object list, pending calls, sentences),
    values in transit, and items of containers -/
def H (s : St) (c : Nat) : Nat := cnt c s.roots + cnt c s.temps + heapCnt c s.heap

/-- 1 when the value is a pointer to c -/
def isP (c : Nat) (v : Val) : Nat := if v = .ptr c then 1 else 0

theorem cnt_nil (c : Nat) : cnt c [] = 0 := rfl

theorem cnt_cons (c : Nat) (v : Val) (l : List Val) : cnt c (v :: l) = cnt c l + isP c v := by
  unfold cnt isP
  rw [List.count_cons]
  by_cases h : v = .ptr c <;> simp [h]

theorem cnt_append (c : Nat) (a b : List Val) : cnt c (a ++ b) = cnt c a + cnt c b := by
  unfold cnt; exact List.count_append

theorem cnt_reverse (c : Nat) (a : List Val) : cnt c a.reverse = cnt c a := by
  unfold cnt; exact List.count_reverse

theorem isP_num (c : Nat) (n : Int) : isP c (.num n) = 0 := by simp [isP]

theorem cnt_replicate (c n : Nat) (v : Val) : cnt c (List.replicate n v) = n * isP c v := by
  unfold cnt isP
  rw [List.count_replicate]
  by_cases h : v = .ptr c <;> simp [h]

theorem cnt_of_all_num (c : Nat) (l : List Val) (h : l.all Val.isNum = true) : cnt c l = 0 := by
  induction l with
  | nil => rfl
  | cons v t ih =>
    simp only [List.all_cons, Bool.and_eq_true] at h
    rw [cnt_cons, ih h.2]
    cases v with
    | num n => simp [isP]
    | ptr d => simp [Val.isNum] at h

/-- additive form of `count_set` (no truncated subtraction) -/
theorem cnt_set (c : Nat) (l : List Val) (i : Nat) (v : Val) (h : i < l.length) :
    cnt c (l.set i v) + isP c l[i] = cnt c l + isP c v := by
  induction l generalizing i with
  | nil => simp at h
  | cons a t ih =>
    cases i with
    | zero => simp [List.set, cnt_cons]; omega
    | succ j =>
      simp only [List.set, cnt_cons, List.getElem_cons_succ]
      have := ih j (by simpa using h)
      omega

theorem cnt_append_nums (c : Nat) (l : List Val) : cnt c (l ++ [.num 0, .num 0]) = cnt c l := by
  rw [cnt_append]; simp [cnt_cons, cnt_nil, isP]

theorem cnt_eraseIdx (c : Nat) (l : List Val) (i : Nat) (h : i < l.length) :
    cnt c (l.eraseIdx i) + isP c l[i] = cnt c l := by
  induction l generalizing i with
  | nil => simp at h
  | cons a t ih =>
    cases i with
    | zero => simp [List.eraseIdx, cnt_cons]
    | succ j =>
      simp only [List.eraseIdx, cnt_cons, List.getElem_cons_succ]
      have := ih j (by simpa using h)
      omega

theorem cnt_dropLast_num (c : Nat) (l : List Val) (n : Int) (h : l.getLast? = some (.num n)) :
    cnt c l.dropLast = cnt c l := by
  induction l with
  | nil => simp at h
  | cons a t ih =>
    cases t with
    | nil =>
      simp at h
      subst h
      simp [cnt_cons, cnt_nil, isP]
    | cons b u =>
      have : (b :: u).getLast? = some (.num n) := by simpa [List.getLast?_cons_cons] using h
      simp only [List.dropLast_cons_cons, cnt_cons]
      rw [ih this]
      simp [cnt_cons]

theorem heapCnt_nil (c : Nat) : heapCnt c [] = 0 := rfl

theorem heapCnt_cons (c : Nat) (x : Cell) (h : List Cell) : heapCnt c (x :: h) = cnt c x.items + heapCnt c h := by
  simp [heapCnt]

theorem heapCnt_append (c : Nat) (h : List Cell) (x : Cell) : heapCnt c (h ++ [x]) = heapCnt c h + cnt c x.items := by
  induction h with
  | nil => simp [heapCnt]
  | cons a t ih => simp only [List.cons_append, heapCnt_cons, ih]; omega

/-- replacing cell d: the contribution of its items is exchanged -/
theorem heapCnt_set (c : Nat) (h : List Cell) (d : Nat) (x : Cell) (hd : d < h.length) :
    heapCnt c (h.set d x) + cnt c h[d].items = heapCnt c h + cnt c x.items := by
  induction h generalizing d with
  | nil => simp at hd
  | cons a t ih =>
    cases d with
    | zero => simp [List.set, heapCnt_cons]; omega
    | succ j =>
      simp only [List.set, heapCnt_cons, List.getElem_cons_succ]
      have := ih j (by simpa using hd)
      omega

/-- what the invariant looks at in a cell: liveness, kind, counter -/
def metaOf (s : St) (c : Nat) : Option (Bool × Kind × Nat) :=
  (s.heap[c]?).map (fun x => (x.live, x.kind, x.ref))

theorem metaOf_setCell_items (s : St) (d : Nat) (cell : Cell) (items : List Val) (c : Nat)
    (hd : s.heap[d]? = some cell) :
    metaOf (s.setCell d { cell with items := items }) c = metaOf s c := by
  unfold metaOf St.setCell
  simp only [List.getElem?_set]
  by_cases h : d = c
  · subst h
    rcases List.getElem?_eq_some_iff.mp hd with ⟨hlt, heq⟩
    simp [hlt, ← heq]
  · simp [h]

theorem H_setCell (s : St) (d : Nat) (cell x : Cell) (c : Nat) (hd : s.heap[d]? = some cell) :
    H (s.setCell d x) c + cnt c cell.items = H s c + cnt c x.items := by
  rcases List.getElem?_eq_some_iff.mp hd with ⟨hlt, heq⟩
  have := heapCnt_set c s.heap d x hlt
  rw [heq] at this
  unfold H St.setCell
  simp only
  omega

theorem writeLoc_spec (s s' : St) (l : Loc) (v : Val) (h : writeLoc s l v = .ok s') :
    ∃ old, readLoc s l = .ok old ∧ (∀ c, H s' c + isP c old = H s c + isP c v) ∧
      (∀ c, metaOf s' c = metaOf s c) ∧ s'.temps = s.temps := by
  cases l with
  | root i =>
    simp only [writeLoc] at h
    split at h
    · rename_i hi
      cases h
      refine ⟨s.roots[i], ?_, ?_, ?_, rfl⟩
      · simp [readLoc, hi]; rfl
      · intro c
        have := cnt_set c s.roots i v hi
        unfold H; simp only; omega
      · intro c; rfl
    · cases h
  | item d j =>
    simp only [writeLoc] at h
    split at h
    · cases h
    · rename_i cell hd
      split at h
      · cases h
      · rename_i hlive
        split at h
        · rename_i hj
          cases h
          refine ⟨cell.items[j], ?_, ?_, ?_, rfl⟩
          · simp [readLoc, hd, hlive, hj]; rfl
          · intro c
            have h1 := H_setCell s d cell { cell with items := cell.items.set j v } c hd
            have h2 := cnt_set c cell.items j v hj
            simp only at h1
            omega
          · intro c; exact metaOf_setCell_items s d cell _ c hd
        · cases h

/-- counter of a live cell versus its number of holders -/
def RefOK (k : Kind) (r h : Nat) : Prop :=
  if k.isStr = true then (r = 0 ∨ (r = h ∧ 0 < h ∧ h < 2 ^ SW))
  else (r = h % 2 ^ W ∧ (h < 2 ^ W → 0 < h))

theorem two_pow_W_pos : 0 < 2 ^ W := Nat.pow_pos (by decide)
theorem one_lt_two_pow_W : 1 < 2 ^ W := by decide
theorem one_lt_two_pow_SW : 1 < 2 ^ SW := by decide

theorem dec_mod (h : Nat) (hpos : 0 < h) : (h % 2 ^ W + 2 ^ W - 1) % 2 ^ W = (h - 1) % 2 ^ W := by
  have hp := two_pow_W_pos
  rw [show h % 2 ^ W + 2 ^ W - 1 = h % 2 ^ W + (2 ^ W - 1) by omega, Nat.mod_add_mod,
      show h + (2 ^ W - 1) = (h - 1) + 2 ^ W by omega, Nat.add_mod_right]

theorem RefOK_new (k : Kind) : RefOK k 1 1 := by
  unfold RefOK
  split
  · right; exact ⟨rfl, by decide, one_lt_two_pow_SW⟩
  · exact ⟨(Nat.mod_eq_of_lt one_lt_two_pow_W).symm, fun _ => by decide⟩

theorem RefOK_inc (k : Kind) (r h n : Nat) (hr : RefOK k r h) : RefOK k (incRef k r n) (h + n) := by
  unfold RefOK at *
  unfold incRef
  by_cases hk : k.isStr = true
  · rw [if_pos hk] at hr ⊢
    rw [if_pos hk]
    rcases hr with h0 | ⟨h1, h2, h3⟩
    · left; simp [h0]
    · subst h1
      have hz : r ≠ 0 := by omega
      rw [if_neg hz]
      by_cases hlt : r + n < 2 ^ SW
      · rw [if_pos hlt]; right; exact ⟨rfl, by omega, hlt⟩
      · rw [if_neg hlt]; left; rfl
  · rw [if_neg hk] at hr ⊢
    rw [if_neg hk]
    rcases hr with ⟨h1, h2⟩
    constructor
    · rw [h1, Nat.mod_add_mod]
    · intro hlt
      have : 0 < h := h2 (by omega)
      omega

/-- a decrement that does not deallocate (the cell has at least the holder being released) -/
theorem RefOK_dec_alive (k : Kind) (r h : Nat) (hr : RefOK k r h) (hpos : 0 < h)
    (hd : (decRef k r).2 = false) : RefOK k (decRef k r).1 (h - 1) := by
  unfold RefOK at *
  unfold decRef at *
  by_cases hk : k.isStr = true
  · rw [if_pos hk] at hr ⊢
    rw [if_pos hk] at hd ⊢
    rcases hr with h0 | ⟨h1, h2, h3⟩
    · left; simp [h0]
    · subst h1
      have hz : r ≠ 0 := by omega
      rw [if_neg hz] at hd ⊢
      simp at hd
      right; exact ⟨rfl, by omega, by omega⟩
  · rw [if_neg hk] at hr ⊢
    rw [if_neg hk] at hd ⊢
    rcases hr with ⟨h1, h2⟩
    simp at hd
    subst h1
    rw [dec_mod h hpos] at hd ⊢
    refine ⟨rfl, ?_⟩
    intro hlt
    rw [Nat.mod_eq_of_lt hlt] at hd
    omega

/-- a decrement that deallocates: nobody else holds the cell (refed kinds: as long as the holders fit the counter) -/
theorem RefOK_dec_dead (k : Kind) (r h : Nat) (hr : RefOK k r h) (hpos : 0 < h)
    (hw : k.isStr = false → h < 2 ^ W + 1) (hd : (decRef k r).2 = true) : h - 1 = 0 := by
  unfold RefOK at *
  unfold decRef at *
  by_cases hk : k.isStr = true
  · rw [if_pos hk] at hr
    rw [if_pos hk] at hd
    rcases hr with h0 | ⟨h1, h2, h3⟩
    · simp [h0] at hd
    · subst h1
      have hz : r ≠ 0 := by omega
      rw [if_neg hz] at hd
      simp at hd
      omega
  · rw [if_neg hk] at hr
    rw [if_neg hk] at hd
    have hw' := hw (by simpa using hk)
    rcases hr with ⟨h1, h2⟩
    simp at hd
    subst h1
    rw [dec_mod h hpos, Nat.mod_eq_of_lt (by omega)] at hd
    exact hd

/-- the per-cell invariant: the counter of a live cell agrees with its holders, a freed (or not yet allocated)
    cell has no holders -/
def CellOK (s : St) (c : Nat) : Prop :=
  match metaOf s c with
  | none => H s c = 0
  | some (true, k, r) => RefOK k r (H s c)
  | some (false, _, _) => H s c = 0

/-- CellOK only depends on `metaOf` and `H` -/
theorem CellOK_congr (s s' : St) (c : Nat) (hm : metaOf s' c = metaOf s c) (hh : H s' c = H s c)
    (h : CellOK s c) : CellOK s' c := by
  unfold CellOK at *
  rw [hm, hh]; exact h

theorem H_temps_cons (s : St) (v : Val) (c : Nat) :
    H { s with temps := v :: s.temps } c = H s c + isP c v := by
  unfold H; simp only [cnt_cons]; omega

theorem H_with_temps (s : St) (t : List Val) (c : Nat) :
    H { s with temps := t } c + cnt c s.temps = H s c + cnt c t := by
  unfold H; simp only; omega

theorem metaOf_with_temps (s : St) (t : List Val) (c : Nat) : metaOf { s with temps := t } c = metaOf s c := rfl

theorem incVal_num (s s' : St) (n : Int) (k : Nat) (h : incVal s (.num n) k = .ok s') : s' = s := by
  simp [incVal] at h; cases h; rfl

theorem incVal_ptr (s s' : St) (d k : Nat) (h : incVal s (.ptr d) k = .ok s') :
    ∃ cell, s.heap[d]? = some cell ∧ cell.live = true ∧
      s' = s.setCell d { cell with ref := incRef cell.kind cell.ref k } := by
  simp only [incVal] at h
  split at h
  · cases h
  · rename_i cell hd
    split at h
    · cases h
    · rename_i hl
      cases h
      exact ⟨cell, hd, by simpa using hl, rfl⟩

theorem metaOf_setCell (s : St) (d : Nat) (x : Cell) (c : Nat) (hd : d < s.heap.length) :
    metaOf (s.setCell d x) c = if d = c then some (x.live, x.kind, x.ref) else metaOf s c := by
  unfold metaOf St.setCell
  simp only [List.getElem?_set]
  by_cases h : d = c
  · subst h; simp [hd]
  · simp [h]

theorem metaOf_some (s : St) (c : Nat) (cell : Cell) (h : s.heap[c]? = some cell) :
    metaOf s c = some (cell.live, cell.kind, cell.ref) := by
  unfold metaOf; rw [h]; rfl

theorem lt_of_getElem? {α} (l : List α) (i : Nat) (x : α) (h : l[i]? = some x) : i < l.length :=
  (List.getElem?_eq_some_iff.mp h).1

/-- changing only the counter of cell d does not change any number of holders -/
theorem H_setCell_ref (s : St) (d : Nat) (cell : Cell) (r : Nat) (c : Nat) (hd : s.heap[d]? = some cell) :
    H (s.setCell d { cell with ref := r }) c = H s c := by
  have := H_setCell s d cell { cell with ref := r } c hd
  simp only at this
  omega

/-- effect of `ref += n` on the invariant of cell c, when the number of holders of the target grows by n -/
theorem CellOK_incVal (s s1 s' : St) (v : Val) (n : Nat) (c : Nat)
    (hi : incVal s1 v n = .ok s')
    (hm : metaOf s1 c = metaOf s c) (hh : H s1 c = H s c + n * isP c v)
    (ok : CellOK s c) : CellOK s' c ∧ H s' c = H s c + n * isP c v := by
  cases v with
  | num x =>
    have := incVal_num s1 s' x n hi
    subst this
    refine ⟨?_, hh⟩
    have hz : isP c (.num x) = 0 := isP_num c x
    rw [hz] at hh
    exact CellOK_congr s s' c hm (by omega) ok
  | ptr d =>
    rcases incVal_ptr s1 s' d n hi with ⟨cell, hd, hl, rfl⟩
    have hlt := lt_of_getElem? _ _ _ hd
    have hH : H (s1.setCell d { cell with ref := incRef cell.kind cell.ref n }) c = H s1 c :=
      H_setCell_ref s1 d cell _ c hd
    refine ⟨?_, by rw [hH, hh]⟩
    unfold CellOK
    rw [metaOf_setCell s1 d _ c hlt, hH, hh]
    by_cases hdc : d = c
    · subst hdc
      rw [if_pos rfl]
      simp only [hl]
      have hms : metaOf s d = some (true, cell.kind, cell.ref) := by
        rw [← hm, metaOf_some s1 d cell hd, hl]
      unfold CellOK at ok
      rw [hms] at ok
      simp only at ok
      have : isP d (.ptr d) = 1 := by simp [isP]
      rw [this, Nat.mul_one]
      exact RefOK_inc _ _ _ _ ok
    · rw [if_neg hdc, hm]
      have : isP c (.ptr d) = 0 := by
        unfold isP; rw [if_neg]; intro h; cases h; exact hdc rfl
      rw [this, Nat.mul_zero, Nat.add_zero]
      exact ok

theorem readLoc_ok_of_write (s s1 : St) (l : Loc) (v old : Val) (h : writeLoc s l v = .ok s1)
    (hr : readLoc s l = .ok old) :
    (∀ c, H s1 c + isP c old = H s c + isP c v) ∧ (∀ c, metaOf s1 c = metaOf s c) ∧ s1.temps = s.temps := by
  rcases writeLoc_spec s s1 l v h with ⟨old', h1, h2, h3, h4⟩
  rw [hr] at h1
  cases h1
  exact ⟨h2, h3, h4⟩

theorem take_ok (s s' : St) (l : Loc) (c : Nat) (h : mstep s (.take l) = .ok s') (ok : CellOK s c) :
    CellOK s' c ∧ H s' c = H s c := by
  simp only [mstep, bind, Except.bind] at h
  split at h
  · cases h
  · rename_i v hv
    split at h
    · cases h
    · rename_i s1 hw
      cases h
      rcases readLoc_ok_of_write s s1 l (.num 0) v hw hv with ⟨h1, h2, h3⟩
      have hH : H { s1 with temps := v :: s1.temps } c = H s c := by
        have a := h1 c
        rw [isP_num] at a
        have b := H_temps_cons s1 v c
        omega
      exact ⟨CellOK_congr s _ c (h2 c) hH ok, hH⟩

theorem put_ok (s s' : St) (l : Loc) (c : Nat) (h : mstep s (.put l) = .ok s') (ok : CellOK s c) :
    CellOK s' c ∧ H s' c = H s c := by
  simp only [mstep] at h
  split at h
  · cases h
  · rename_i v rest ht
    simp only [bind, Except.bind] at h
    split at h
    · cases h
    · rename_i old ho
      split at h
      · cases h
      · rename_i hnum
        simp only [pure, Except.pure] at h
        split at h
        · cases h
        · rename_i s1 hw
          cases h
          rcases readLoc_ok_of_write s s1 l v old hw ho with ⟨h1, h2, h3⟩
          have holdz : isP c old = 0 := by
            cases old with
            | num n => exact isP_num c n
            | ptr d => simp [Val.isNum] at hnum
          have hH : H { s1 with temps := rest } c = H s c := by
            have a := h1 c
            have b := H_with_temps s1 rest c
            rw [h3, ht, cnt_cons] at b
            omega
          exact ⟨CellOK_congr s _ c (h2 c) hH ok, hH⟩

theorem incVal_temps (s s1 : St) (v : Val) (n : Nat) (t : List Val) (h : incVal s v n = .ok s1) :
    incVal { s with temps := t } v n = .ok { s1 with temps := t } := by
  cases v with
  | num x => have := incVal_num s s1 x n h; subst this; simp [incVal]; rfl
  | ptr d =>
    rcases incVal_ptr s s1 d n h with ⟨cell, hd, hl, rfl⟩
    simp [incVal, hd, hl, St.setCell]; rfl

theorem dup_ok (s s' : St) (l : Loc) (c : Nat) (h : mstep s (.dup l) = .ok s') (ok : CellOK s c) :
    CellOK s' c ∧ H s' c ≤ H s c + 1 := by
  simp only [mstep, bind, Except.bind] at h
  split at h
  · cases h
  · rename_i v hv
    split at h
    · cases h
    · rename_i s1 hi
      cases h
      have hi' := incVal_temps s s1 v 1 (v :: s.temps) hi
      have hs1t : s1.temps = s.temps := by
        cases v with
        | num x => have := incVal_num s s1 x 1 hi; subst this; rfl
        | ptr d => rcases incVal_ptr s s1 d 1 hi with ⟨cell, hd, hl, rfl⟩; rfl
      rcases CellOK_incVal s { s with temps := v :: s.temps } _ v 1 c hi' rfl
          (by rw [H_temps_cons]; omega) ok with ⟨a, b⟩
      rw [hs1t]
      refine ⟨a, ?_⟩
      rw [b]
      have : isP c v ≤ 1 := by unfold isP; split <;> omega
      omega

theorem metaOf_append (s : St) (x : Cell) (c : Nat) :
    metaOf { s with heap := s.heap ++ [x] } c =
      if c = s.heap.length then some (x.live, x.kind, x.ref) else metaOf s c := by
  unfold metaOf
  simp only
  by_cases h : c = s.heap.length
  · subst h; simp
  · rw [if_neg h]
    by_cases hlt : c < s.heap.length
    · rw [List.getElem?_append_left hlt]
    · have : s.heap.length < c := by omega
      rw [List.getElem?_eq_none (by simp; omega), List.getElem?_eq_none (by omega)]

theorem metaOf_none_of_ge (s : St) (c : Nat) (h : s.heap.length ≤ c) : metaOf s c = none := by
  unfold metaOf; rw [List.getElem?_eq_none h]; rfl

/-- allocation of a cell whose items are all numbers, owned by a new temp -/
theorem alloc_ok_gen (s : St) (x : Cell) (st : Stats) (c : Nat) (hx : x.live = true) (hr : x.ref = 1)
    (hi : cnt c x.items = 0) (ok : CellOK s c) :
    CellOK { s with heap := s.heap ++ [x], temps := .ptr s.heap.length :: s.temps, stats := st } c := by
  unfold CellOK
  have hm : metaOf { s with heap := s.heap ++ [x], temps := .ptr s.heap.length :: s.temps, stats := st } c
      = if c = s.heap.length then some (x.live, x.kind, x.ref) else metaOf s c := metaOf_append s x c
  have hH : H { s with heap := s.heap ++ [x], temps := .ptr s.heap.length :: s.temps, stats := st } c
      = H s c + isP c (.ptr s.heap.length) := by
    unfold H; simp only [cnt_cons, heapCnt_append, hi]; omega
  rw [hm, hH]
  by_cases h : c = s.heap.length
  · subst h
    rw [if_pos rfl, hx, hr]
    simp only
    have hn : metaOf s s.heap.length = none := metaOf_none_of_ge s _ (Nat.le_refl _)
    unfold CellOK at ok
    rw [hn] at ok
    simp only at ok
    have : isP s.heap.length (.ptr s.heap.length) = 1 := by simp [isP]
    rw [ok, this]
    exact RefOK_new _
  · rw [if_neg h]
    have : isP c (.ptr s.heap.length) = 0 := by
      unfold isP; rw [if_neg]; intro e; cases e; exact h rfl
    rw [this, Nat.add_zero]
    exact ok

theorem cnt_replicate_num (c n : Nat) : cnt c (List.replicate n (.num 0)) = 0 := by
  rw [cnt_replicate, isP_num]; rfl

/-- instructions that touch neither the graph nor the counters -/
theorem CellOK_same (s s' : St) (c : Nat) (hh : s'.heap = s.heap) (hr : s'.roots = s.roots) (ht : s'.temps = s.temps)
    (ok : CellOK s c) : CellOK s' c := by
  apply CellOK_congr s s' c _ _ ok
  · unfold metaOf; rw [hh]
  · unfold H; rw [hh, hr, ht]

theorem metaOf_setCell_same (s : St) (d : Nat) (cell x : Cell) (c : Nat) (hd : s.heap[d]? = some cell)
    (h1 : x.live = cell.live) (h2 : x.kind = cell.kind) (h3 : x.ref = cell.ref) :
    metaOf (s.setCell d x) c = metaOf s c := by
  rw [metaOf_setCell s d x c (lt_of_getElem? _ _ _ hd)]
  by_cases h : d = c
  · subst h; rw [if_pos rfl, metaOf_some s d cell hd, h1, h2, h3]
  · rw [if_neg h]


theorem alloc_ok (s s' : St) (k : Kind) (n : Nat) (vis : Bool) (text : String) (tag : Nat) (c : Nat)
    (h : mstep s (.alloc k n vis text tag) = .ok s') (ok : CellOK s c) : CellOK s' c := by
  simp only [mstep, pure, Except.pure] at h
  cases h
  exact alloc_ok_gen s _ _ c rfl rfl (cnt_replicate_num c n) ok

theorem fillFrom_ok (s s' : St) (d : Nat) (l : Loc) (c : Nat)
    (h : mstep s (.fillFrom d l) = .ok s') (ok : CellOK s c) : CellOK s' c := by
  simp only [mstep, bind, Except.bind] at h
  split at h
  · cases h
  · rename_i v hv
    split at h
    · cases h
    · rename_i cell hd
      split at h
      · cases h
      · split at h
        · cases h
        · rename_i hall
          have hall' : cell.items.all Val.isNum = true := by simpa using hall
          have hm := metaOf_setCell_items s d cell (List.replicate cell.items.length v) c hd
          have hH : H (s.setCell d { cell with items := List.replicate cell.items.length v }) c
              = H s c + cell.items.length * isP c v := by
            have a := H_setCell s d cell { cell with items := List.replicate cell.items.length v } c hd
            simp only at a
            rw [cnt_of_all_num c _ hall', cnt_replicate] at a
            omega
          exact (CellOK_incVal s _ s' v _ c h hm hH ok).1

theorem grow_ok (s s' : St) (d : Nat) (c : Nat) (h : mstep s (.grow d) = .ok s') (ok : CellOK s c) : CellOK s' c := by
  simp only [mstep] at h
  split at h
  · cases h
  · rename_i cell hd
    split at h
    · cases h
    · simp only [pure, Except.pure] at h
      cases h
      apply CellOK_congr s _ c _ _ ok
      · exact metaOf_setCell_items s d cell _ c hd
      · have a := H_setCell s d cell { cell with items := cell.items ++ [.num 0, .num 0] } c hd
        simp only at a
        rw [cnt_append_nums] at a
        unfold H at *
        simp only at *
        omega

theorem cnt_erase_pair (c : Nat) (l : List Val) (j : Nat) (a b : Int)
    (h0 : l[2 * j]? = some (.num a)) (h1 : l[2 * j + 1]? = some (.num b)) :
    cnt c ((l.eraseIdx (2 * j + 1)).eraseIdx (2 * j)) = cnt c l := by
  rcases List.getElem?_eq_some_iff.mp h1 with ⟨hl1, e1⟩
  rcases List.getElem?_eq_some_iff.mp h0 with ⟨hl0, e0⟩
  have s1 := cnt_eraseIdx c l (2 * j + 1) hl1
  rw [e1, isP_num] at s1
  have hlen : 2 * j < (l.eraseIdx (2 * j + 1)).length := by
    rw [List.length_eraseIdx]; simp [hl1]; omega
  have s2 := cnt_eraseIdx c (l.eraseIdx (2 * j + 1)) (2 * j) hlen
  have e2 : (l.eraseIdx (2 * j + 1))[2 * j] = l[2 * j] := by
    rw [List.getElem_eraseIdx_of_lt]; omega
  rw [e2, e0, isP_num] at s2
  omega

theorem shrink_ok (s s' : St) (d j : Nat) (c : Nat) (h : mstep s (.shrink d j) = .ok s') (ok : CellOK s c) :
    CellOK s' c := by
  simp only [mstep] at h
  split at h
  · cases h
  · rename_i cell hd
    split at h
    · cases h
    · split at h
      · rename_i a b h0 h1
        simp only [pure, Except.pure] at h
        cases h
        apply CellOK_congr s _ c _ _ ok
        · exact metaOf_setCell_items s d cell _ c hd
        · have x := H_setCell s d cell
            { cell with items := (cell.items.eraseIdx (2 * j + 1)).eraseIdx (2 * j) } c hd
          simp only at x
          rw [cnt_erase_pair c cell.items j a b h0 h1] at x
          unfold H at *
          simp only at *
          omega
      · cases h

theorem pushRoot_ok (s s' : St) (c : Nat) (h : mstep s .pushRoot = .ok s') (ok : CellOK s c) : CellOK s' c := by
  simp only [mstep, pure, Except.pure] at h
  cases h
  refine CellOK_congr s _ c rfl ?_ ok
  unfold H; simp only [cnt_append, cnt_cons, cnt_nil, isP_num]; omega

theorem popRoot_ok (s s' : St) (c : Nat) (h : mstep s .popRoot = .ok s') (ok : CellOK s c) : CellOK s' c := by
  simp only [mstep] at h
  split at h
  · rename_i n hl
    simp only [pure, Except.pure] at h
    cases h
    refine CellOK_congr s _ c rfl ?_ ok
    unfold H; simp only [cnt_dropLast_num c s.roots n hl]
  · cases h

theorem mark_ok (s s' : St) (d : Nat) (c : Nat) (h : mstep s (.mark d) = .ok s') (ok : CellOK s c) : CellOK s' c := by
  simp only [mstep] at h
  split at h
  · cases h
  · rename_i cell hd
    split at h
    · cases h
    · simp only [pure, Except.pure] at h
      cases h
      apply CellOK_congr s _ c _ _ ok
      · exact metaOf_setCell_same s d cell _ c hd rfl rfl rfl
      · have x := H_setCell s d cell { cell with destructed := true } c hd
        simp only at x
        unfold H at *
        simp only at *
        omega

theorem swap_ok (s s' : St) (c : Nat) (h : mstep s .swap = .ok s') (ok : CellOK s c) : CellOK s' c := by
  simp only [mstep] at h
  split at h
  · rename_i a b rest ht
    simp only [pure, Except.pure] at h
    cases h
    refine CellOK_congr s _ c rfl ?_ ok
    unfold H; simp only [ht, cnt_cons]; omega
  · cases h

theorem share_ok (s s' : St) (w : String) (c : Nat) (h : mstep s (.share w) = .ok s') (ok : CellOK s c) :
    CellOK s' c := by
  simp only [mstep] at h
  split at h
  · rename_i d hf
    simp only [bind, Except.bind] at h
    split at h
    · cases h
    · rename_i s1 hi
      simp only [pure, Except.pure] at h
      cases h
      have hi' := incVal_temps s s1 (.ptr d) 1 (.ptr d :: s.temps) hi
      have hs1t : s1.temps = s.temps := by
        rcases incVal_ptr s s1 d 1 hi with ⟨cell, hd, hl, rfl⟩; rfl
      rcases CellOK_incVal s { s with temps := .ptr d :: s.temps } _ (.ptr d) 1 c hi' rfl
          (by rw [H_temps_cons]; omega) ok with ⟨a, _⟩
      rw [hs1t]
      exact CellOK_same _ _ c rfl rfl rfl a
  · simp only [pure, Except.pure] at h
    cases h
    exact alloc_ok_gen s _ _ c rfl rfl (by simp [cnt_nil]) ok

/-- cell c is a string (its counter saturates instead of wrapping) -/
def StrCell (s : St) (c : Nat) : Prop := ∃ cell, s.heap[c]? = some cell ∧ cell.kind.isStr = true

theorem isP_ptr_self (d : Nat) : isP d (.ptr d) = 1 := by simp [isP]
theorem isP_ptr_ne (c d : Nat) (h : d ≠ c) : isP c (.ptr d) = 0 := by
  unfold isP; rw [if_neg]; intro e; cases e; exact h rfl

theorem StrCell_upd (s : St) (d : Nat) (cell x : Cell) (t : List Val) (st : Stats) (c : Nat)
    (hd : s.heap[d]? = some cell) (hk : x.kind = cell.kind) (h : StrCell s c) : StrCell (s.upd d x t st) c := by
  rcases h with ⟨y, hy, hs⟩
  unfold StrCell St.upd
  simp only [List.getElem?_set]
  by_cases e : d = c
  · subst e
    rw [hd] at hy; cases hy
    refine ⟨x, ?_, by rw [hk]; exact hs⟩
    simp [lt_of_getElem? _ _ _ hd]
  · exact ⟨y, by simp [e, hy], hs⟩

theorem H_upd (s : St) (d : Nat) (cell x : Cell) (t : List Val) (st : Stats) (c : Nat)
    (hd : s.heap[d]? = some cell) :
    H (s.upd d x t st) c + cnt c cell.items + cnt c s.temps = H s c + cnt c x.items + cnt c t := by
  rcases List.getElem?_eq_some_iff.mp hd with ⟨hlt, heq⟩
  have := heapCnt_set c s.heap d x hlt
  rw [heq] at this
  unfold H St.upd
  simp only
  omega

theorem metaOf_upd (s : St) (d : Nat) (x : Cell) (t : List Val) (st : Stats) (c : Nat) (hd : d < s.heap.length) :
    metaOf (s.upd d x t st) c = if d = c then some (x.live, x.kind, x.ref) else metaOf s c := by
  unfold metaOf St.upd
  simp only [List.getElem?_set]
  by_cases h : d = c
  · subst h; simp [hd]
  · simp [h]

/-- one step of a running free_svalue keeps the invariant of every cell whose holders fit its counter, and never
    adds a holder -/
theorem rel1_ok (s s' : St) (c : Nat) (h : rel1 s = .ok s') (ok : CellOK s c)
    (hw : StrCell s c ∨ H s c < 2 ^ W + 1) :
    CellOK s' c ∧ H s' c ≤ H s c ∧ (StrCell s c → StrCell s' c) := by
  unfold rel1 at h
  split at h
  · cases h
  · rename_i n rest ht
    simp only [pure, Except.pure] at h
    cases h
    have hH : H { s with temps := rest } c = H s c := by
      have a := H_with_temps s rest c
      rw [ht, cnt_cons, isP_num] at a
      omega
    exact ⟨CellOK_congr s _ c rfl hH ok, by omega, fun x => x⟩
  · rename_i d rest ht
    split at h
    · cases h
    · rename_i cell hd
      split at h
      · cases h
      · rename_i hlive
        have hl : cell.live = true := by simpa using hlive
        have hlt := lt_of_getElem? _ _ _ hd
        simp only at h
        generalize hst : (if cell.kind.isStr = true then
            { s.stats with allocdStrings := s.stats.allocdStrings - 1 } else s.stats) = st at h
        have okd : d = c → RefOK cell.kind cell.ref (H s c) := by
          intro e; subst e
          unfold CellOK at ok
          rw [metaOf_some s d cell hd, hl] at ok
          exact ok
        split at h
        · -- the cell stays alive
          rename_i hnd
          have hnd' : (decRef cell.kind cell.ref).2 = false := by simpa using hnd
          simp only [pure, Except.pure] at h
          cases h
          have hH := H_upd s d cell { cell with ref := (decRef cell.kind cell.ref).1 } rest st c hd
          rw [ht, cnt_cons] at hH
          simp only at hH
          have hm := metaOf_upd s d { cell with ref := (decRef cell.kind cell.ref).1 } rest st c hlt
          have hS : StrCell s c → StrCell (s.upd d { cell with ref := (decRef cell.kind cell.ref).1 } rest st) c :=
            fun x => StrCell_upd s d cell _ _ _ c hd rfl x
          simp only at hm
          generalize s.upd d { cell with ref := (decRef cell.kind cell.ref).1 } rest st = s2 at hH hm hS ⊢
          refine ⟨?_, by omega, hS⟩
          unfold CellOK
          rw [hm]
          by_cases e : d = c
          · rw [if_pos e]
            have ok' := okd e
            subst e
            rw [hl]
            simp only
            rw [isP_ptr_self] at hH
            have hk : H s2 d = H s d - 1 := by omega
            rw [hk]
            exact RefOK_dec_alive _ _ _ ok' (by omega) hnd'
          · rw [if_neg e]
            rw [isP_ptr_ne c d e] at hH
            have hk : H s2 c = H s c := by omega
            rw [hk]
            exact ok
        · rename_i hdd
          have hdd' : (decRef cell.kind cell.ref).2 = true := by simpa using hdd
          split at h
          · cases h
          · split at h
            · cases h
            · simp only [pure, Except.pure] at h
              cases h
              have hH := H_upd s d cell { cell with ref := (decRef cell.kind cell.ref).1, live := false, items := [] }
                (cell.items.reverse ++ rest) (st.onFree cell.kind cell.items.length) c hd
              rw [ht, cnt_cons, cnt_append, cnt_reverse] at hH
              simp only [cnt_nil] at hH
              have hm := metaOf_upd s d { cell with ref := (decRef cell.kind cell.ref).1, live := false, items := [] }
                (cell.items.reverse ++ rest) (st.onFree cell.kind cell.items.length) c hlt
              have hS : StrCell s c → StrCell (s.upd d { cell with ref := (decRef cell.kind cell.ref).1, live := false, items := [] } (cell.items.reverse ++ rest) (st.onFree cell.kind cell.items.length)) c :=
                fun x => StrCell_upd s d cell _ _ _ c hd rfl x
              simp only at hm
              generalize s.upd d { cell with ref := (decRef cell.kind cell.ref).1, live := false, items := [] } (cell.items.reverse ++ rest) (st.onFree cell.kind cell.items.length) = s2 at hH hm hS ⊢
              refine ⟨?_, by omega, hS⟩
              unfold CellOK
              rw [hm]
              by_cases e : d = c
              · rw [if_pos e]
                have ok' := okd e
                subst e
                simp only
                rw [isP_ptr_self] at hH
                have hfit : cell.kind.isStr = false → H s d < 2 ^ W + 1 := by
                  intro hk
                  rcases hw with ⟨y, hy, hs⟩ | hw
                  · rw [hd] at hy; cases hy; rw [hk] at hs; cases hs
                  · exact hw
                have := RefOK_dec_dead _ _ _ ok' (by omega) hfit hdd'
                omega
              · rw [if_neg e]
                rw [isP_ptr_ne c d e] at hH
                have hk : H s2 c = H s c := by omega
                rw [hk]
                exact ok

/-- the holders of cell c fit its counter (strings saturate instead: no condition) -/
def FitsC (s : St) (c : Nat) : Prop := StrCell s c ∨ H s c < 2 ^ W + 1

theorem relLoop_ok : ∀ (f depth : Nat) (s s' : St) (c : Nat), relLoop f depth s = .ok s' → CellOK s c → FitsC s c →
    CellOK s' c ∧ H s' c ≤ H s c ∧ (StrCell s c → StrCell s' c) := by
  intro f
  induction f with
  | zero => intro depth s s' c h; simp [relLoop] at h
  | succ f ih =>
    intro depth s s' c h ok hw
    simp only [relLoop] at h
    split at h
    · simp only [pure, Except.pure] at h; cases h
      exact ⟨ok, Nat.le_refl _, fun x => x⟩
    · simp only [bind, Except.bind] at h
      split at h
      · cases h
      · rename_i s1 h1
        rcases rel1_ok s s1 c h1 ok hw with ⟨a, b, d⟩
        have hw1 : FitsC s1 c := by
          rcases hw with x | x
          · exact Or.inl (d x)
          · exact Or.inr (by omega)
        rcases ih depth s1 s' c h a hw1 with ⟨a', b', d'⟩
        exact ⟨a', by omega, fun x => d' (d x)⟩

theorem free_ok (s s' : St) (c : Nat) (h : mstep s .free = .ok s') (ok : CellOK s c) (hw : FitsC s c) :
    CellOK s' c := by
  simp only [mstep] at h
  split at h
  · cases h
  · exact (relLoop_ok _ _ s s' c h ok hw).1

/-- every micro-instruction keeps the invariant of every cell whose holders fit its counter -/
theorem mstep_ok (s s' : St) (i : Mi) (c : Nat) (h : mstep s i = .ok s') (ok : CellOK s c) (hw : FitsC s c) :
    CellOK s' c := by
  cases i with
  | take l => exact (take_ok s s' l c h ok).1
  | put l => exact (put_ok s s' l c h ok).1
  | dup l => exact (dup_ok s s' l c h ok).1
  | free => exact free_ok s s' c h ok hw
  | alloc k n vis text tag => exact alloc_ok s s' k n vis text tag c h ok
  | fillFrom d l => exact fillFrom_ok s s' d l c h ok
  | grow d => exact grow_ok s s' d c h ok
  | shrink d j => exact shrink_ok s s' d j c h ok
  | pushRoot => exact pushRoot_ok s s' c h ok
  | popRoot => exact popRoot_ok s s' c h ok
  | mark d => exact mark_ok s s' d c h ok
  | unlist d =>
    simp only [mstep, pure, Except.pure] at h; cases h
    exact CellOK_same s _ c rfl rfl rfl ok
  | share w => exact share_ok s s' w c h ok
  | allocd δ =>
    simp only [mstep, pure, Except.pure] at h; cases h
    exact CellOK_same s _ c rfl rfl rfl ok
  | distinct δ =>
    simp only [mstep, pure, Except.pure] at h; cases h
    exact CellOK_same s _ c rfl rfl rfl ok
  | swap => exact swap_ok s s' c h ok
  | inplace d =>
    simp only [mstep] at h
    split at h
    · cases h
    · split at h
      · cases h
      · simp only [pure, Except.pure] at h; cases h; exact ok
  | settext d w =>
    simp only [mstep] at h
    split at h
    · cases h
    · rename_i cell hd
      split at h
      · cases h
      · simp only [pure, Except.pure] at h
        cases h
        apply CellOK_congr s _ c _ _ ok
        · exact metaOf_setCell_same s d cell _ c hd rfl rfl rfl
        · have x := H_setCell s d cell { cell with text := w } c hd
          simp only at x
          omega

/-- the invariant of the whole state -/
def Inv (s : St) : Prop := ∀ c, CellOK s c

/-- every counted value has at most 2^W holders (the task's hypothesis `holders ≤ 2^W - 1` implies it) -/
def Fits (s : St) : Prop := ∀ c, FitsC s c

/-- `Fits` holds in every state a micro program passes through -/
def FitsAlong : St → List Mi → Prop
  | _, [] => True
  | s, i :: is => Fits s ∧ ∀ s1, mstep s i = .ok s1 → FitsAlong s1 is

theorem runMi_ok : ∀ (prog : List Mi) (s s' : St), runMi s prog = .ok s' → Inv s → FitsAlong s prog → Inv s' := by
  intro prog
  induction prog with
  | nil => intro s s' h inv _; simp only [runMi, pure, Except.pure] at h; cases h; exact inv
  | cons i is ih =>
    intro s s' h inv fit
    simp only [runMi, bind, Except.bind] at h
    split at h
    · cases h
    · rename_i s1 h1
      exact ih s1 s' h (fun c => mstep_ok s s1 i c h1 (inv c) (fit.1 c)) (fit.2 s1 h1)

theorem Inv_init : Inv St.init := by
  intro c
  match c with
  | 0 => unfold CellOK; show RefOK .prog 2 (H St.init 0); unfold RefOK; decide
  | 1 => unfold CellOK; show RefOK .prog 1 (H St.init 1); unfold RefOK; decide
  | 2 => unfold CellOK; show RefOK .prog 1 (H St.init 2); unfold RefOK; decide
  | 3 => unfold CellOK; show RefOK .prog 1 (H St.init 3); unfold RefOK; decide
  | c + 4 =>
    unfold CellOK
    have hm : metaOf St.init (c + 4) = none := by
      unfold metaOf St.init
      simp
    rw [hm]
    show H St.init (c + 4) = 0
    unfold H St.init heapCnt cnt cBase cProg cFProg cFBase
    simp [List.count_append, List.count_replicate]

end NV.C06
