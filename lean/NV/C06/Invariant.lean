/-
C06 — the invariant "counter = number of holders" is preserved by every operation (lifting of the
micro-instruction lemmas of NV/C06/Lemmas.lean to sweeps, operations and histories).
-/
import NV.C06.Lemmas

namespace NV.C06

/-- `Fits` in every state of a call_out sweep -/
def FitsSweep : St → List Nat → Prop
  | _, [] => True
  | s, k :: ks => FitsAlong s (fireProg s k) ∧ ∀ s1, runMi s (fireProg s k) = .ok s1 → FitsSweep s1 ks

/-- `Fits` in every state one operation passes through -/
def FitsOp (s : St) (op : Op) : Prop :=
  FitsSweep s (sweepOrder s) ∧ ∀ prog, compile s op = some prog → FitsAlong s prog

/-- `Fits` in every state of a history -/
def FitsRun : St → List Op → Prop
  | _, [] => True
  | s, op :: ops => FitsOp s op ∧ ∀ s1, (step s op = .ok s1 → FitsRun s1 ops) ∧ (step s op = .skip → FitsRun s ops)

theorem sweepFrom_ok : ∀ (ks : List Nat) (s s' : St), sweepFrom s ks = .ok s' → Inv s → FitsSweep s ks → Inv s' := by
  intro ks
  induction ks with
  | nil => intro s s' h inv _; simp only [sweepFrom, pure, Except.pure] at h; cases h; exact inv
  | cons k ks ih =>
    intro s s' h inv fit
    simp only [sweepFrom, bind, Except.bind] at h
    split at h
    · cases h
    · rename_i s1 h1
      exact ih s1 s' h (runMi_ok _ s s1 h1 inv fit.1) (fit.2 s1 h1)

theorem step_ok (s s' : St) (op : Op) (h : step s op = .ok s') (inv : Inv s) (fit : FitsOp s op) : Inv s' := by
  have gen : ∀ (r : Option (List Mi)), compile s op = r →
      (match r with
        | none => Res.skip
        | some prog => match runMi s prog with
          | .ok s' => Res.ok s'
          | .error e => Res.fail e) = Res.ok s' → Inv s' := by
    intro r hr hres
    cases r with
    | none => cases hres
    | some prog =>
      simp only at hres
      split at hres
      · rename_i s2 h2
        cases hres
        exact runMi_ok prog s _ h2 inv (fit.2 prog hr)
      · cases hres
  cases op <;> first
    | exact gen _ rfl h
    | (simp only [step] at h
       first
         | (cases h; exact inv)
         | (split at h
            · rename_i s2 h2; cases h; exact sweepFrom_ok _ s _ h2 inv fit.1
            · cases h))

theorem run_ok : ∀ (ops : List Op) (s s' : St), run s ops = .ok s' → Inv s → FitsRun s ops → Inv s' := by
  intro ops
  induction ops with
  | nil => intro s s' h inv _; simp only [run, pure, Except.pure] at h; cases h; exact inv
  | cons op ops ih =>
    intro s s' h inv fit
    simp only [run] at h
    split at h
    · rename_i s1 h1
      exact ih s1 s' h (step_ok s s1 op h1 inv fit.1) ((fit.2 s1).1 h1)
    · rename_i h1
      exact ih s s' h inv ((fit.2 s).2 h1)
    · cases h
theorem cnt_le_length (c : Nat) (l : List Val) : cnt c l ≤ l.length := List.count_le_length

theorem heapCnt_le (c : Nat) (h : List Cell) : heapCnt c h ≤ (h.map (fun d => d.items.length)).sum := by
  induction h with
  | nil => simp [heapCnt]
  | cons a t ih =>
    rw [heapCnt_cons]
    simp only [List.map_cons, List.sum_cons]
    have := cnt_le_length c a.items
    omega

/-- a tangible sufficient condition for `Fits`: the state has at most 2^W value slots altogether (variables, stack
    slots, values in transit, container items) -/
theorem Fits_of_size (s : St) (h : s.roots.length + s.size ≤ 2 ^ W) : Fits s := by
  intro c
  right
  have a := cnt_le_length c s.roots
  have b := cnt_le_length c s.temps
  have d := heapCnt_le c s.heap
  unfold St.size at h
  unfold H
  omega

end NV.C06
