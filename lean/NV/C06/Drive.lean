/-
C06 driver: parses the case lines that the harness executes against the real driver and runs the model
(`model` mode) or the specification oracle on an implementation trace (`judge` mode).

Case lines (shared with harness/c06/c06.c and harness/mudlib/c06/main.c):
  mode unit|lpc
  newarr s n | newmap s | newcls s | newbuf s n | newstr s w | newmstr s w | newfun s o t | fill d n t
  assign d s | free s | aset s i t | aget d s i | mset s k t | mdel s k
  push s | pushr s | pop | popto d                                  (unit mode only)
  newobj o | setvar o i s | getvar d o i | oref d o | dest o | cleanup | drop o
  call k o st s t | rmcall k | sweep | sent k o s t | rmsent k | inp o s t | input
  err s t | efun f s t | srange d i j w                              (lpc mode only)
  sappend d w | sjoin d t | sadd d s w | schar d i c                (strings are values: v[d] += "w" ...)

Output, one line per operation:  `ok r:<ref of every visible cell, x = freed> st:<counters>` | `skip` |
`uaf` / `fatal` / ... (the case stops there).
-/
import NV.Common.Proto
import NV.C06.Model
import NV.C06.Spec

namespace NV.C06

open NV.Proto

def parseOp (line : String) : Option Op :=
  let n? (s : String) : Option Nat := s.toNat?
  match toks line with
  | ["newarr", a, b] => do some (.newarr (← n? a) (← n? b))
  | ["newmap", a] => do some (.newmap (← n? a))
  | ["newcls", a] => do some (.newcls (← n? a))
  | ["newbuf", a, b] => do some (.newbuf (← n? a) (← n? b))
  | ["newstr", a, w] => do some (.newstr (← n? a) w)
  | ["newmstr", a, w] => do some (.newmstr (← n? a) w)
  | ["newfun", a, b, c] => do some (.newfun (← n? a) (← n? b) (← n? c))
  | ["newffun", a, b, c] => do some (.newffun (← n? a) (← n? b) (← n? c))
  | ["fill", a, b, c] => do some (.fill (← n? a) (← n? b) (← n? c))
  | ["assign", a, b] => do some (.assign (← n? a) (← n? b))
  | ["free", a] => do some (.free (← n? a))
  | ["aset", a, b, c] => do some (.aset (← n? a) (← n? b) (← n? c))
  | ["aget", a, b, c] => do some (.aget (← n? a) (← n? b) (← n? c))
  | ["mset", a, b, c] => do some (.mset (← n? a) (← n? b) (← n? c))
  | ["mdel", a, b] => do some (.mdel (← n? a) (← n? b))
  | ["push", a] => do some (.push (← n? a))
  | ["pushr", a] => do some (.pushr (← n? a))
  | ["pop"] => some .pop
  | ["popto", a] => do some (.popto (← n? a))
  | ["newobj", a] => do some (.newobj (← n? a))
  | ["setvar", a, b, c] => do some (.setvar (← n? a) (← n? b) (← n? c))
  | ["getvar", a, b, c] => do some (.getvar (← n? a) (← n? b) (← n? c))
  | ["oref", a, b] => do some (.oref (← n? a) (← n? b))
  | ["dest", a] => do some (.dest (← n? a))
  | ["cleanup"] => some .cleanup
  | ["drop", a] => do some (.drop (← n? a))
  | ["call", a, b, c, d, e] => do some (.call (← n? a) (← n? b) (← n? c) (← n? d) (← n? e))
  | ["rmcall", a] => do some (.rmcall (← n? a))
  | ["sweep"] => some .sweep
  | ["rmcalln", a] => do some (.rmcalln (← n? a))
  | ["rmall", a] => do some (.rmall (← n? a))
  | ["sent", a, b, c, d] => do some (.sent (← n? a) (← n? b) (← n? c) (← n? d))
  | ["rmsent", a] => do some (.rmsent (← n? a))
  | ["err", a, b] => do some (.err (← n? a) (← n? b))
  | ["efun", a, b, c] => do some (.efun (← n? a) (← n? b) (← n? c))
  | ["sappend", a, w] => do some (.sappend (← n? a) w)
  | ["sjoin", a, b] => do some (.sjoin (← n? a) (← n? b))
  | ["sadd", a, b, w] => do some (.sadd (← n? a) (← n? b) w)
  | ["saddl", a, b, w] => do some (.saddl (← n? a) (← n? b) w)
  | ["sadd2", a, b, c] => do some (.sadd2 (← n? a) (← n? b) (← n? c))
  | ["schar", a, b, w] => do some (.schar (← n? a) (← n? b) w)
  | ["srange", a, b, c, w] => do some (.srange (← n? a) (← n? b) (← n? c) w)
  | ["inp", a, b, c] => do some (.inp (← n? a) (← n? b) (← n? c))
  | ["input"] => some .input
  | ["reclaim"] => some .reclaim
  | ["arange", a, b, c, d, e, f] => do some (.arange (← n? a) (← n? b) (← n? c) (← n? d) (← n? e) (← n? f))
  | ["arangev", a, b, c, d, e] => do some (.arangev (← n? a) (← n? b) (← n? c) (← n? d) (← n? e))
  | ["brange", a, b, c, d] => do some (.brange (← n? a) (← n? b) (← n? c) (← n? d))
  | ["reclaimu"] => some .reclaimu
  | ["inpr", a, b, c] => do some (.inpr (← n? a) (← n? b) (← n? c))
  | ["rest", w] => some (.rest w)
  | ["resto", w] => some (.resto w)
  | ["clones", a] => do some (.clones (← n? a))
  | ["unclone", a] => do some (.unclone (← n? a))
  | ["unload", a] => do some (.unload (← n? a))
  | ["newobjr", a, b] => do some (.newobjr (← n? a) (← n? b))
  | ["replace", a, b] => do some (.replace (← n? a) (← n? b))
  | ["fefun", a, b, c, d] => do some (.fefun (← n? a) (← n? b) (← n? c) (← n? d))
  | ["frest", w, d] => do some (.frest w (← n? d))
  | _ => none

structure Parsed where
  lpc : Bool := false
  ops : List Op := []
  bad : List String := []

def parseCase (lines : List String) : Parsed :=
  let p := lines.foldl (fun (p : Parsed) line =>
    match toks line with
    | [] => p
    | ["mode", "lpc"] => { p with lpc := true }
    | ["mode", "unit"] => { p with lpc := false }
    | _ =>
      if line.startsWith "#" then p
      else match parseOp line with
        | some op => { p with ops := op :: p.ops }
        | none => { p with bad := line :: p.bad }) {}
  { p with ops := p.ops.reverse, bad := p.bad.reverse }

/-- operations that exist only in one of the two harness styles are skipped by the other -/
def unitOnly : Op → Bool
  | .push _ => true
  | .pushr _ => true
  | .pop => true
  | .popto _ => true
  | .oref _ _ => true
  | .newstr _ _ => true
  | .clones _ => true
  | .unclone _ => true
  | .unload _ => true
  | .reclaimu => true
  | _ => false

def lpcOnly : Op → Bool
  | .err _ _ => true
  | .efun _ _ _ => true
  | .rest _ => true
  | .resto _ => true
  | .srange _ _ _ _ => true
  | .fefun _ _ _ _ => true
  | .frest _ _ => true
  | .reclaim => true
  | .newffun _ _ _ => true
  | .arange _ _ _ _ _ _ => true
  | .arangev _ _ _ _ _ => true
  | .brange _ _ _ _ => true
  | _ => false

def renderRefs (h : List Cell) : String :=
  ",".intercalate ((h.filter (·.vis)).map (fun c => if c.live then toString c.ref else "x"))

/-- `allocd_strings` is also moved by the apply cache (cached function names keep a string reference), so it is
    compared only until the first apply() of the case (clone / call_out sweep / anything in lpc mode) -/
def renderStats (noAllocd : Bool) (st : Stats) : String :=
  let strs := if noAllocd then s!"{st.distinctStrings},-" else s!"{st.distinctStrings},{st.allocdStrings}"
  s!"{st.numArrays},{st.arrayBytes},{st.numMappings},{st.mapNodes},{strs},{st.objects}"

/-! ### programs

`program_t.ref` (reference_prog / free_prog of lib/lpc/program.c) is part of the heap model: cells `cBase` and `cProg`
of kind `.prog` (the program of /c06/base and of /c06/uobj, which inherits it).  Holders: the blueprint objects, every
object structure of a clone (`ob->prog`, item nVars of an object cell; the anonymous clones of `clones n` are kept in
packs), the inherit table of an inheriting program.  The trace column `p:<uobj>/<base>` prints both counters. -/

def progField (s : St) (c : Nat) : String :=
  match s.heap[c]? with
  | some cell => if cell.live then toString cell.ref else "x"
  | none => "?"

/-- func_ref of a program: the counter of its func_ref cell minus the permanent holder -/
def funcField (s : St) (c pc : Nat) : String :=
  -- the program structure is gone (unit mode: no function pointers exist there)
  if progField s pc == "x" then "x"
  else match s.heap[c]? with
    | some cell => if cell.live then toString (cell.ref - 1) else "x"
    | none => "?"

def progFreed (s : St) : Bool :=
  match s.heap[cProg]? with
  | some cell => !cell.live
  | none => true

/-- references held on the function-name strings of the harness object ("cb", "cbs<k>", "act"): one per pending
    call_out (pending_call_t.function.s) and one per add_action sentence (sentence_t.function.s) -/
def nameRefs (s : St) : Nat :=
  ((List.range nCalls).filter (fun k => !isNumRoot s (rCall k))).length +
  ((List.range nSents).filter (fun k => !isNumRoot s (rSent k))).length

/-- the text every variable sees (value-level observation): `-` = not a string -/
def renderTexts (s : St) : String :=
  ",".intercalate ((List.range nSlots).map (fun i => match strSlot s i with
    | some (_, cell) => cell.text
    | none => "-"))

def renderState (noAllocd : Bool) (s : St) : String :=
  let st := { s.stats with objects := s.stats.objects + anonCount s - unloadedCount s }
  -- deallocate_program also releases the strings of the program: the string columns are meaningless afterwards
  let sts := if progFreed s then
      s!"{st.numArrays},{st.arrayBytes},{st.numMappings},{st.mapNodes},-,-,{st.objects}"
    else renderStats noAllocd st
  let fr := if progFreed s then "-" else toString (nameRefs s)
  s!"ok r:{renderRefs s.heap} st:{sts} p:{progField s cProg}.{funcField s cFProg cProg}/{progField s cBase}.{funcField s cFBase cBase} f:{fr} t:{renderTexts s}"

def applies : Op → Bool
  | .newobj _ => true
  | .newobjr _ _ => true
  | .replace _ _ => true
  | .sweep => true
  | .clones _ => true
  | .input => true
  | _ => false

def runLines (lpc : Bool) : Bool → St → List Op → List String → List String
  | _, _, [], acc => acc.reverse
  | na, s, op :: ops, acc =>
    if (lpc && unitOnly op) || (!lpc && lpcOnly op) then runLines lpc na s ops ("skip" :: acc)
    else
      match step s op with
      | .ok s' =>
        let na := na || applies op
        runLines lpc na s' ops (renderState na s' :: acc)
      | .skip => runLines lpc na s ops ("skip" :: acc)
      | .fail e => (e.name :: acc).reverse

def runModel (lines : List String) : List String :=
  let p := parseCase lines
  if !p.bad.isEmpty then p.bad.map (fun l => s!"bad-line {l}")
  else runLines p.lpc p.lpc St.init p.ops []

def runJudge (body : List String) : List String :=
  let (input, impl) := splitJudge body
  let p := parseCase input
  if !p.bad.isEmpty then p.bad.map (fun l => s!"bad bad-line {l}")
  else
    let ops := p.ops.map (fun op => if (p.lpc && unitOnly op) || (!p.lpc && lpcOnly op) then none else some op)
    match judge p.lpc ops impl with
    | [] => ["ok"]
    | vs => vs.map (fun v => s!"bad {v}")

def main (mode : String) : IO Unit :=
  match mode with
  | "model" => serve runModel
  | "judge" => serve runJudge
  | _ => IO.eprintln s!"C06: unknown mode {mode}"

end NV.C06
