/-
C06 — Lean-checked witnesses: where the full statements stop being true.
-/
import NV.C06.Invariant
import NV.C06.Counters
import NV.C06.Drive

namespace NV.C06

/-- **wrap_uaf** (at every width W): a value with 2^W + 1 holders has the counter of a value with one holder, and
    the next release deallocates it while 2^W holders still refer to it — the hypothesis `FitsRun` of
    `ref_eq_holders` / `no_free_while_held` cannot be weakened.  With the 16-bit counters the driver had until
    the repair (repo commit "fix: reference counters ... were 16 bits wide") this state is reached by five
    14 000-element arrays holding one array (corpus/C06/wrap-array-*.case); with 32-bit counters it needs
    2^32 + 1 references, i.e. more than 64 GiB of svalues. -/
theorem wrap_uaf :
    incRef .arr 1 (2 ^ W) = 1 ∧ (decRef .arr (incRef .arr 1 (2 ^ W))).2 = true ∧
    ¬ (2 ^ W + 1 - 1 = 0) := by
  have hp := two_pow_W_pos
  have h1 : incRef .arr 1 (2 ^ W) = 1 := by
    unfold incRef
    simp only [Kind.isStr, Bool.false_eq_true, if_false]
    rw [Nat.add_mod_right, Nat.mod_eq_of_lt one_lt_two_pow_W]
  refine ⟨h1, ?_, by omega⟩
  rw [h1]
  unfold decRef
  simp only [Kind.isStr, Bool.false_eq_true, if_false]
  rw [show 1 + 2 ^ W - 1 = 2 ^ W by omega, Nat.mod_self]
  rfl

/-- the same on a heap: one array with counter 1 to which 2^W + 1 values point (2^W roots and the value being
    released).  The state satisfies the invariant; `free_svalue` of the one value deallocates the array, and the
    result violates it: a freed cell with 2^W holders. -/
theorem wrap_uaf_state :
    let s : St := { heap := [{ kind := .arr, ref := 1, live := true, items := [] }],
                    roots := List.replicate (2 ^ W) (.ptr 0), temps := [.ptr 0] }
    CellOK s 0 ∧
    (∃ s', mstep s .free = .ok s' ∧ (∃ cell, s'.heap[0]? = some cell ∧ cell.live = false) ∧ s'.roots = s.roots) := by
  intro s
  have hp := two_pow_W_pos
  constructor
  · have hH : H s 0 = 2 ^ W + 1 := by
      show cnt 0 (List.replicate (2 ^ W) (.ptr 0)) + cnt 0 [.ptr 0] + heapCnt 0 [_] = _
      rw [cnt_replicate, isP_ptr_self, cnt_cons, cnt_nil, isP_ptr_self]
      simp [heapCnt, cnt_nil]
    unfold CellOK
    show RefOK .arr 1 (H s 0)
    rw [hH]
    unfold RefOK
    simp only [Kind.isStr, Bool.false_eq_true, if_false]
    refine ⟨?_, fun h => by omega⟩
    rw [Nat.add_comm, Nat.add_mod_right, Nat.mod_eq_of_lt one_lt_two_pow_W]
  · exact ⟨_, rfl, ⟨_, rfl, rfl⟩, rfl⟩

/-- **cycle_leaks.**  `a = allocate(2); a[0] = a; a = 0;` — no variable refers to the array any more, but it
    holds itself: `H = 1`, it is never deallocated and num_arrays stays one above the baseline.  Reference counting
    as coded guarantees `balanced_history_returns_to_baseline` only when the holders are really all released;
    values that hold each other never are (the driver has no cycle collector: open known finding `cyclic-garbage`). -/
theorem cycle_leaks :
    ∃ s, run St.init [.newarr 0 2, .aset 0 0 0, .free 0] = .ok s ∧ (s.roots.take nSlots).all Val.isNum = true ∧
      H s c0 = 1 ∧ s.stats.numArrays = 1 ∧ (∃ cell, s.heap[c0]? = some cell ∧ cell.live = true ∧ cell.ref = 1) := by
  refine ⟨_, rfl, ?_, ?_, ?_, ⟨_, rfl, rfl, rfl⟩⟩ <;> decide

/-- the cycle object → mapping → function pointer → object is cut by destruct2 (it releases the variables of a
    destructed object): this one does return to the baseline -/
theorem object_cycle_cut_by_destruct :
    ∃ s, run St.init [.newobj 0, .newmap 1, .setvar 0 0 1, .newfun 2 0 3, .mset 1 3 2, .free 1, .free 2,
                      .dest 0, .cleanup, .drop 0] = .ok s ∧
      s.stats.numArrays = 0 ∧ s.stats.numMappings = 0 ∧ s.stats.objects = 0 := by
  refine ⟨_, rfl, ?_, ?_, ?_⟩ <;> decide

/-- **prog_wrap_uaf** (known finding `program-ref-wrap`, repaired by repo commit 0280873): why the width of
    `program_t.ref` matters.  At the width it had (16 bits) the blueprint plus 2^16 clones wrap the counter back to 1;
    the first free_prog (one clone destructed) deallocates the program although 2^16 holders remain.  The same
    arithmetic at any width w: `prog_widths_agree` + `FitsRun` exclude it for the counters as they are now. -/
theorem prog_wrap_uaf (w : Nat) (hw : 0 < w) :
    (1 + 2 ^ w) % 2 ^ w = 1 ∧ ((1 + 2 ^ w) % 2 ^ w + 2 ^ w - 1) % 2 ^ w = 0 := by
  have h1 : 1 < 2 ^ w := Nat.one_lt_two_pow (by omega)
  have e : (1 + 2 ^ w) % 2 ^ w = 1 := by rw [Nat.add_mod_right, Nat.mod_eq_of_lt h1]
  refine ⟨e, ?_⟩
  rw [e, show 1 + 2 ^ w - 1 = 2 ^ w by omega, Nat.mod_self]

end NV.C06
