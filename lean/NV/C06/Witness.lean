import NV.C06.Model
namespace NV.C06
end NV.C06
