/-
C06 — towards `judge (model trace) = []`: the per-value clauses of the specification oracle hold on the model's
own states.

The oracle (Spec.lean) counts `holders s c`: pointers to c in roots, values in transit and the items of EXISTING
containers, and compares the printed counter with it (`ref-mismatch`), a printed `x` with "holders = 0"
(`freed-while-held`), a printed counter of a value without holders (`leak cell=`).  The proofs of Props.lean count
`H s c` over all cells.  `DeadEmpty` (a deallocated cell keeps no items: dealloc_* releases them) is an invariant of
every history, hence `holders = H`, and the three clauses follow from the counting invariant.
-/
import NV.C06.Invariant
import NV.C06.Spec

namespace NV.C06

/-- a deallocated cell keeps no items and its counter is 0 (dealloc_* releases the items; the counter reached 0) -/
def DeadEmpty (s : St) : Prop := ∀ d ∈ s.heap, d.live = false → d.items = [] ∧ d.ref = 0

theorem DE_heap_eq (s s' : St) (e : s'.heap = s.heap) (h : DeadEmpty s) : DeadEmpty s' := by
  unfold DeadEmpty; rw [e]; exact h

theorem DE_set (s : St) (h' : List Cell) (c : Nat) (x : Cell) (e : h' = s.heap.set c x) (h : DeadEmpty s)
    (hx : x.live = false → x.items = [] ∧ x.ref = 0) : DeadEmpty { s with heap := h' } := by
  intro d hd
  simp only at hd
  rw [e] at hd
  rcases List.mem_or_eq_of_mem_set hd with hm | he
  · exact h d hm
  · rw [he]; exact hx

theorem DE_setCell (s : St) (c : Nat) (x : Cell) (h : DeadEmpty s) (hx : x.live = false → x.items = [] ∧ x.ref = 0) :
    DeadEmpty (s.setCell c x) := DE_set s _ c x rfl h hx

theorem DE_append (s : St) (h' : List Cell) (x : Cell) (e : h' = s.heap ++ [x]) (h : DeadEmpty s)
    (hx : x.live = true) : ∀ d ∈ h', d.live = false → d.items = [] ∧ d.ref = 0 := by
  intro d hd hl
  rw [e] at hd
  rcases List.mem_append.mp hd with hm | hm
  · exact h d hm hl
  · simp at hm; rw [hm, hx] at hl; cases hl

theorem writeLoc_DE (s s' : St) (l : Loc) (v : Val) (h : writeLoc s l v = .ok s') (de : DeadEmpty s) : DeadEmpty s' := by
  cases l with
  | root i =>
    simp only [writeLoc] at h
    split at h
    · cases h; exact DE_heap_eq s _ rfl de
    · cases h
  | item d j =>
    simp only [writeLoc] at h
    split at h
    · cases h
    · rename_i cell hd
      split at h
      · cases h
      · rename_i hlive
        split at h
        · cases h
          apply DE_setCell s d _ de
          intro hl
          simp at hlive
          simp only at hl
          rw [hlive] at hl; cases hl
        · cases h

theorem incVal_DE (s s' : St) (v : Val) (n : Nat) (h : incVal s v n = .ok s') (de : DeadEmpty s) : DeadEmpty s' := by
  cases v with
  | num k => rw [incVal_num s s' k n h]; exact de
  | ptr d =>
    rcases incVal_ptr s s' d n h with ⟨cell, _, hl, e⟩
    rw [e]
    apply DE_setCell s d _ de
    intro hl'
    simp only at hl'
    rw [hl] at hl'; cases hl'

theorem rel1_DE (s s' : St) (h : rel1 s = .ok s') (de : DeadEmpty s) : DeadEmpty s' := by
  unfold rel1 at h
  split at h
  · cases h
  · cases h; exact DE_heap_eq s _ rfl de
  · rename_i c rest _
    split at h
    · cases h
    · rename_i cell hd
      split at h
      · cases h
      · rename_i hlive
        simp only at h
        split at h
        · cases h
          unfold St.upd
          apply DE_set s _ c _ rfl de
          intro hl
          simp at hlive
          simp only at hl
          rw [hlive] at hl; cases hl
        · split at h
          · cases h
          · split at h
            · cases h
            · cases h
              unfold St.upd
              rename_i hdd _ _
              apply DE_set s _ c _ rfl de
              intro _
              refine ⟨rfl, ?_⟩
              have hd2 : (decRef cell.kind cell.ref).2 = true := by simpa using hdd
              show (decRef cell.kind cell.ref).1 = 0
              unfold decRef at hd2 ⊢
              split
              · rename_i hk
                rw [if_pos hk] at hd2
                split
                · rfl
                · rename_i h0
                  rw [if_neg h0] at hd2
                  simpa using hd2
              · rename_i hk
                rw [if_neg hk] at hd2
                simpa using hd2

theorem relLoop_DE : ∀ (f depth : Nat) (s s' : St), relLoop f depth s = .ok s' → DeadEmpty s → DeadEmpty s' := by
  intro f
  induction f with
  | zero => intro depth s s' h; simp [relLoop] at h
  | succ f ih =>
    intro depth s s' h de
    simp only [relLoop] at h
    split at h
    · simp only [pure, Except.pure] at h; cases h; exact de
    · simp only [bind, Except.bind] at h
      split at h
      · cases h
      · rename_i s1 h1
        exact ih depth s1 s' h (rel1_DE s s1 h1 de)

theorem mstep_DE (s s' : St) (i : Mi) (h : mstep s i = .ok s') (de : DeadEmpty s) : DeadEmpty s' := by
  cases i with
  | take l =>
    simp only [mstep, bind, Except.bind] at h
    split at h
    · cases h
    · split at h
      · cases h
      · rename_i s1 h1
        simp only [pure, Except.pure] at h
        cases h
        exact DE_heap_eq s1 _ rfl (writeLoc_DE s s1 l _ h1 de)
  | put l =>
    simp only [mstep] at h
    split at h
    · cases h
    · simp only [bind, Except.bind] at h
      split at h
      · cases h
      · split at h
        · cases h
        · split at h
          · cases h
          · rename_i s1 h1
            simp only [pure, Except.pure] at h
            cases h
            exact DE_heap_eq s1 _ rfl (writeLoc_DE s s1 l _ h1 de)
  | dup l =>
    simp only [mstep, bind, Except.bind] at h
    split at h
    · cases h
    · split at h
      · cases h
      · rename_i s1 h1
        simp only [pure, Except.pure] at h
        cases h
        exact DE_heap_eq s1 _ rfl (incVal_DE s s1 _ 1 h1 de)
  | free =>
    simp only [mstep] at h
    split at h
    · cases h
    · exact relLoop_DE _ _ s s' h de
  | alloc k n vis text tag =>
    simp only [mstep, pure, Except.pure] at h
    cases h
    exact DE_append s _ _ rfl de rfl
  | fillFrom d l =>
    simp only [mstep, bind, Except.bind] at h
    split at h
    · cases h
    · split at h
      · cases h
      · rename_i cell hd
        split at h
        · cases h
        · rename_i hlive
          split at h
          · cases h
          · apply incVal_DE _ s' _ _ h
            apply DE_setCell s d _ de
            intro hl
            simp at hlive
            simp only at hl
            rw [hlive] at hl; cases hl
  | grow d =>
    simp only [mstep] at h
    split at h
    · cases h
    · rename_i cell hd
      split at h
      · cases h
      · rename_i hlive
        simp only [pure, Except.pure] at h
        cases h
        apply DE_heap_eq (s.setCell d { cell with items := cell.items ++ [.num 0, .num 0] }) _ rfl
        apply DE_setCell s d _ de
        intro hl
        simp at hlive
        simp only at hl
        rw [hlive.1] at hl; cases hl
  | shrink d j =>
    simp only [mstep] at h
    split at h
    · cases h
    · rename_i cell hd
      split at h
      · cases h
      · rename_i hlive
        split at h
        · simp only [pure, Except.pure] at h
          cases h
          apply DE_heap_eq (s.setCell d { cell with items := (cell.items.eraseIdx (2 * j + 1)).eraseIdx (2 * j) }) _ rfl
          apply DE_setCell s d _ de
          intro hl
          simp at hlive
          simp only at hl
          rw [hlive.1] at hl; cases hl
        · cases h
  | pushRoot => simp only [mstep, pure, Except.pure] at h; cases h; exact DE_heap_eq s _ rfl de
  | popRoot =>
    simp only [mstep] at h
    split at h
    · simp only [pure, Except.pure] at h; cases h; exact DE_heap_eq s _ rfl de
    · cases h
  | mark d =>
    simp only [mstep] at h
    split at h
    · cases h
    · rename_i cell hd
      split at h
      · cases h
      · rename_i hlive
        simp only [pure, Except.pure] at h
        cases h
        apply DE_heap_eq (s.setCell d { cell with destructed := true }) _ rfl
        apply DE_setCell s d _ de
        intro hl
        simp at hlive
        simp only at hl
        rw [hlive] at hl; cases hl
  | unlist d => simp only [mstep, pure, Except.pure] at h; cases h; exact DE_heap_eq s _ rfl de
  | share w =>
    simp only [mstep] at h
    split at h
    · simp only [bind, Except.bind] at h
      split at h
      · cases h
      · rename_i s1 h1
        simp only [pure, Except.pure] at h
        cases h
        exact DE_heap_eq s1 _ rfl (incVal_DE s s1 _ 1 h1 de)
    · simp only [pure, Except.pure] at h
      cases h
      exact DE_append s _ _ rfl de rfl
  | allocd δ => simp only [mstep, pure, Except.pure] at h; cases h; exact DE_heap_eq s _ rfl de
  | distinct δ => simp only [mstep, pure, Except.pure] at h; cases h; exact DE_heap_eq s _ rfl de
  | swap =>
    simp only [mstep] at h
    split at h
    · simp only [pure, Except.pure] at h; cases h; exact DE_heap_eq s _ rfl de
    · cases h
  | inplace c =>
    simp only [mstep] at h
    split at h
    · cases h
    · split at h
      · cases h
      · simp only [pure, Except.pure] at h; cases h; exact de
  | settext c w =>
    simp only [mstep] at h
    split at h
    · cases h
    · rename_i cell hd
      split at h
      · cases h
      · rename_i hlive
        simp only [pure, Except.pure] at h
        cases h
        apply DE_setCell s c _ de
        intro hl
        simp at hlive
        simp only at hl
        rw [hlive] at hl; cases hl

theorem runMi_DE : ∀ (prog : List Mi) (s s' : St), runMi s prog = .ok s' → DeadEmpty s → DeadEmpty s' := by
  intro prog
  induction prog with
  | nil => intro s s' h de; simp only [runMi, pure, Except.pure] at h; cases h; exact de
  | cons i is ih =>
    intro s s' h de
    simp only [runMi, bind, Except.bind] at h
    split at h
    · cases h
    · rename_i s1 h1
      exact ih s1 s' h (mstep_DE s s1 i h1 de)

theorem sweepFrom_DE : ∀ (ks : List Nat) (s s' : St), sweepFrom s ks = .ok s' → DeadEmpty s → DeadEmpty s' := by
  intro ks
  induction ks with
  | nil => intro s s' h de; simp only [sweepFrom, pure, Except.pure] at h; cases h; exact de
  | cons k ks ih =>
    intro s s' h de
    simp only [sweepFrom, bind, Except.bind] at h
    split at h
    · cases h
    · rename_i s1 h1
      exact ih s1 s' h (runMi_DE _ s s1 h1 de)

theorem step_DE (s s' : St) (op : Op) (h : step s op = .ok s') (de : DeadEmpty s) : DeadEmpty s' := by
  have gen : ∀ (r : Option (List Mi)), compile s op = r →
      (match r with
        | none => Res.skip
        | some prog => match runMi s prog with
          | .ok s' => Res.ok s'
          | .error e => Res.fail e) = Res.ok s' → DeadEmpty s' := by
    intro r _ hres
    cases r with
    | none => cases hres
    | some prog =>
      simp only at hres
      split at hres
      · rename_i s2 h2
        cases hres
        exact runMi_DE prog s _ h2 de
      · cases hres
  cases op <;> first
    | exact gen _ rfl h
    | (simp only [step] at h
       first
         | (cases h; exact de)
         | (split at h
            · rename_i s2 h2; cases h; exact sweepFrom_DE _ s _ h2 de
            · cases h))

theorem run_DE : ∀ (ops : List Op) (s s' : St), run s ops = .ok s' → DeadEmpty s → DeadEmpty s' := by
  intro ops
  induction ops with
  | nil => intro s s' h de; simp only [run, pure, Except.pure] at h; cases h; exact de
  | cons op ops ih =>
    intro s s' h de
    simp only [run] at h
    split at h
    · rename_i s1 h1
      exact ih s1 s' h (step_DE s s1 op h1 de)
    · exact ih s s' h de
    · cases h

theorem DE_init : DeadEmpty St.init := by
  intro d hd hl
  have all : St.init.heap.all (fun c => c.live) = true := by decide
  have := List.all_eq_true.mp all d hd
  rw [this] at hl
  cases hl

/-- the oracle's way of counting holders (items of existing containers only) and the proofs' way (all cells) agree -/
theorem holders_eq_H (s : St) (de : DeadEmpty s) (c : Nat) : holders s c = H s c := by
  unfold holders H cnt heapCnt
  congr 1
  congr 1
  apply List.map_congr_left
  intro d hd
  cases hl : d.live with
  | true => simp [cnt]
  | false => simp [(de d hd hl).1, cnt]


/-- **collect1_fixes_model_state.**  The oracle's declarative step "every existing value nobody refers to disappears,
    every counter is the number of holders" changes nothing on a state in which every live cell's counter is its
    (positive) oracle holder count and every deallocated cell has no holders: such a state is already a fixpoint. -/
theorem collect1_fix (s : St) (de : DeadEmpty s)
    (hlive : ∀ (c : Nat) (cell : Cell), s.heap[c]? = some cell → cell.live = true → cell.ref = holders s c ∧ 0 < holders s c)
    (hdead : ∀ (c : Nat) (cell : Cell), s.heap[c]? = some cell → cell.live = false → holders s c = 0) :
    collect1 s = (s, false) := by
  have key : ∀ (i : Nat) (hi : i < s.heap.length),
      (if (s.heap[i].live && holders s i == 0) = true then { s.heap[i] with live := false, items := [], ref := 0 }
       else { s.heap[i] with ref := holders s i }) = s.heap[i] ∧ (s.heap[i].live && holders s i == 0) = false := by
    intro i hi
    have hc : s.heap[i]? = some s.heap[i] := List.getElem?_eq_getElem hi
    cases hl : s.heap[i].live with
    | true =>
      have := hlive i _ hc hl
      have hne : (holders s i == 0) = false := by
        cases h0 : holders s i with
        | zero => omega
        | succ n => rfl
      simp only [hne, Bool.and_false, Bool.false_eq_true, if_false]
      refine ⟨?_, trivial⟩
      rw [← this.1]
    | false =>
      have h0 := hdead i _ hc hl
      have hr := (de _ (List.getElem_mem hi) hl).2
      simp only [Bool.false_and, Bool.false_eq_true, if_false]
      refine ⟨?_, trivial⟩
      rw [h0, ← hr]
  unfold collect1
  simp only
  congr 1
  · show { s with heap := _ } = s
    have : (List.map (fun x => if (x.1.live && x.2 == 0) = true then { x.1 with live := false, items := [], ref := 0 } else { x.1 with ref := x.2 })
        (s.heap.zip (List.map (holders s) (List.range s.heap.length)))) = s.heap := by
      apply List.ext_getElem
      · simp
      · intro i h1 h2
        simp only [List.getElem_map, List.getElem_zip, List.getElem_range]
        exact (key i h2).1
    rw [this]
  · rw [List.any_eq_false]
    intro x hx
    rcases List.getElem_of_mem hx with ⟨i, hi, e⟩
    subst e
    simp only [List.getElem_zip, List.getElem_map, List.getElem_range]
    have hi' : i < s.heap.length := by simpa using hi
    simpa using (key i hi').2

end NV.C06
