/-
C08 — executable model of the object registries of the neolith driver.

Mirrors, line by line:
  lib/lpc/otable.c   find_obj_n (move-to-front)      -> `lookupC`
                     enter_object_hash                -> `enterHash`   (silently refuses a name that is already present)
                     remove_object_hash               -> `removeHash`  (unconditional `obj_table[h] = ob->next_hash`)
  lib/lpc/object.c   set_living_name / remove_living_name / find_living_object -> `setLiving`, `findLivingC`
  src/simulate.c     load_object / find_or_load_object -> `Task.load`
                     clone_object                     -> `Task.clone`
                     move_object (cycle walk, unlink, link at head, init() fan-out with the saved `next_ob`
                                  cursor and the re-checks after every call)          -> `Task.move`, `Task.fan`
                     destruct_object (restrict_destruct, move_or_destruct loop, unlinking, deferred free)
                                                      -> `Task.destruct`, `Task.dloop`, `finishDestruct`
                     remove_destructed_objects        -> `gc`
  lib/efuns          enable_commands, find_object, find_living, environment, all_inventory, first/next_inventory,
                     objects(), livings()

Representation: every `object_t` ever allocated has an index (allocation order; 0 = simul_efun object, 1 = master).
`contains` is the inventory as a list in `next_inv` order; `next_inv` of an object is its successor in the
`contains` list of its `super` (0 when it has no environment).  Hash chains are lists in `next_hash` order.
A dereference of an object whose structure has been released (`freed`, set by `gc` = destruct2 in the worst case of no
other reference) is the explicit outcome `crash`; a walk of the `super` chain that does not end is `hang`.
Callbacks into LPC (create / init / move_or_destruct) are an oracle `Scripts` + fuel.
-/
import NV.Gen.C08

namespace NV.C08

/-! ## names and hashing -/

inductive Base where
  | bp (k : Nat)      -- "c08/b<k>"   (file exists, compiles)
  | ih (k : Nat)      -- "c08/i<k>"   (file exists: `inherit "/c08/b<k>";`)
  | master            -- "c08/master"
  | simul             -- "simul_efun"
  | nofile            -- "c08/nx"     (no such file: load returns 0)
  | badfile           -- "c08/bad"    (file does not compile: load raises an error)
  deriving DecidableEq, Repr

structure Name where
  base : Base
  num : Option Nat     -- `#<n>` suffix of clones (make_new_name)
  deriving DecidableEq, Repr

def Base.str : Base → String
  | .bp k => s!"c08/b{k}"
  | .ih k => s!"c08/i{k}"
  | .master => "c08/master"
  | .simul => "simul_efun"
  | .nofile => "c08/nx"
  | .badfile => "c08/bad"

def Name.str (n : Name) : String :=
  match n.num with
  | none => n.base.str
  | some k => s!"{n.base.str}#{k}"

/-- Pearson table of lib/misc/hash.c (regenerated from the source) -/
def T (i : Nat) : Nat := NV.Gen.C08.pearsonT.getD (i % 256) 0

/-- lib/misc/hash.c `whashstr(s, maxn)` -/
def whashstr (s : String) (maxn : Nat) : Nat :=
  match s.toUTF8.toList.map (·.toNat) with
  | [] => 0
  | c0 :: rest =>
    let step := fun (st : Nat × Nat) (c : Nat) => (T (st.1 ^^^ c), T (st.2 ^^^ c))
    let r := (rest.take (maxn - 1)).foldl step (T c0, (c0 + 1) % 256)
    r.1 * 256 + r.2

/-- size of the object name hash table (power of two; written into the harness config by the plugin) -/
abbrev otSize : Nat := NV.Gen.C08.otSize
/-- `__LIVING_HASH_TABLE_SIZE__` (lib/rc/rc.cpp) -/
abbrev lvSize : Nat := NV.Gen.C08.livingHashSize

/-- otable.c `ObjHash` -/
def hashN (n : Name) : Nat := whashstr n.str NV.Gen.C08.objHashPrefix &&& (otSize - 1)
/-- object.c `hash_living_name` -/
def lhash (s : String) : Nat := whashstr s NV.Gen.C08.livingHashPrefix % lvSize

/-! ## state -/

structure Obj where
  name : Name
  destructed : Bool := false      -- O_DESTRUCTED
  freed : Bool := false           -- structure released by destruct2/free_object (worst case)
  ec : Bool := false              -- O_ENABLE_COMMANDS
  clone : Bool := false           -- O_CLONE
  super : Option Nat := none
  contains : List Nat := []
  living : Option String := none  -- living_name
  sent : List (String × Nat) := [] -- sentences (verb, defining object) this object can use, newest first
  deriving Repr

/-- the structures of the driver -/
structure Core where
  n : Nat                         -- number of objects allocated so far
  objs : Nat → Obj
  ot : Nat → List Nat             -- obj_table[h] chains
  ol : List Nat                   -- obj_list (next_all order)
  dl : List Nat                   -- obj_list_destruct
  lv : Nat → List Nat             -- hashed_living[h] chains
  ctr : Nat                       -- static counter of make_new_name

def setObj (c : Core) (i : Nat) (o : Obj) : Core :=
  { c with objs := fun j => if j = i then o else c.objs j }

def setOt (c : Core) (h : Nat) (l : List Nat) : Core :=
  { c with ot := fun k => if k = h then l else c.ot k }

def setLv (c : Core) (h : Nat) (l : List Nat) : Core :=
  { c with lv := fun k => if k = h then l else c.lv k }

def live (c : Core) (i : Nat) : Prop := i < c.n ∧ (c.objs i).destructed = false

instance (c : Core) (i : Nat) : Decidable (live c i) := by unfold live; infer_instance

/-- some listed structure has been released: dereferencing it is a crash (conservative: the whole list) -/
def anyFreed (c : Core) (l : List Nat) : Bool := l.any (fun i => (c.objs i).freed)

/-! ## otable.c -/

/-- find_obj_n: first object of the chain carrying the name, moved to the front of its chain -/
def lookupC (c : Core) (nm : Name) : Core × Option Nat :=
  let h := hashN nm
  match (c.ot h).find? (fun i => decide ((c.objs i).name = nm)) with
  | none => (c, none)
  | some i => (setOt c h (i :: (c.ot h).erase i), some i)

/-- enter_object_hash: nothing happens when the name is already present -/
def enterHash (c : Core) (i : Nat) : Core :=
  let nm := (c.objs i).name
  let r := lookupC c nm
  match r.2 with
  | some _ => r.1
  | none => setOt r.1 (hashN nm) (i :: r.1.ot (hashN nm))

/-- `ob->next_hash`: the successors of `i` in its chain, `[]` (NULL) when it is in no chain -/
def nextHash (c : Core) (i : Nat) : List Nat :=
  let ch := c.ot (hashN (c.objs i).name)
  if i ∈ ch then (ch.dropWhile (· ≠ i)).drop 1 else []

/-- remove_object_hash: `find_obj_n` (cycles the name to the front), then `obj_table[h] = ob->next_hash`
    whatever was found -/
def removeHash (c : Core) (i : Nat) : Core :=
  let nm := (c.objs i).name
  let c1 := (lookupC c nm).1
  setOt c1 (hashN nm) (nextHash c1 i)

/-! ## living names (object.c) -/

def removeLiving (c : Core) (i : Nat) : Core :=
  match (c.objs i).living with
  | none => c
  | some s =>
    let c1 := setLv c (lhash s) ((c.lv (lhash s)).erase i)
    setObj c1 i { c1.objs i with living := none }

/-- set_living_name -/
def setLiving (c : Core) (i : Nat) (s : String) : Core :=
  if (c.objs i).destructed then c
  else
    let c1 := removeLiving c i
    let c2 := setLv c1 (lhash s) (i :: c1.lv (lhash s))
    setObj c2 i { c2.objs i with living := some s }

/-- find_living_object(str, 0): first command-enabled object of the chain with that living name, moved to front -/
def findLivingC (c : Core) (s : String) : Core × Option Nat :=
  let h := lhash s
  match (c.lv h).find? (fun i => (c.objs i).ec && decide ((c.objs i).living = some s)) with
  | none => (c, none)
  | some i => (setLv c h (i :: (c.lv h).erase i), some i)

/-! ## allocation, linking, destruction (straight-line blocks of simulate.c: no LPC code runs inside) -/

/-- get_empty_object + name + push on obj_list + enter_object_hash -/
def alloc (c : Core) (nm : Name) (isClone : Bool) : Core × Nat :=
  let i := c.n
  let c1 : Core := { c with n := c.n + 1,
                            objs := fun j => if j = i then { name := nm, clone := isClone } else c.objs j,
                            ol := i :: c.ol }
  (enterHash c1 i, i)

/-- move_object: unlink `item` from its old environment, link it at the head of `dest` -/
def relink (c : Core) (item dest : Nat) : Core :=
  let c1 := match (c.objs item).super with
    | none => c
    | some s => setObj c s { c.objs s with contains := (c.objs s).contains.filter (· ≠ item) }
  let c2 := setObj c1 item { c1.objs item with super := some dest }
  setObj c2 dest { c2.objs dest with contains := item :: (c2.objs dest).contains }

/-- destruct_object after the move_or_destruct loop: unlink from the environment, remove_object_hash, unlink from
    obj_list, remove_living_name, clear the links, push on obj_list_destruct, set O_DESTRUCTED -/
def finishDestruct (c : Core) (ob : Nat) : Core :=
  let c1 := match (c.objs ob).super with
    | none => c
    | some s => setObj c s { c.objs s with contains := (c.objs s).contains.filter (· ≠ ob) }
  let c2 := removeHash c1 ob
  let c3 : Core := { c2 with ol := c2.ol.erase ob }
  let c4 := removeLiving c3 ob
  let c5 := setObj c4 ob { c4.objs ob with ec := false, super := none, contains := [], destructed := true, sent := [] }
  { c5 with dl := ob :: c5.dl }

/-- remove_destructed_objects: destruct2 on every entry (worst case: no other reference, structure released) -/
def gc (c : Core) : Core :=
  { c with objs := fun i => if i ∈ c.dl then { c.objs i with freed := true } else c.objs i, dl := [] }

/-! ## sentences (add_action / remove_sent) -/

/-- rewrite the sentence lists only (`f` sees the object once: no re-evaluation of the state function) -/
def mapSent (c : Core) (f : Nat → Obj → List (String × Nat)) : Core :=
  { c with objs := fun i => let o := c.objs i; { o with sent := f i o } }

/-- remove_sent(ob, user) on the list of `user` -/
def rmSent (ob : Nat) (l : List (String × Nat)) : List (String × Nat) := l.filter (fun t => t.2 ≠ ob)

/-- move_object, before the unlinking: `item` loses the sentences of its old environment and of its old siblings (if it
    is command-enabled); the old environment and the command-enabled old siblings lose the sentences of `item` -/
def unsentMove (c : Core) (item : Nat) : Core :=
  match (c.objs item).super with
  | none => c
  | some s =>
    let sibs := (c.objs s).contains
    mapSent c fun u o =>
      if u = item then
        (if o.ec then o.sent.filter (fun t => t.2 ≠ s ∧ ¬ (t.2 ∈ sibs ∧ t.2 ≠ item)) else o.sent)
      else if (u = s ∨ u ∈ sibs) ∧ o.ec then rmSent item o.sent
      else o.sent

/-- destruct_object, unlink block: the environment and everything in it (command-enabled) lose the sentences of `ob` -/
def unsentDestruct (c : Core) (ob : Nat) : Core :=
  match (c.objs ob).super with
  | none => c
  | some s =>
    let sibs := (c.objs s).contains
    mapSent c fun u o => if (u = s ∨ u ∈ sibs) ∧ o.ec then rmSent ob o.sent else o.sent

/-- some sentence list got shorter: remove_sent() removed a sentence and set `illegal_sentence_action = 2` -/
def sentChanged (c c' : Core) : Bool :=
  (List.range c.n).any (fun i => (c.objs i).sent.length != (c'.objs i).sent.length)

/-- remove the first sentence satisfying `p` -/
def eraseFirst (p : String × Nat → Bool) : List (String × Nat) → List (String × Nat)
  | [] => []
  | t :: l => if p t then l else t :: eraseFirst p l

/-- add_action: new sentence at the head of the command giver's list -/
def addSent (c : Core) (g : Nat) (verb : String) (ob : Nat) : Core :=
  mapSent c fun u o => if u = g then (verb, ob) :: o.sent else o.sent

/-- the test of add_action(): the defining object must be near the command giver (pointer comparisons, NULL = NULL) -/
def nearCg (c : Core) (ob g : Nat) : Bool :=
  decide (ob = g) || decide ((c.objs ob).super = some g) || decide ((c.objs ob).super = (c.objs g).super) ||
    decide ((c.objs g).super = some ob)

/-- spec-level adjacency used by the ghost flag: one is the environment of the other, or they share an environment -/
def adjacent (c : Core) (x y : Nat) : Bool :=
  decide ((c.objs x).super = some y) || decide ((c.objs y).super = some x) ||
    (decide ((c.objs x).super = (c.objs y).super) && (c.objs x).super.isSome)

/-- `ob->next_inv` -/
def nextInv (c : Core) (i : Nat) : Option Nat :=
  match (c.objs i).super with
  | none => none
  | some s => ((c.objs s).contains.dropWhile (· ≠ i)).drop 1 |>.head?

/-- result of the loop `for (ob = dest; ob; ob = ob->super) if (ob == item) error` -/
inductive Walk where
  | hit      -- found `item`: error
  | clear    -- reached the top
  | freed    -- stepped on a released structure
  | loop     -- the chain does not end (fuel)
  deriving DecidableEq, Repr

def superWalk (c : Core) (item : Nat) : Nat → Option Nat → Walk
  | 0, _ => .loop
  | _ + 1, none => .clear
  | f + 1, some ob =>
    if (c.objs ob).freed then .freed
    else if ob = item then .hit
    else superWalk c item f (c.objs ob).super

/-! ## operations, hooks, tasks -/

inductive Hook where
  | create | init | mod | act | id | hbeat | ofilt
  deriving DecidableEq, Repr

def Hook.str : Hook → String
  | .create => "create" | .init => "init" | .mod => "mod" | .act => "act" | .id => "id" | .hbeat => "hbeat"
  | .ofilt => "ofilt"

/-- an efun an object executes right after `destruct (this_object ())`, in the same function -/
inductive Gh where
  | ln (s : String)   -- set_living_name (s)
  | ec                -- enable_commands ()
  | aa (v : String)   -- add_action ("act", v)
  | hbe               -- set_heart_beat (1)
  | mv (d : Nat)      -- move_object (d)
  deriving Repr

def Gh.str : Gh → String
  | .ln _ => "ln" | .ec => "ec" | .aa _ => "aa" | .hbe => "hbe" | .mv _ => "mv"

/-- what a scripted LPC object can do (harness/mudlib/c08/obj.c: do_op) -/
inductive Op where
  | ld (b : Base)            -- load_object("/c08/..")
  | cl (b : Base)            -- clone_object("/c08/..")
  | mv (a d : Nat)           -- a->x_mv(d): move_object(d) executed by a
  | mvs (a : Nat) (b : Base) -- a->x_mvs("/c08/.."): move_object(string) executed by a (the destination is loaded on demand)
  | hbe (a : Nat)            -- a: set_heart_beat(1)
  | hbd (a : Nat)            -- a: set_heart_beat(0)
  | pr (e t : Nat)           -- present("o<t>", e): e's inventory is searched by calling id("o<t>") in every member
  | fis (b : Base)           -- first_inventory("/c08/..") (the object is loaded on demand)
  | de (a : Nat)             -- destruct(a)
  | ec (a : Nat)             -- a: enable_commands()
  | dc (a : Nat)             -- a: disable_commands()
  | ln (a : Nat) (s : String) -- a: set_living_name(s)
  | fo (nm : Name)           -- find_object(name)
  | fl (s : String)          -- find_living(s)
  | aa (a : Nat) (verb : String)  -- a: add_action("act", verb)  (for the current command giver)
  | cmd (a : Nat) (verb : String) -- a: command(verb)
  | kp (a : Nat)             -- keep a reference to a in a global variable / array / mapping of the executing object
  | rd                       -- read that variable back
  | err                      -- error("boom")
  | mvarg                    -- inside move_or_destruct(dest): if (dest) move_object(dest)
  | gh (g : Gh)              -- destruct (this_object ()); then one more efun executed by the (destructed) object itself
  | ret0                     -- the running action function will return 0 (`act_ret = 0` in the executing object)
  | ra (a : Nat) (verb : String)  -- a: remove_action("act", verb)
  | obf                      -- objects("ofilt"): obj_list walked with a filter function of the executing object
  | ct (o : Op)              -- catch (o)
  | nop
  deriving Repr

/-- scripts: what hook `k` of object `i` does at its `n`-th invocation -/
abbrev Scripts := Nat → Hook → Nat → List Op

inductive Out where
  | ok | err | crash | hang | fuel
  deriving DecidableEq, Repr

structure World where
  c : Core
  restrict : Option Nat := none           -- restrict_destruct
  fired : List (Nat × Hook) := []         -- hook invocations so far
  keep : List (Nat × Nat) := []           -- (holder, target): LPC variable `keep` of holder
  cg : Option Nat := none                 -- command_giver
  -- the heart-beat list of src/backend.c, kept only so that the driver-initiated call channel can be predicted (its
  -- own consistency is property C11): heart_beats[] in array order, heart_beat_index, num_hb_to_do
  hbl : List Nat := []
  hbIdx : Int := 0
  hbTodo : Nat := 0
  curHb : Option Nat := none              -- current_heart_beat
  initBad : Bool := false                 -- ghost: an init() was called between objects that are not adjacent
  catching : Nat := 0                     -- number of catch() frames around the running code (innermost error context
                                          -- is a catch frame iff > 0)
  res : List Nat := []                    -- the array returned by the last objects(filter) (result register)
  isa : Nat := 0                          -- illegal_sentence_action (1: remove_action ran, 2: remove_sent removed something)
  ret0 : List Nat := []                   -- objects whose LPC variable `act_ret` is 0
  ldepth : Int := 0                       -- num_objects_this_thread: load_object() calls in progress
  out : List String := []                 -- canonical trace, newest first

def emit (w : World) (s : String) : World := { w with out := s :: w.out }

def oid (i : Nat) : String := s!"o{i}"
def ooid : Option Nat → String
  | none => "0"
  | some i => oid i

def joinIds (l : List Nat) : String := ",".intercalate (l.map oid)

def insertSorted (x : Nat) : List Nat → List Nat
  | [] => [x]
  | y :: ys => if y < x then y :: insertSorted x ys else x :: y :: ys

def sortIds (l : List Nat) : List Nat := l.foldr insertSorted []

/-- the registered objects on obj_list, sorted (harness: master->live_ids() = objects() without callbacks) -/
def liveIds (c : Core) : String :=
  let l := sortIds (c.ol.filter (· ≥ 2))
  if l.isEmpty then "-" else joinIds l

/-- an LPC array of objects as the harness prints it -/
def listStr (l : List Nat) : String := if l.isEmpty then "-" else joinIds l

/-- an LPC object value read from a variable / array / mapping: 0 when the object is destructed -/
def readRef (c : Core) (i : Nat) : Option Nat :=
  if i < c.n ∧ (c.objs i).destructed = false then some i else none

/-- a destructed object cannot call_other() to translate an object into its harness id: unknown -/
def roid (c : Core) (self : Nat) (v : Option Nat) : String :=
  if (c.objs self).destructed then "?" else ooid v

structure R where
  w : World
  out : Out := .ok
  val : Option Nat := none

def R.andThen (r : R) (k : World → Option Nat → R) : R :=
  if r.out = .ok then k r.w r.val else r

/-- a C comparison operator, as regenerated from the source text -/
def cmpOp (op : String) (a b : Int) : Bool :=
  if op == "<=" then decide (a ≤ b) else if op == "<" then decide (a < b) else if op == ">=" then decide (a ≥ b)
  else if op == ">" then decide (a > b) else if op == "==" then decide (a = b) else decide (a ≠ b)

/-- backend.c set_heart_beat(ob, 0): find the entry, adjust the round in progress (`index <= heart_beat_index`,
    `index < num_hb_to_do`: the two operators are the ones found in the source on this run), close the gap -/
def hbRemove (w : World) (ob : Nat) : World :=
  match w.hbl.idxOf? ob with
  | none => w
  | some index =>
    let idx := if w.hbTodo ≠ 0 ∧ cmpOp NV.Gen.C08.hbIdxOp (index : Int) w.hbIdx then w.hbIdx - 1 else w.hbIdx
    let todo := if w.hbTodo ≠ 0 ∧ cmpOp NV.Gen.C08.hbTodoOp (index : Int) (w.hbTodo : Int) then w.hbTodo - 1 else w.hbTodo
    { w with hbl := w.hbl.eraseIdx index, hbIdx := idx, hbTodo := todo }

/-- backend.c set_heart_beat(ob, 1): a new entry goes to the end of the array -/
def hbAdd (w : World) (ob : Nat) : World :=
  if ob ∈ w.hbl then w else { w with hbl := w.hbl ++ [ob] }

/-- error_handler(): an uncaught error while a heart_beat() is running turns that object's heart beat off -/
def hbOff (w : World) : World :=
  match w.curHb with
  | none => w
  | some h => if (w.c.objs h).destructed then { w with curHb := none } else { hbRemove w h with curHb := none }

/-- `hbOff` only happens for an error that no catch() receives (error_handler jumps to do_catch before) -/
def hbOffU (w : World) : World := if w.catching = 0 then hbOff w else w

/-- error(): the master logs the first line (`caught` when a catch() receives it); error_handler() resets
    restrict_destruct - the receiving context puts its saved value back (top level: 0; catch: see `.ct`) - and, for an
    uncaught error, switches the running heart beat off (`hbOff`) -/
def raise (w : World) (msg : String) : R :=
  { w := hbOffU (emit { w with restrict := none, ldepth := 0 } (if w.catching = 0 then s!"err {msg}" else s!"caught {msg}")),
    out := .err }

def crashR (w : World) (what : String) : R := { w := emit w s!"crash {what}", out := .crash }
def hangR (w : World) (what : String) : R := { w := emit w s!"hang {what}", out := .hang }

def firedCount (w : World) (i : Nat) (k : Hook) : Nat := (w.fired.filter (fun p => p.1 = i ∧ p.2 = k)).length

/-- `restrict_destruct && restrict_destruct != ob` -/
def restricted (w : World) (ob : Nat) : Bool :=
  match w.restrict with
  | some r => decide (r ≠ ob)
  | none => false

inductive Task where
  | ops (self : Nat) (arg : Option Nat) (l : List Op)     -- run a script in object `self`
  | hook (x : Nat) (k : Hook) (arg : Option Nat)           -- apply(create|init|move_or_destruct, x); arg = this_player()/dest
  | load (b : Base) (strict : Bool)                        -- `lookup_object_hash (name)`, and on a miss `load_object (name)`;
                                                           -- strict = find_or_load_object (a destructed result is 0)
  | clone (b : Base)                                       -- clone_object
  | move (item dest : Nat)                                 -- f_move_object (object argument) + move_object
  | moveStr (item : Nat) (b : Base)                        -- f_move_object with a string argument
  | fan (item dest : Nat) (cur : Option Nat) (save : Option Nat)  -- the `for (ob = dest->contains; ob; ob = next_ob)` loop; save_cmd
  | present (env tgt : Nat) (cur : Option Nat)             -- object_present2: the `for (; ob; ob = ob->next_inv)` loop
  | command (a : Nat) (verb : String)                      -- process_command(verb, a) + user_parser
  | destruct (ob : Nat)                                    -- destruct_object
  | dloop (ob : Nat) (sup0 : Option Nat) (saveR : Option Nat)  -- its `while (ob->contains)` loop
  | cmdloop (a : Nat) (verb : String) (rest : List (String × Nat)) (saveIsa : Nat)  -- user_parser's loop over the sentences
  | objloop (self : Nat) (rest acc : List Nat)             -- f_objects: the filter pass over the collected objects

def errInside := NV.Gen.C08.errInsideSrc
def errDestDest := NV.Gen.C08.errDestDestSrc
def errMoveDested := NV.Gen.C08.errMoveDestedSrc
def errInitDested := NV.Gen.C08.errInitDestedSrc ++ "init()"
def errItemDested := NV.Gen.C08.errItemDestedSrc ++ "init()!"
def errDestGone := NV.Gen.C08.errDestGoneSrc ++ "init()!"
def errRestrict := NV.Gen.C08.errRestrictSrc
def errBadFile := "*Error in loading object '/c08/bad':"
def errBoom := "*boom"
def errFis (b : Base) : String :=
  "Bad argument 1 to first_inventory(), Expected: string or object Got: \"/" ++ b.str ++ "\"."
def errNoDest := NV.Gen.C08.errNoDestSrc
def errEfunCb := NV.Gen.C08.errEfunCbSrc
def errIsa1 := NV.Gen.C08.errIsa1Src
def errIsa2 := NV.Gen.C08.errIsa2Src
/-- `MaxInheritDepth` of the harness configuration -/
abbrev inheritChainSize : Nat := NV.Gen.C08.inheritChainSize
def errChain (b : Base) : String :=
  NV.Gen.C08.errChainSrc ++ s!"{inheritChainSize} when trying to load '{b.str}'."
def errNoInherit (k : Nat) : String := NV.Gen.C08.errNoInheritSrc ++ s!"{(Base.bp k).str}' does not exist!"

/-- the interpreter; every call decreases the fuel -/
def exec (sc : Scripts) : Nat → Task → World → R
  | 0, _, w => { w := emit w "fuel", out := .fuel }
  | f + 1, t, w =>
    match t with
    | .ops _ _ [] => { w := w }
    | .ops self arg (op :: rest) =>
      let r : R :=
        match op with
        | .ld b =>
          (exec sc f (.load b true) w).andThen fun w v =>
            -- do_op: `t = typeof (ob2 = load_object (p)); ob = find_object (p);` - typeof sees the value the efun left
            -- on the stack, the object is fetched by a second lookup and both results are reported
            let nm : Name := { base := b, num := none }
            if anyFreed w.c (w.c.ot (hashN nm)) then crashR w "find_obj_n"
            else
              let r := lookupC w.c nm
              let w := { w with c := r.1 }
              { w := emit w s!"r ld {b.str} {roid w.c self (r.2.bind (readRef w.c))} {if v.isSome then 1 else 0} {roid w.c self (v.bind (readRef w.c))}" }
        | .cl b =>
          (exec sc f (.clone b) w).andThen fun w v =>
            { w := emit w s!"r cl {b.str} {roid w.c self (v.bind (readRef w.c))}" }
        | .mv a d =>
          match readRef w.c a, readRef w.c d with
          | some a, some d =>
            (exec sc f (.move a d) (emit w s!"mvb {oid a} {oid d}")).andThen fun w _ =>
              { w := emit w s!"r mv {oid a} {oid d} ok" }
          | _, _ => { w := emit w s!"r mv {oid a} {oid d} !gone" }
        | .mvs a b =>
          match readRef w.c a with
          | some a =>
            (exec sc f (.moveStr a b) (emit w s!"mvsb {oid a} {b.str}")).andThen fun w _ =>
              -- x_mvs returns environment() after the move
              { w := emit w s!"r mvs {oid a} {b.str} ok {roid w.c self ((w.c.objs a).super.bind (readRef w.c))}" }
          | none => { w := emit w s!"r mvs {oid a} {b.str} !gone" }
        | .hbe a =>
          match readRef w.c a with
          | some a => { w := emit (hbAdd w a) s!"r hbe {oid a} ok" }
          | none => { w := emit w s!"r hbe {oid a} !gone" }
        | .hbd a =>
          match readRef w.c a with
          | some a => { w := emit (hbRemove w a) s!"r hbd {oid a} ok" }
          | none => { w := emit w s!"r hbd {oid a} !gone" }
        | .pr e t =>
          -- f_present(string, object): a destructed environment gives 0
          match readRef w.c e with
          | none => { w := emit w s!"r pr {oid e} {oid t} !gone" }
          | some e =>
            (exec sc f (.present e t (w.c.objs e).contains.head?) w).andThen fun w v =>
              { w := emit w s!"r pr {oid e} {oid t} {roid w.c self (v.bind (readRef w.c))}" }
        | .fis b =>
          (exec sc f (.load b true) w).andThen fun w v =>
            match v with
            | none => raise w (errFis b)
            | some d => { w := emit w s!"r fis {b.str} {roid w.c self ((w.c.objs d).contains.head?.bind (readRef w.c))}" }
        | .de a =>
          match readRef w.c a with
          | some a =>
            (exec sc f (.destruct a) (emit w s!"deb {oid a}")).andThen fun w _ =>
              { w := emit w s!"r de {oid a} ok" }
          | none => { w := emit w s!"r de {oid a} !gone" }
        | .ec a =>
          -- enable_commands(1): flag + command_giver = current_object
          match readRef w.c a with
          | some a => { w := emit { w with c := setObj w.c a { w.c.objs a with ec := true }, cg := some a } s!"r ec {oid a} ok" }
          | none => { w := emit w s!"r ec {oid a} !gone" }
        | .dc a =>
          -- enable_commands(0): nothing when not enabled, else flag off + command_giver = 0
          match readRef w.c a with
          | some a =>
            if (w.c.objs a).ec then
              { w := emit { w with c := setObj w.c a { w.c.objs a with ec := false }, cg := none } s!"r dc {oid a} ok" }
            else { w := emit w s!"r dc {oid a} ok" }
          | none => { w := emit w s!"r dc {oid a} !gone" }
        | .ln a s =>
          match readRef w.c a with
          | some a => { w := emit { w with c := setLiving w.c a s } s!"r ln {oid a} {s} ok" }
          | none => { w := emit w s!"r ln {oid a} {s} !gone" }
        | .fo nm =>
          if anyFreed w.c (w.c.ot (hashN nm)) then crashR w "find_obj_n"
          else
            let r := lookupC w.c nm
            { w := emit { w with c := r.1 } s!"r fo {nm.str} {ooid (r.2.bind (readRef r.1))} {if r.2.isSome then 1 else 0}" }
        | .fl s =>
          if anyFreed w.c (w.c.lv (lhash s)) then crashR w "find_living_object"
          else
            let r := findLivingC w.c s
            { w := emit { w with c := r.1 } s!"r fl {s} {ooid (r.2.bind (readRef r.1))} {if r.2.isSome then 1 else 0}" }
        | .aa a verb =>
          -- add_action("act", verb) executed by `a`
          match readRef w.c a with
          | none => { w := emit w s!"r aa {oid a} {verb} !gone" }
          | some a =>
            match w.cg with
            | none => { w := emit w s!"r aa {oid a} {verb} ok" }
            | some g =>
              if ¬ (g < w.c.n) ∨ (w.c.objs g).freed then crashR w "add_action: command_giver"
              else if (w.c.objs g).destructed ∨ ¬ nearCg w.c a g then { w := emit w s!"r aa {oid a} {verb} ok" }
              else
                -- `ob->super` / `command_giver->super` are only compared, not dereferenced
                { w := emit { w with c := addSent w.c g verb a } s!"r aa {oid a} {verb} ok" }
        | .cmd a verb =>
          match readRef w.c a with
          | none => { w := emit w s!"r cmd {oid a} {verb} !gone" }
          | some a =>
            (exec sc f (.command a verb) w).andThen fun w v =>
              { w := emit w s!"r cmd {oid a} {verb} {if v.isSome then 1 else 0}" }
        | .kp a =>
          match readRef w.c a with
          | some a => { w := emit { w with keep := (self, a) :: w.keep } s!"r kp {oid self} {oid a} ok" }
          | none => { w := emit w s!"r kp {oid self} {oid a} !gone" }
        | .rd =>
          -- the same reference read back from a global variable (F_GLOBAL), an array element and a mapping value (F_INDEX)
          let v := (w.keep.find? (fun p => p.1 = self)).bind (fun p => readRef w.c p.2)
          { w := emit w s!"r rd {oid self} {ooid v} {ooid v} {ooid v}" }
        | .err => raise w errBoom
        | .mvarg =>
          match arg.bind (readRef w.c) with
          | some d =>
            (exec sc f (.move self d) (emit w s!"mvb {oid self} {oid d}")).andThen fun w _ =>
              { w := emit w s!"r mv {oid self} {oid d} ok" }
          | none => { w := emit w s!"r mvarg {oid self} 0" }
        | .gh g =>
          -- the object goes on running after its own destruct: set_living_name / enable_commands / add_action /
          -- set_heart_beat all return at once for a destructed current_object, move_object raises an error - a destructed
          -- object must not get back into any registry
          (exec sc f (.destruct self) (emit w s!"deb {oid self}")).andThen fun w _ =>
            let w := emit w s!"r de {oid self} ok"
            if (w.c.objs self).destructed then
              match g with
              | .mv d => if (readRef w.c d).isSome then raise w errMoveDested else { w := emit w s!"r gh {oid self} mv" }
              | _ => { w := emit w s!"r gh {oid self} {g.str}" }
            else
              -- (destruct_object returned without destructing: cannot happen; then the efun runs as for any live object)
              exec sc f (.ops self arg [match g with
                | .ln s => Op.ln self s | .ec => Op.ec self | .aa v => Op.aa self v | .hbe => Op.hbe self | .mv d => Op.mv self d]) w
        | .ret0 => { w := { w with ret0 := self :: w.ret0.filter (· ≠ self) } }
        | .ra a verb =>
          -- remove_action: `ob = command_giver ? command_giver : current_object`; first sentence of ob defined by the
          -- caller with that function and verb; `illegal_sentence_action = 1`
          match readRef w.c a with
          | none => { w := emit w s!"r ra {oid a} {verb} !gone" }
          | some a =>
            let g := w.cg.getD a
            if ¬ (g < w.c.n) ∨ (w.c.objs g).freed then crashR w "remove_action: command_giver"
            else if (w.c.objs g).sent.any (fun t => t.2 == a && t.1 == verb) then
              { w := emit { w with c := mapSent w.c (fun u o => if u = g then eraseFirst (fun t => t.2 == a && t.1 == verb) o.sent else o.sent),
                                   isa := 1 } s!"r ra {oid a} {verb} 1" }
            else { w := emit w s!"r ra {oid a} {verb} 0" }
        | .obf =>
          -- f_objects with a filter (since the `fix:` commit): obj_list is collected first - no LPC code runs -, then
          -- the filter is asked about every collected object that is still alive, then the accepted ones that were
          -- destructed by later calls are dropped
          if anyFreed w.c w.c.ol then crashR w "f_objects"
          else
            (exec sc f (.objloop self w.c.ol []) (emit w s!"obfb {oid self} {liveIds w.c}")).andThen fun w v =>
              if (w.c.objs self).destructed then { w := emit w s!"r obf {oid self} ? ?" }
              else { w := emit w s!"r obf {oid self} {if v.isSome then listStr w.res else "!0"} {liveIds w.c}" }
        | .ct o =>
          -- catch (o): save_context() remembers command_giver and restrict_destruct; a caught error restores both
          let r := exec sc f (.ops self arg [o]) (emit { w with catching := w.catching + 1 } s!"ctb {oid self}")
          match r.out with
          | .ok => { w := emit { r.w with catching := w.catching } s!"r ct {oid self} 0" }
          | .err => { w := emit { r.w with catching := w.catching, cg := w.cg, restrict := w.restrict, ldepth := w.ldepth } s!"r ct {oid self} 1" }
          | _ => r
        | .nop => { w := w }
      r.andThen fun w _ =>
        -- a script stops when the object executing it has been destructed
        if (w.c.objs self).destructed then { w := w } else exec sc f (.ops self arg rest) w
    | .hook x k arg =>
      -- apply_low: a destructed object is never entered
      if ¬ (x < w.c.n) ∨ (w.c.objs x).freed then crashR w "apply"
      else if (w.c.objs x).destructed then { w := w }
      else
        let n := firedCount w x k
        let w := { w with fired := (x, k) :: w.fired }
        -- ghost: init() is only ever exchanged between adjacent objects
        let w := match k, arg with
          | .init, some y => { w with initBad := w.initBad || !adjacent w.c x y }
          | _, _ => w
        -- `act_ret = 1;` at the start of the action function
        let w := match k with
          | .act => { w with ret0 := w.ret0.filter (· ≠ x) }
          | _ => w
        let w := match k with
          | .create => emit w s!"new {oid x} {(w.c.objs x).name.str}"
          | _ => emit w s!"hb {oid x} {k.str} {ooid arg}"
        -- only move_or_destruct(dest) hands its argument to the script
        (exec sc f (.ops x (if k = .mod then arg else none) (sc x k n)) w).andThen fun w _ =>
          { w := emit w s!"he {oid x} {k.str}" }
    | .load b strict =>
      -- `if (!(ob = lookup_object_hash (name))) ob = load_object (name, 0);` - the three sites of this pattern are
      -- find_or_load_object (strict: a destructed result is 0), the load of an inherited program and the re-lookup
      -- after it (both inside load_object)
      let nm : Name := { base := b, num := none }
      if anyFreed w.c (w.c.ot (hashN nm)) then crashR w "find_obj_n"
      else
        let r := lookupC w.c nm
        let w := { w with c := r.1 }
        match r.2 with
        | some i => { w := w, val := some i }
        | none =>
          -- load_object (name): `if (++num_objects_this_thread > __INHERIT_CHAIN_SIZE__) error`
          let saveCg := w.cg
          let w := { w with ldepth := w.ldepth + 1 }
          -- (a C `int`: clone_object clears it in the middle of nested loads, the loads then count it below zero)
          if w.ldepth > (inheritChainSize : Int) then raise w (errChain b)
          else
            -- the program: either a final result (no file, compile error, the inherit detour) or "compiled in state w"
            let ph : R ⊕ World :=
              match b with
              | .nofile => .inl { w := { w with ldepth := w.ldepth - 1 }, val := none }
              | .badfile => .inl (raise w errBadFile)
              | .ih k =>
                -- grammar.y `inherit`: find_object_by_name (inherited file); not loaded: inherit_file is set, the
                -- compilation is abandoned, the inherited object is loaded (its create() runs), then - "it is possible
                -- that when we loaded the inherited object, it loaded this object from it's create function" - the
                -- name is looked up AGAIN and only on a miss the object is loaded again
                let inh : Name := { base := .bp k, num := none }
                if anyFreed w.c (w.c.ot (hashN inh)) then .inl (crashR w "find_obj_n")
                else
                  let rb := lookupC w.c inh
                  let w := { w with c := rb.1 }
                  match rb.2 with
                  | some _ => .inr w
                  | none =>
                    .inl ((exec sc f (.load (.bp k) false) w).andThen fun w v =>
                      match v with
                      | none => raise w (errNoInherit k)
                      | some _ =>
                        (exec sc f (.load b false) w).andThen fun w v =>
                          { w := { w with ldepth := w.ldepth - 1 }, val := v })
              | _ => .inr w
            let body : R :=
              match ph with
              | .inl r => r
              | .inr w =>
                let a := alloc w.c nm false
                (exec sc f (.hook a.2 .create none) { w with c := a.1 }).andThen fun w _ =>
                  { w := { w with cg := saveCg, ldepth := w.ldepth - 1 }, val := some a.2 }
            body.andThen fun w v =>
              -- find_or_load_object: `if (!ob || (ob->flags & O_DESTRUCTED)) return 0`
              match v with
              | none => { w := w, val := none }
              | some ob => if strict ∧ (w.c.objs ob).destructed then { w := w, val := none } else { w := w, val := some ob }
    | .clone b =>
      let saveCg := w.cg
      -- older sources executed `num_objects_this_thread = 0;` here (which let the enclosing loads count the depth below
      -- zero); whether the statement is there is regenerated from the source, the model follows the code that exists
      (exec sc f (.load b true) { w with ldepth := if NV.Gen.C08.cloneClearsDepth then 0 else w.ldepth }).andThen fun w v =>
        match v with
        | none => { w := w, val := none }
        | some ob =>
          if ¬ (ob < w.c.n) ∨ (w.c.objs ob).freed then crashR w "clone_object"
          else if (w.c.objs ob).clone then raise w NV.Gen.C08.errCloneCloneSrc
          else
            -- "We do not want the heart beat to be running for unused copied objects"
            let w := hbRemove w ob
            let nm : Name := { base := (w.c.objs ob).name.base, num := some w.c.ctr }
            let a := alloc { w.c with ctr := w.c.ctr + 1 } nm true
            let w := { w with c := a.1 }
            (exec sc f (.hook a.2 .create none) w).andThen fun w _ =>
              let w := { w with cg := saveCg }
              if (w.c.objs a.2).destructed then { w := w, val := none } else { w := w, val := some a.2 }
    | .move item dest =>
      if ¬ (item < w.c.n ∧ dest < w.c.n) ∨ (w.c.objs item).freed then crashR w "move_object: not an object"
      else if (w.c.objs item).destructed then raise w errMoveDested
      else
        match superWalk w.c item (w.c.n + 1) (some dest) with
        | .freed => crashR w "move_object super walk"
        | .loop => hangR w "move_object super walk"
        | .hit => raise w errInside
        | .clear =>
          if (w.c.objs dest).destructed then raise w errDestDest
          else
            let oldInv := match (w.c.objs item).super with
              | none => []
              | some s => s :: (w.c.objs s).contains
            if anyFreed w.c oldInv then crashR w "move_object unlink"
            else
              let saveCg := w.cg
              let w0 := { w with c := relink (unsentMove w.c item) item dest,
                                 isa := if sentChanged w.c (unsentMove w.c item) then 2 else w.isa }
              let r : R :=
                if (w0.c.objs item).ec then exec sc f (.hook dest .init (some item)) { w0 with cg := some item }
                else { w := w0 }
              r.andThen fun w1 _ =>
                if (w0.c.objs item).ec ∧ ((w1.c.objs dest).destructed ∨ (w1.c.objs item).super ≠ some dest) then
                  { w := { w1 with cg := saveCg } }
                else exec sc f (.fan item dest (w1.c.objs dest).contains.head? saveCg) w1
    | .moveStr item b =>
      -- f_move_object: the destination is resolved (and loaded: its create() runs) FIRST, then current_object is
      -- tested for O_DESTRUCTED (the first thing `.move` does), then move_object()
      (exec sc f (.load b true) w).andThen fun w v =>
        match v with
        | none => raise w errNoDest
        | some d => exec sc f (.move item d) w
    | .fan item dest cur saveCg =>
      match cur with
      | none =>
        if (w.c.objs dest).destructed then raise w errDestGone
        else
          let r : R :=
            if (w.c.objs dest).ec then exec sc f (.hook item .init (some dest)) { w with cg := some dest } else { w := w }
          r.andThen fun w _ => { w := { w with cg := saveCg } }
      | some ob =>
        if ¬ (ob < w.c.n) ∨ (w.c.objs ob).freed then crashR w "move_object fan-out"
        else
          let next := nextInv w.c ob
          if ob = item then exec sc f (.fan item dest next saveCg) w
          else if (w.c.objs ob).destructed then raise w errInitDested
          -- fix: C08-F2 - an init() moved the saved next object out of dest: stop the fan-out
          else if (w.c.objs ob).super ≠ some dest then exec sc f (.fan item dest none saveCg) w
          else
            let r1 : R :=
              if (w.c.objs ob).ec then exec sc f (.hook item .init (some ob)) { w with cg := some ob } else { w := w }
            r1.andThen fun w1 _ =>
              if (w.c.objs ob).ec ∧ (w1.c.objs item).super ≠ some dest then { w := { w1 with cg := saveCg } }
              else if (w1.c.objs item).destructed then raise w1 errItemDested
              -- fix: C08-F2 - ob left during the call above: no init() between rooms
              else if (w1.c.objs ob).super ≠ some dest then exec sc f (.fan item dest next saveCg) w1
              else
                let r2 : R :=
                  if (w1.c.objs item).ec then exec sc f (.hook ob .init (some item)) { w1 with cg := some item }
                  else { w := w1 }
                r2.andThen fun w2 _ =>
                  if (w1.c.objs item).ec ∧ (w2.c.objs item).super ≠ some dest then { w := { w2 with cg := saveCg } }
                  else exec sc f (.fan item dest next saveCg) w2
    | .present env tgt cur =>
      match cur with
      | none => { w := w, val := none }
      | some ob =>
        if ¬ (ob < w.c.n) ∨ (w.c.objs ob).freed then crashR w "object_present2"
        else
          (exec sc f (.hook ob .id none) w).andThen fun w1 _ =>
            if (w1.c.objs ob).destructed then { w := w1, val := none }
            -- fix: C08-F3 - id() moved ob out of the searched inventory
            else if (w1.c.objs ob).super ≠ some env then { w := w1, val := none }
            else if ob = tgt then { w := w1, val := some ob }
            else exec sc f (.present env tgt (nextInv w1.c ob)) w1
    | .command a verb =>
      -- command_for_object / process_command / user_parser (the action functions of the harness return 1)
      if ¬ (a < w.c.n) ∨ (w.c.objs a).freed then crashR w "command: not an object"
      else if (w.c.objs a).destructed then { w := w, val := none }
      else
        let saveCg := w.cg
        if ¬ (w.c.objs a).ec then { w := w, val := none }
        else
          -- process_command: command_giver = a; user_parser: `illegal_sentence_action` saved and cleared, the loop
          -- over the sentences, restored by the exits of the loop; command_for_object restores command_giver
          (exec sc f (.cmdloop a verb (w.c.objs a).sent w.isa) { w with cg := some a, isa := 0 }).andThen fun w v =>
            { w := { w with cg := saveCg }, val := v }
    | .cmdloop a verb rest saveIsa =>
      match rest with
      | [] => { w := { w with isa := saveIsa }, val := none }     -- notify_no_command ()
      | t :: rest =>
        -- sentences hold a reference to their object: the structure is never released while listed
        if ¬ (decide (t.2 < w.c.n) && !(w.c.objs t.2).destructed && t.1 == verb) then exec sc f (.cmdloop a verb rest saveIsa) w
        else
          (exec sc f (.hook t.2 .act (some a)) w).andThen fun w _ =>
            -- `command_giver = save_command_giver;`
            let w := { w with cg := some a }
            let ret := !(w.ret0.contains t.2)
            -- fix: the action destructed the command giver (its sentence list is freed): stop parsing
            if ¬ (a < w.c.n) ∨ (w.c.objs a).destructed then
              { w := { w with isa := saveIsa }, val := if ret then some a else none }
            else if ret then { w := { w with isa := if w.isa = 0 then saveIsa else w.isa }, val := some a }
            else if w.isa = 1 then raise w errIsa1
            else if w.isa = 2 then raise w errIsa2
            -- no sentence was removed meanwhile: `s->next` is the rest of the list as it was
            else exec sc f (.cmdloop a verb rest saveIsa) w
    | .destruct ob =>
      if restricted w ob then raise w errRestrict
      else if ¬ (ob < w.c.n) ∨ (w.c.objs ob).freed then crashR w "destruct_object: not an object"
      else if (w.c.objs ob).destructed then { w := w }
      else exec sc f (.dloop ob (w.c.objs ob).super w.restrict) w
    | .dloop ob sup0 saveR =>
      match (w.c.objs ob).contains with
      | [] =>
        -- unlink, unregister, mark
        let inv := match (w.c.objs ob).super with
          | none => []
          | some s => s :: (w.c.objs s).contains
        let nm := (w.c.objs ob).name
        -- the unlink block relies on `ob` being a live object (checked by the callers, re-checked after every hook)
        if ¬ (ob < w.c.n ∧ (w.c.objs ob).destructed = false) then crashR w "destruct_object: unlink of a destructed object"
        else if anyFreed w.c inv ∨ anyFreed w.c (w.c.ot (hashN nm)) ∨ anyFreed w.c w.c.ol
            ∨ anyFreed w.c (match (w.c.objs ob).living with | none => [] | some s => w.c.lv (lhash s)) then
          crashR w "destruct_object unlink"
        else
          -- (set_heart_beat(ob, 0) runs just before O_DESTRUCTED is set)
          let w := hbRemove w ob
          { w := { w with c := finishDestruct (unsentDestruct w.c ob) ob,
                          isa := if sentChanged w.c (unsentDestruct w.c ob) then 2 else w.isa } }
      | otmp :: _ =>
        if ¬ (otmp < w.c.n) ∨ (w.c.objs otmp).freed then crashR w "destruct_object contains"
        else
          let arg := match sup0 with
            | none => none
            | some s => if (w.c.objs s).destructed then none else some s
          if (match sup0 with | none => false | some s => decide (¬ (s < w.c.n)) || (w.c.objs s).freed) then crashR w "destruct_object super"
          else
            let w := { w with restrict := some otmp }
            (exec sc f (.hook otmp .mod arg) w).andThen fun w _ =>
              let w := { w with restrict := saveR }
              if (w.c.objs ob).destructed then { w := w }
              else
                let r : R :=
                  if (w.c.objs ob).contains.head? = some otmp then exec sc f (.destruct otmp) w else { w := w }
                r.andThen fun w _ =>
                  -- fix: C08-F1 - re-check after the nested destruct_object
                  if (w.c.objs ob).destructed then { w := w }
                  else exec sc f (.dloop ob sup0 saveR) w
    | .objloop self rest acc =>
      match rest with
      | [] =>
        -- "objects accepted earlier can have been destructed by a later call of the filter"
        { w := { w with res := acc.reverse.filter (fun i => !(w.c.objs i).destructed) }, val := some self }
      | ob :: rest =>
        if ¬ (ob < w.c.n) ∨ (w.c.objs ob).freed then crashR w "f_objects"
        else if (w.c.objs ob).destructed then exec sc f (.objloop self rest acc) w
        else if ¬ (self < w.c.n) ∨ (w.c.objs self).freed then crashR w "f_objects: current_object"
        -- apply () itself does not refuse a destructed object; since the second `fix:` commit of this efun the calling
        -- object is tested before every call of its filter, as call_efun_callback() does
        else if (w.c.objs self).destructed then raise w errEfunCb
        else
          (exec sc f (.hook self .ofilt (some ob)) w).andThen fun w _ =>
            exec sc f (.objloop self rest (ob :: acc)) w

/-! ## top level -/

def Core.init : Core :=
  let c0 : Core := { n := 0, objs := fun _ => { name := { base := .nofile, num := none } },
                     ot := fun _ => [], ol := [], dl := [], lv := fun _ => [], ctr := 1 }
  let a := alloc c0 { base := .simul, num := none } false
  (alloc a.1 { base := .master, num := none } false).1

def World.init : World := { c := Core.init }

/-- fuel given to one top-level command (the generated scripts are finite; see notes) -/
def topFuel : Nat := 100000

def lnStr : Option String → String
  | none => "0"
  | some s => s

def sentStr (l : List (String × Nat)) : String :=
  if l.isEmpty then "-" else ";".intercalate (l.map fun t => s!"{t.1}:{oid t.2}")

/-- canonical dump of the structures (harness: walker over the real ones) -/
def snapLines (c : Core) : List String :=
  let objLines := (List.range c.n).map fun i =>
    let o := c.objs i
    if o.destructed then
      s!"S {oid i} D{if o.super.isSome then " super" else ""}{if o.contains.isEmpty then "" else " contains"}{if o.ec then " ec" else ""}{if o.living.isSome then " living" else ""}{if o.sent.isEmpty then "" else " sent"}"
    else
      s!"S {oid i} {o.name.str} env={ooid o.super} inv={joinIds o.contains} ec={if o.ec then 1 else 0} cl={if o.clone then 1 else 0} ln={lnStr o.living} sent={sentStr o.sent}"
  let otLines := ((List.range otSize).filter (fun h => !(c.ot h).isEmpty)).map fun h => s!"S ot {h} {joinIds (c.ot h)}"
  let lvLines := ((List.range lvSize).filter (fun h => !(c.lv h).isEmpty)).map fun h => s!"S lv {h} {joinIds (c.lv h)}"
  objLines ++ otLines ++ [s!"S ol {joinIds c.ol}", s!"S dl {joinIds c.dl}"] ++ lvLines

/-- first_inventory / next_inventory walk -/
def invWalk (c : Core) : Nat → Option Nat → List Nat
  | 0, _ => []
  | _, none => []
  | f + 1, some i => i :: invWalk c f (nextInv c i)

/-- the LPC-visible view (harness: master->probe()): for every registered object, in id order,
    find_object(name), environment, all_inventory, first/next_inventory walk, find_living; then objects(), livings() -/
def probe (w : World) : World :=
  let ids := (List.range w.c.n).drop 2
  let w := ids.foldl (fun w i =>
    let o := w.c.objs i
    let r := lookupC w.c o.name
    let w := { w with c := r.1 }
    let found := s!"{ooid (r.2.bind (readRef w.c))}/{if r.2.isSome then 1 else 0}"
    if o.destructed then emit w s!"P {oid i} ref=0 find={found}"
    else
      let fl := match o.living with
        | none => (w, "-")
        | some s =>
          let r := findLivingC w.c s
          ({ w with c := r.1 }, ooid (r.2.bind (readRef r.1)))
      let w := fl.1
      let o := w.c.objs i
      emit w s!"P {oid i} ref={oid i} find={found} env={ooid (o.super.bind (readRef w.c))} inv={joinIds (o.contains.filterMap (readRef w.c))} walk={joinIds (invWalk w.c (w.c.n + 1) o.contains.head?)} fl={fl.2}") w
  let w := emit w s!"P objects {joinIds (sortIds (w.c.ol.filter (· ≥ 2)))}"
  let w := emit w s!"P livings {joinIds (sortIds ((w.c.ol.filter (fun i => (w.c.objs i).ec)).filter (· ≥ 2)))}"
  emit w s!"P heartbeats {joinIds (sortIds (w.hbl.filter (· ≥ 2)))}"

/-- one timer tick (call_heart_beat, heart beats only): the round over the heart-beat array as coded -
    `num_hb_to_do = num_hb_objs; heart_beat_index = 0; do { call heart_beat() of heart_beats[index] }
    while (++heart_beat_index != num_hb_to_do)`; every removal inside adjusts both counters (`hbRemove`).
    heart_beat() is entered with call_function (no O_DESTRUCTED test): a stale slot would be *called*. -/
def hbRound (sc : Scripts) : Nat → World → R
  | 0, w => { w := w }
  | fuel + 1, w =>
    match w.hbl[w.hbIdx.toNat]? with
    | none => { w := emit w s!"hb-stale-slot {w.hbIdx}" }
    | some ob =>
      -- the list only ever holds valid objects (C11); an invalid entry is reported, not entered
      if ¬ (ob < w.c.n ∧ (w.c.objs ob).freed = false ∧ (w.c.objs ob).destructed = false) then
        { w := emit w s!"hb-stale-object {oid ob}" }
      else
        let w := { w with cg := if (w.c.objs ob).ec then some ob else none, curHb := some ob }
        (exec sc topFuel (.hook ob .hbeat none) w).andThen fun w _ =>
          let w := { w with cg := none, hbIdx := w.hbIdx + 1 }
          if w.hbIdx = (w.hbTodo : Int) then { w := w } else hbRound sc fuel w

def tick (sc : Scripts) (w : World) : World :=
  let w0 := { w with hbTodo := w.hbl.length }
  if w0.hbTodo = 0 then w0
  else
    let r := hbRound sc (w.hbl.length + 1000) { w0 with hbIdx := 0 }
    match r.out with
    | .ok => { r.w with hbIdx := 0, hbTodo := 0, curHb := none }
    -- an error abandons the round (backend()'s recovery point); restore_context() restores command_giver
    | .err => emit { r.w with cg := w.cg, ldepth := w.ldepth } "r tick !err"
    | _ => r.w

inductive Cmd where
  | tick                 -- one timer tick (verif_tick)
  | top (op : Op)        -- master->do_op(op)
  | snap
  | probe
  | gc
  deriving Repr

def stepCmd (sc : Scripts) (w : World) : Cmd → World
  | .top op =>
    -- the harness applies master->top(op); (the reload of a destructed master is not modelled: such a history is cut)
    if ¬ (1 < w.c.n ∧ (w.c.objs 1).destructed = false) then emit w "r top !nomaster" else
    let r := exec sc topFuel (.ops 1 none [op]) w
    match r.out with
    | .ok => r.w
    -- restore_context() puts command_giver back to its value at save_context()
    | .err => emit { r.w with cg := w.cg, ldepth := w.ldepth } "r top !err"
    | _ => r.w
  | .tick => tick sc w
  | .snap => { w with out := (snapLines w.c).reverse ++ w.out }
  | .probe => probe w
  -- the harness clears command_giver as backend()'s clear_state does before remove_destructed_objects()
  | .gc => { w with c := gc w.c, cg := none }

def runCmds (sc : Scripts) (w : World) (cs : List Cmd) : World := cs.foldl (stepCmd sc) w

end NV.C08
