/-
C08 — property theorems (statements live here; helper lemmas in NV/C08/Anc.lean and NV/C08/Lemmas*.lean).

Property: object names, inventories and destruction stay consistent.  After any sequence of load, clone, move and
destruct operations - including ones issued from create, init and move_or_destruct hooks and ones that fail - looking
up a name yields exactly the live object carrying it, every object is in at most one inventory and inventories form a
forest that agrees with each object's environment, and a destructed object is never found, listed, called, moved into
or given commands.  Every reference to a destructed object reads as 0.

All theorems are about the executable model `NV.C08.exec` / `runCmds` (NV/C08/Model.lean) for ALL hook oracles
`sc : Scripts`, ALL fuels and ALL command lists.
-/
import NV.C08.Safe2
import NV.C08.Refine
import NV.C08.Tie

namespace NV.C08

/-- `WorldInv`: the invariant of the registries (see `Inv`, `Links`, `Names`, `Lists`, `Living` in Lemmas.lean) -/
abbrev WorldInv (c : Core) : Prop := Inv c

/-- **world_inv_preserved.**  Every task of the interpreter - a script of operations, a hook call, load, clone,
    move_object (including its init() fan-out), destruct_object (including its move_or_destruct loop) - started in a
    state satisfying `WorldInv` ends in a state satisfying `WorldInv`, whatever the hooks do (they run the same
    interpreter re-entrantly), whether it succeeds, raises an error, or runs out of fuel.  Because every hook call is
    itself a task, the invariant holds at EVERY point where LPC code can run. -/
theorem world_inv_preserved (sc : Scripts) (f : Nat) (t : Task) (w : World) (h : WorldInv w.c) :
    WorldInv (exec sc f t w).w.c := exec_inv sc f t w h

/-- **reachable_inv.**  Every state reachable from the initial state (simul_efun object and master loaded) by any
    list of top-level commands (operations, probes, remove_destructed_objects) satisfies `WorldInv`. -/
theorem reachable_inv (sc : Scripts) (cmds : List Cmd) : WorldInv (runCmds sc World.init cmds).c :=
  runCmds_inv sc cmds World.init init_inv

/-- **lookup_unique_live.**  find_obj_n (find_object, load_object, clone_object, call_other by name) returns an object
    iff it is the live (allocated, not destructed) object carrying that name; there is at most one such object. -/
theorem lookup_unique_live {c : Core} (h : WorldInv c) (nm : Name) (i : Nat) :
    ((lookupC c nm).2 = some i ↔ (i < c.n ∧ (c.objs i).destructed = false ∧ (c.objs i).name = nm)) ∧
    (∀ j, j < c.n → (c.objs j).destructed = false → (c.objs j).name = nm →
          i < c.n → (c.objs i).destructed = false → (c.objs i).name = nm → i = j) :=
  ⟨lookupC_spec h nm i, fun j hj hdj hnj hi hdi hni =>
    h.names.uniq i j hi hdi hj hdj (by simp [nameF, hni, hnj])⟩

/-- `lookup_unique_live` for every reachable state -/
theorem lookup_unique_live_reachable (sc : Scripts) (cmds : List Cmd) (nm : Name) (i : Nat) :
    let c := (runCmds sc World.init cmds).c
    (lookupC c nm).2 = some i ↔ (i < c.n ∧ (c.objs i).destructed = false ∧ (c.objs i).name = nm) :=
  (lookup_unique_live (reachable_inv sc cmds) nm i).1

/-- **inventories_forest.**  Every object is in at most one inventory, at most once; `x ∈ contains(y) ↔ super(x) = y`;
    the environment relation has no cycle. -/
theorem inventories_forest {c : Core} (h : WorldInv c) :
    (∀ x y z, x ∈ (c.objs y).contains → x ∈ (c.objs z).contains → y = z) ∧
    (∀ x y, x ∈ (c.objs y).contains ↔ (c.objs x).super = some y) ∧
    (∀ y, ((c.objs y).contains).Nodup) ∧
    (∀ x, ¬ Anc (fun i => (c.objs i).super) x x) := by
  refine ⟨?_, h.links.inv, h.links.nodup, h.links.acyc⟩
  intro x y z hy hz
  have h1 := (h.links.inv x y).mp hy
  have h2 := (h.links.inv x z).mp hz
  simp only [supF] at h1 h2
  rw [h1] at h2
  exact Option.some.inj h2

/-- **destructed_never_visible.**  A destructed object is in no name-table chain, not on obj_list, in no living-name
    chain and in no inventory; it has no environment and no inventory, it is nobody's environment; no lookup by name
    and no find_living returns it; a reference to it read from an LPC variable, array or mapping is 0; and it is not
    command-enabled. -/
theorem destructed_never_visible {c : Core} (h : WorldInv c) {i : Nat} (hd : (c.objs i).destructed = true) :
    (∀ b, i ∉ c.ot b) ∧ i ∉ c.ol ∧ (∀ b, i ∉ c.lv b) ∧ (∀ y, i ∉ (c.objs y).contains) ∧
    (c.objs i).super = none ∧ (c.objs i).contains = [] ∧ (∀ x, (c.objs x).super ≠ some i) ∧
    (∀ nm, (lookupC c nm).2 ≠ some i) ∧ (∀ s, (findLivingC c s).2 ≠ some i) ∧ readRef c i = none ∧
    (c.objs i).ec = false := by
  have hl := h.links.deadL i hd
  refine ⟨?_, ?_, ?_, ?_, hl.1, hl.2, ?_, ?_, ?_, ?_, (h.living.deadV i hd).1⟩
  · intro b hm; have := (h.names.mem b i).mp hm; simp [deadF, hd] at this
  · intro hm; have := (h.lists.olMem i).mp hm; simp [deadF, hd] at this
  · intro b hm; have := (h.living.mem b i).mp hm; simp [deadF, hd] at this
  · intro y hm
    have := (h.links.inv i y).mp hm
    rw [hl.1] at this; simp at this
  · intro x hx
    have : x ∈ contF c i := (h.links.inv x i).mpr hx
    rw [hl.2] at this; simp at this
  · intro nm hs
    have := (lookupC_spec h nm i).mp hs
    rw [hd] at this; simp at this
  · intro s hs
    have := findLivingC_some h hs
    rw [hd] at this; simp at this
  · simp [readRef, hd]

/-- **destructed_never_called.**  apply() on a destructed object (create / init / move_or_destruct hooks, and every
    hook call of the fan-out and of the move_or_destruct loop) does nothing at all. -/
theorem destructed_never_called (sc : Scripts) (f : Nat) (x : Nat) (k : Hook) (arg : Option Nat) (w : World)
    (hx : x < w.c.n) (hd : (w.c.objs x).destructed = true) (hf : (w.c.objs x).freed = false) :
    (exec sc (f + 1) (.hook x k arg) w).w = w ∧ (exec sc (f + 1) (.hook x k arg) w).out = .ok := by
  have : ¬ (w.c.n ≤ x) := by omega
  simp [exec, hd, hf, this]

/-- **destructed_never_moved_into.**  move_object into a destructed object, or of a destructed object, never succeeds
    and changes nothing in the structures. -/
theorem destructed_never_moved_into (sc : Scripts) (f : Nat) (item dest : Nat) (w : World)
    (hd : (w.c.objs dest).destructed = true ∨ (w.c.objs item).destructed = true) :
    (exec sc (f + 1) (.move item dest) w).out ≠ .ok ∧ (exec sc (f + 1) (.move item dest) w).w.c = w.c := by
  simp only [exec]
  split
  · simp [crashR, emit]
  · split
    · simp [raise, emit]
    · rename_i hid
      have hdd : (w.c.objs dest).destructed = true := by
        rcases hd with h | h
        · exact h
        · exact absurd h hid
      split
      · simp [crashR, emit]
      · simp [hangR, emit]
      · simp [raise, emit]
      · simp [hdd, raise, emit]

/-- **destructed_mover_never_linked** (move_object with a string destination).  The destination is resolved first -
    its load runs create() hooks that may destruct the mover - and only then `this_object()` is tested: when the mover
    is destructed after the load, the move does not succeed and leaves the structures exactly as the load left them (the
    destructed mover is not linked into the room). -/
theorem destructed_mover_never_linked (sc : Scripts) (f : Nat) (item : Nat) (b : Base) (w : World) (d : Nat)
    (hok : (exec sc (f + 1) (.load b true) w).out = .ok) (hv : (exec sc (f + 1) (.load b true) w).val = some d)
    (hd : ((exec sc (f + 1) (.load b true) w).w.c.objs item).destructed = true) :
    (exec sc (f + 2) (.moveStr item b) w).out ≠ .ok ∧
    (exec sc (f + 2) (.moveStr item b) w).w.c = (exec sc (f + 1) (.load b true) w).w.c := by
  have e : exec sc (f + 2) (.moveStr item b) w =
      (exec sc (f + 1) (.load b true) w).andThen fun w v =>
        match v with
        | none => raise w errNoDest
        | some d => exec sc (f + 1) (.move item d) w := rfl
  rw [e]
  simp only [R.andThen, hok, if_true, hv]
  exact destructed_never_moved_into sc f item d _ (Or.inr hd)

/-- **present_returns_member** (finding C08-F3, repaired by the third `fix:` commit).  Whatever the id() hooks do,
    present(str, env) only ever returns the object asked for, and only while it is in `env`'s inventory. -/
theorem present_returns_member (sc : Scripts) : ∀ (f : Nat) (env tgt : Nat) (cur : Option Nat) (w : World) (r : Nat),
    (exec sc f (.present env tgt cur) w).out = .ok → (exec sc f (.present env tgt cur) w).val = some r →
    r = tgt ∧ ((exec sc f (.present env tgt cur) w).w.c.objs r).super = some env := by
  intro f
  induction f with
  | zero => intro env tgt cur w r h; simp [exec] at h
  | succ f ih =>
    intro env tgt cur w r
    simp only [exec]
    split
    · intro _ h; simp at h
    · rename_i ob
      split
      · intro h; simp [crashR] at h
      · generalize exec sc f (.hook ob .id none) w = r1
        unfold R.andThen
        by_cases hok : r1.out = .ok
        · simp only [hok, if_true]
          by_cases h1 : (r1.w.c.objs ob).destructed = true
          · simp [h1]
          · by_cases h2 : (r1.w.c.objs ob).super = some env
            · by_cases h3 : ob = tgt
              · subst h3
                simp only [h1, h2]
                intro _ h
                simp at h
                subst h
                exact ⟨rfl, by simpa using h2⟩
              · simp only [h1, h2, h3]
                simpa using ih env tgt _ _ r
            · simp [h1, h2]
        · intro h; simp [hok] at h

/-- **remove_hash_precondition** (the weak spot named in the design).  remove_object_hash(ob) assigns
    `obj_table[h] = ob->next_hash` whatever find_obj_n found.  The precondition the code relies on is: `ob` is the live
    object registered under its name.  Under it exactly `ob` leaves its chain ... -/
theorem remove_hash_precondition {c : Core} (h : WorldInv c) {ob : Nat} (ho : ob < c.n)
    (hd : (c.objs ob).destructed = false) :
    removeHash c ob = setOt c (hashN (c.objs ob).name) ((c.ot (hashN (c.objs ob).name)).erase ob) :=
  removeHash_live h.names ho hd

/-- ... and without it (the object is in no chain, e.g. it has already been destructed) the WHOLE chain of its bucket
    is dropped: every other live object hashing there can no longer be found by name. -/
theorem remove_hash_absent_drops_chain (c : Core) (ob : Nat)
    (hnot : ob ∉ c.ot (hashN (c.objs ob).name)) :
    (removeHash c ob).ot (hashN (c.objs ob).name) = [] := by
  have e : removeHash c ob = setOt (lookupC c (c.objs ob).name).1 (hashN (c.objs ob).name)
      (nextHash (lookupC c (c.objs ob).name).1 ob) := rfl
  rw [e]
  have hobjs := (lookupC_n c (c.objs ob).name).2
  have hnot' : ob ∉ (lookupC c (c.objs ob).name).1.ot (hashN (c.objs ob).name) := by
    rcases lookupC_core c (c.objs ob).name with h | ⟨i, hi, h⟩
    · rw [h]; exact hnot
    · rw [h]
      simp only [setOt, if_true]
      intro hm
      exact hnot ((mtf_mem hi).mp hm)
  simp only [setOt, if_true, nextHash, hobjs]
  simp [hnot']

/-- the unlink block of destruct_object is entered by the interpreter only behind the check that the object is still
    live (the `fix:` commit adds the missing re-check after the nested destruct_object); on a live object with an
    empty inventory it preserves the invariant -/
theorem unlink_preserves {c : Core} (h : WorldInv c) {ob : Nat} (ho : ob < c.n)
    (hd : (c.objs ob).destructed = false) (he : (c.objs ob).contains = []) : WorldInv (finishDestruct c ob) :=
  finishDestruct_inv h ho hd he

/-- **no_dangling.**  No registry holds a pointer to a released structure: every object reachable through a name-table
    chain, obj_list, a living-name chain, an inventory or a `super` link is live, hence not released by
    remove_destructed_objects; so the walks over these structures (find_obj_n, the unlink loops, the fan-out cursor
    while it stays inside an inventory, find_living, objects(), livings()) never dereference freed memory
    (`anyFreed` is false for each of them). -/
theorem no_dangling {c : Core} (h : WorldInv c) :
    (∀ b, anyFreed c (c.ot b) = false) ∧ anyFreed c c.ol = false ∧ (∀ b, anyFreed c (c.lv b) = false) ∧
    (∀ y, anyFreed c (c.objs y).contains = false) ∧
    (∀ x y, (c.objs x).super = some y → (c.objs y).freed = false ∧ (c.objs y).destructed = false) := by
  have live_nf : ∀ i, (c.objs i).destructed = false → (c.objs i).freed = false := by
    intro i hd
    cases hf : (c.objs i).freed with
    | false => rfl
    | true => have := h.lists.freedDead i hf; simp [deadF, hd] at this
  have hall : ∀ (l : List Nat), (∀ i ∈ l, (c.objs i).destructed = false) → anyFreed c l = false := by
    intro l hl
    simp only [anyFreed, List.any_eq_false]
    intro i hi
    simp [live_nf i (hl i hi)]
  refine ⟨?_, ?_, ?_, ?_, ?_⟩
  · intro b; exact hall _ (fun i hi => ((h.names.mem b i).mp hi).2.1)
  · exact hall _ (fun i hi => ((h.lists.olMem i).mp hi).2)
  · intro b; exact hall _ (fun i hi => ((h.living.mem b i).mp hi).2.1)
  · intro y
    apply hall
    intro i hi
    have hs := (h.links.inv i y).mp hi
    cases hd : (c.objs i).destructed with
    | false => rfl
    | true => have := (h.links.deadL i hd).1; rw [this] at hs; simp at hs
  · intro x y hs
    have hm : x ∈ contF c y := (h.links.inv x y).mpr hs
    have hyd : (c.objs y).destructed = false := by
      cases hd : (c.objs y).destructed with
      | false => rfl
      | true => have := (h.links.deadL y hd).2; rw [this] at hm; simp at hm
    exact ⟨live_nf y hyd, hyd⟩

/-- **task_no_crash.**  A task whose pointers are valid (`TaskWf`: allocated and not released; for the fan-out the moved
    object is in the destination; for the unlink loop of destruct_object the object is still live) never reaches the
    `crash` outcome - no NULL / wild / dangling dereference in load, clone, move_object, its init() fan-out (the saved
    `next_ob` cursor included), destruct_object, its move_or_destruct loop, the unlink block (`remove_object_hash` only
    ever runs on a live object), add_action, command() - for every hook oracle and every fuel.  It also keeps
    `command_giver` valid, returns valid objects and keeps the ghost flag `initBad` false. -/
theorem task_no_crash (sc : Scripts) (f : Nat) (t : Task) (w : World) (hI : WorldInv w.c) (ht : TaskWf w.c t)
    (hwf : WorldWf w) (hg : w.initBad = false) : (exec sc f t w).out ≠ .crash :=
  (exec_good sc f t w hI ht hwf hg).nocrash

/-- **no_crash.**  Over all histories: whatever top-level commands ran before, the next top-level command does not
    reach the `crash` outcome - an operation issued by the master, or a backend tick calling heart_beat() in every
    enabled object (`remove_destructed_objects` in between included: it releases structures that no registry
    points to any more, `no_dangling`). -/
theorem no_crash (sc : Scripts) (cmds : List Cmd) (cmd : Cmd) :
    topOut sc (runCmds sc World.init cmds) cmd ≠ .crash :=
  (stepCmd_ok sc cmd (runCmds_ok sc cmds World.init init_ok)).2.1

/-- **move_walk_terminates.**  The cycle check of move_object, `for (ob = dest; ob; ob = ob->super)`, ends: in a state
    satisfying the invariant (the environment relation is a forest over the `n` allocated objects) the walk from any
    allocated object reaches the top within `n` steps - by pigeonhole over the visited objects (`nodup_bound`). -/
theorem move_walk_terminates {c : Core} (h : WorldInv c) (item dest : Nat) (hd : dest < c.n) :
    superWalk c item (c.n + 1) (some dest) ≠ .loop := superWalk_not_loop h item dest hd

/-- **task_no_hang.**  No well-formed task reaches the `hang` outcome (an endless `super` walk), whatever the hooks do. -/
theorem task_no_hang (sc : Scripts) (f : Nat) (t : Task) (w : World) (hI : WorldInv w.c) (ht : TaskWf w.c t)
    (hwf : WorldWf w) (hg : w.initBad = false) : (exec sc f t w).out ≠ .hang :=
  (exec_good sc f t w hI ht hwf hg).nohang

/-- **no_hang.**  Over all histories the next top-level command does not hang in move_object's cycle walk. -/
theorem no_hang (sc : Scripts) (cmds : List Cmd) (cmd : Cmd) :
    topOut sc (runCmds sc World.init cmds) cmd ≠ .hang :=
  (stepCmd_ok sc cmd (runCmds_ok sc cmds World.init init_ok)).2.2

/-- **objects_filter_sound** (finding C08-F4, repaired by the fourth `fix:` commit).  Whatever the filter function
    does - destruct the object it is asked about, destruct others, create or move objects - the array returned by
    objects(filter) lists only objects that are live when the efun returns, and it is a sub-list of the collected
    obj_list (`acc.reverse ++ rest`: in obj_list order, hence without duplicates). -/
theorem objects_filter_sound (sc : Scripts) : ∀ (f : Nat) (self : Nat) (rest acc : List Nat) (w : World),
    (exec sc f (.objloop self rest acc) w).out = .ok → (exec sc f (.objloop self rest acc) w).val ≠ none →
    (∀ x ∈ (exec sc f (.objloop self rest acc) w).w.res,
        ((exec sc f (.objloop self rest acc) w).w.c.objs x).destructed = false) ∧
    ((exec sc f (.objloop self rest acc) w).w.res).Sublist (acc.reverse ++ rest) := by
  intro f
  induction f with
  | zero => intro self rest acc w h; simp [exec] at h
  | succ f ih =>
    intro self rest acc w
    cases rest with
    | nil =>
      simp only [exec]
      intro _ _
      refine ⟨?_, by simp⟩
      intro x hx
      have := (List.mem_filter.mp hx).2
      simpa using this
    | cons ob rest' =>
      simp only [exec]
      split
      · intro h; simp [crashR] at h
      · split
        · intro h1 h2
          obtain ⟨a, b⟩ := ih self rest' acc w h1 h2
          refine ⟨a, b.trans ?_⟩
          simp
        · split
          · intro h; simp [crashR] at h
          · split
            · intro h; simp [raise] at h
            · generalize exec sc f (.hook self .ofilt (some ob)) w = r1
              unfold R.andThen
              by_cases hok : r1.out = .ok
              · simp only [hok, if_true]
                intro h1 h2
                obtain ⟨a, b⟩ := ih self rest' (ob :: acc) r1.w h1 h2
                exact ⟨a, by simpa using b⟩
              · intro h; simp [hok] at h

/-- **init_only_adjacent** (finding C08-F2, repaired by the second `fix:` commit).  `initBad` is a ghost flag of the
    model, set whenever init() is applied to `x` with this_player() = `y` while neither is the environment of the other
    nor do they share an environment.  It is never set: in every history init() is only exchanged between adjacent
    objects (the two added re-checks of the cursor object are what the proof uses). -/
theorem init_only_adjacent (sc : Scripts) (cmds : List Cmd) : (runCmds sc World.init cmds).initBad = false :=
  (runCmds_ok sc cmds World.init init_ok).ghost

/-- `command_giver` always points to an allocated, not released object between top-level commands -/
theorem command_giver_valid (sc : Scripts) (cmds : List Cmd) (g : Nat)
    (h : (runCmds sc World.init cmds).cg = some g) : NF (runCmds sc World.init cmds).c g :=
  (runCmds_ok sc cmds World.init init_ok).wf g h

/-- **command_target_live.**  user_parser only ever calls the action of a live object ("a destructed object is never
    given commands"; `destructed_never_called` covers the apply itself). -/
theorem command_target_live (c : Core) (a : Nat) (verb : String) (t : String × Nat)
    (h : (c.objs a).sent.find? (fun t => decide (t.2 < c.n) && !(c.objs t.2).destructed && t.1 == verb) = some t) :
    t.2 < c.n ∧ (c.objs t.2).destructed = false := by
  have := List.find?_some h
  simp at this
  exact this.1

/-- **destructed_drops_sentences.**  After the unlink block the destructed object holds no sentence, and the
    command-enabled objects around it (its environment and everything in it) hold no sentence defined by it. -/
theorem destructed_drops_sentences {c : Core} (h : WorldInv c) {ob : Nat} (ho : ob < c.n)
    (hd : (c.objs ob).destructed = false) :
    ((finishDestruct (unsentDestruct c ob) ob).objs ob).sent = [] ∧
    (∀ s u, (c.objs ob).super = some s → (u = s ∨ u ∈ (c.objs s).contains) → (c.objs u).ec = true →
      ∀ t ∈ ((unsentDestruct c ob).objs u).sent, t.2 ≠ ob) := by
  constructor
  · have hso := unsentDestruct_sentOnly c ob
    have hu := sentOnly_inv hso h
    have hpr := sentOnly_proj hso
    rw [finishDestruct_eq hu.names (by rw [hpr.1]; exact ho) (by rw [(sentOnly_obj hso ob).1]; exact hd)]
    simp [destroyed, deadObj]
  · intro s u hs hu hec t ht
    simp only [unsentDestruct, hs, mapSent] at ht
    simp only [hu, hec, and_self, if_true, rmSent, List.mem_filter] at ht
    simpa using ht.2

theorem ops_nil_not_err (sc : Scripts) (f : Nat) (self : Nat) (arg : Option Nat) (w : World) :
    (exec sc f (.ops self arg []) w).out ≠ .err := by
  cases f <;> simp [exec]

/-- **catch_contains_errors.**  `catch (op)` never lets an LPC error through to the code around it (the script goes on),
    and after a caught error command_giver, restrict_destruct and the catch depth are what they were at the catch. -/
theorem catch_contains_errors (sc : Scripts) (f : Nat) (self : Nat) (arg : Option Nat) (o : Op) (w : World) :
    (exec sc (f + 1) (.ops self arg [.ct o]) w).out ≠ .err := by
  simp only [exec]
  generalize exec sc f (.ops self arg [o]) (emit { w with catching := w.catching + 1 } s!"ctb {oid self}") = r0
  unfold R.andThen
  cases h : r0.out <;> simp [h] <;> (split <;> simp [ops_nil_not_err])

theorem ops_nil_guards (sc : Scripts) (f : Nat) (self : Nat) (arg : Option Nat) (w : World) :
    (exec sc f (.ops self arg []) w).w.cg = w.cg ∧ (exec sc f (.ops self arg []) w).w.restrict = w.restrict ∧
    (exec sc f (.ops self arg []) w).w.catching = w.catching := by
  cases f <;> simp [exec, emit]

/-- **catch_restores_guards.**  When the operation inside `catch ()` raised an error, the code after the catch runs with
    command_giver, restrict_destruct and the catch depth of the moment the catch was entered (save_context /
    restore_context) - in particular a caught "Only this_object() can be destructed from move_or_destruct" leaves the
    restriction of the running move_or_destruct hook in force. -/
theorem catch_restores_guards (sc : Scripts) (f : Nat) (self : Nat) (arg : Option Nat) (o : Op) (w : World)
    (herr : (exec sc f (.ops self arg [o]) (emit { w with catching := w.catching + 1 } s!"ctb {oid self}")).out = .err) :
    (exec sc (f + 1) (.ops self arg [.ct o]) w).w.cg = w.cg ∧
    (exec sc (f + 1) (.ops self arg [.ct o]) w).w.restrict = w.restrict ∧
    (exec sc (f + 1) (.ops self arg [.ct o]) w).w.catching = w.catching := by
  simp only [exec]
  generalize exec sc f (.ops self arg [o]) (emit { w with catching := w.catching + 1 } s!"ctb {oid self}") = r0 at herr
  simp only [herr, R.andThen]
  simp only [if_true]
  split
  · simp [emit]
  · have := ops_nil_guards sc f self arg (emit { r0.w with catching := w.catching, cg := w.cg, restrict := w.restrict, ldepth := w.ldepth } s!"r ct {oid self} 1")
    simpa [emit] using this
/-- `catch_restores_guards` is not vacuous: `catch (error ("boom"))` -/
example (sc : Scripts) : (exec sc 1 (.ops 1 none [.err])
    (emit { World.init with catching := World.init.catching + 1 } s!"ctb {oid 1}")).out = .err := by
  simp [exec, raise, R.andThen]

/-- **exec_stable.**  Inside one well-formed task no object is un-allocated, every allocated object keeps its name and a
    destructed object stays destructed - whatever the hooks do. -/
theorem exec_stable (sc : Scripts) (f : Nat) (t : Task) (w : World) (hI : WorldInv w.c) (ht : TaskWf w.c t)
    (hwf : WorldWf w) (hg : w.initBad = false) :
    w.c.n ≤ (exec sc f t w).w.c.n ∧
    (∀ i, i < w.c.n → ((exec sc f t w).w.c.objs i).name = (w.c.objs i).name) ∧
    (∀ i, i < w.c.n → (w.c.objs i).destructed = true → ((exec sc f t w).w.c.objs i).destructed = true) :=
  let g := exec_good sc f t w hI ht hwf hg
  ⟨g.le.le, g.le.name, g.le.dead⟩

set_option linter.unusedSimpArgs false in
set_option linter.unusedVariables false in
/-- what find_or_load_object / load_object hands back: an allocated object that carries the requested name - through
    the lookup, the plain load, the inherit detour with its re-lookup and the reload, whatever the create() hooks of the
    inherited program and of the object itself do; with the `*sigh*` test (strict) it is also not destructed -/
theorem load_val_named (sc : Scripts) : ∀ (f : Nat) (b : Base) (strict : Bool) (w : World), Inv w.c → WorldWf w →
    w.initBad = false → (exec sc f (.load b strict) w).out = .ok → ∀ i, (exec sc f (.load b strict) w).val = some i →
    i < (exec sc f (.load b strict) w).w.c.n ∧
    ((exec sc f (.load b strict) w).w.c.objs i).name = { base := b, num := none } ∧
    (strict = true → ((exec sc f (.load b strict) w).w.c.objs i).destructed = false) := by
  intro f
  induction f with
  | zero => intro b strict w _ _ _ h; simp [exec] at h
  | succ f ih =>
    intro b strict w hI hwf hg
    have hl := lookupC_inv { base := b, num := none } hI
    have hn0 := lookupC_n w.c { base := b, num := none }
    -- the last step: the strict filter
    have hfin : ∀ (r : R), (r.out = .ok → ∀ i, r.val = some i → i < r.w.c.n ∧ (r.w.c.objs i).name = { base := b, num := none }) →
        let r' := r.andThen fun w v => match v with
          | none => ({ w := w, val := none } : R)
          | some ob => if strict = true ∧ (w.c.objs ob).destructed = true then { w := w, val := none } else { w := w, val := some ob }
        r'.out = .ok → ∀ i, r'.val = some i → i < r'.w.c.n ∧ (r'.w.c.objs i).name = { base := b, num := none } ∧
          (strict = true → (r'.w.c.objs i).destructed = false) := by
      intro r hr
      simp only [R.andThen]
      by_cases hok : r.out = .ok
      · simp only [hok, if_true]
        cases hv : r.val with
        | none => intro _ i h; simp at h
        | some ob =>
          have := hr hok ob hv
          simp only []
          split
          · intro _ i h; simp at h
          · rename_i hns
            intro _ i h
            simp at h
            subst h
            refine ⟨this.1, this.2, fun hs => ?_⟩
            cases hd : (r.w.c.objs ob).destructed with
            | false => rfl
            | true => exact absurd ⟨hs, hd⟩ hns
      · intro h; simp [hok] at h
    cases b with
    | nofile =>
      simp only [exec]
      split
      · intro h; simp [crashR] at h
      · split
        · rename_i i hsome
          have := (lookupC_spec hI _ i).mp hsome
          intro _ j hj
          simp at hj; subst hj
          simp only [hn0.1, hn0.2]
          exact ⟨this.1, this.2.2, fun _ => this.2.1⟩
        · split
          · intro h; simp [raise] at h
          · refine hfin _ ?_
            intro _ i h; simp at h
    | badfile =>
      simp only [exec]
      split
      · intro h; simp [crashR] at h
      · split
        · rename_i i hsome
          have := (lookupC_spec hI _ i).mp hsome
          intro _ j hj
          simp at hj; subst hj
          simp only [hn0.1, hn0.2]
          exact ⟨this.1, this.2.2, fun _ => this.2.1⟩
        · split
          · intro h; simp [raise] at h
          · refine hfin _ ?_
            intro h; simp [raise] at h
    | bp k =>
      simp only [exec]
      split
      · intro h; simp [crashR] at h
      · split
        · rename_i i hsome
          have := (lookupC_spec hI _ i).mp hsome
          intro _ j hj
          simp at hj; subst hj
          simp only [hn0.1, hn0.2]
          exact ⟨this.1, this.2.2, fun _ => this.2.1⟩
        · rename_i hnone
          have hsame := lookupC_none_core hnone
          have hfree := lookupC_none_free hI hnone
          split
          · intro h; simp [raise] at h
          · refine hfin _ ?_
            have hA := nfle_alloc (cl := false) (nm := { base := .bp k, num := none }) hI hfree
            have hAI := alloc_inv (cl := false) (nm := { base := .bp k, num := none }) hI hfree (by simp)
            have hAe := alloc_eq (cl := false) (nm := { base := .bp k, num := none }) hI hfree
            rw [hsame]
            intro hok i hv
            have g1 := exec_good sc f (.hook (alloc w.c { base := .bp k, num := none } false).2 .create none)
              { w with c := (alloc w.c { base := .bp k, num := none } false).1, ldepth := w.ldepth + 1 } (by exact hAI) ⟨hA.2, by intro y h; cases h⟩
              (fun g hgg => hA.1 g (hwf g hgg)) (by exact hg)
            generalize exec sc f (.hook (alloc w.c { base := .bp k, num := none } false).2 .create none)
              { w with c := (alloc w.c { base := .bp k, num := none } false).1, ldepth := w.ldepth + 1 } = r1 at hok hv g1 ⊢
            simp only [R.andThen] at hok hv ⊢
            by_cases h1 : r1.out = .ok
            · simp only [h1, if_true] at hok hv ⊢
              simp at hv
              subst hv
              refine ⟨(g1.le.nf _ hA.2).1, ?_⟩
              show (r1.w.c.objs (alloc w.c { base := .bp k, num := none } false).2).name = _
              rw [g1.le.name _ hA.2.1]
              rw [hAe]; simp [allocCore]
            · simp [h1] at hok
    | master =>
      simp only [exec]
      split
      · intro h; simp [crashR] at h
      · split
        · rename_i i hsome
          have := (lookupC_spec hI _ i).mp hsome
          intro _ j hj
          simp at hj; subst hj
          simp only [hn0.1, hn0.2]
          exact ⟨this.1, this.2.2, fun _ => this.2.1⟩
        · rename_i hnone
          have hsame := lookupC_none_core hnone
          have hfree := lookupC_none_free hI hnone
          split
          · intro h; simp [raise] at h
          · refine hfin _ ?_
            have hA := nfle_alloc (cl := false) (nm := { base := .master, num := none }) hI hfree
            have hAI := alloc_inv (cl := false) (nm := { base := .master, num := none }) hI hfree (by simp)
            have hAe := alloc_eq (cl := false) (nm := { base := .master, num := none }) hI hfree
            rw [hsame]
            intro hok i hv
            have g1 := exec_good sc f (.hook (alloc w.c { base := .master, num := none } false).2 .create none)
              { w with c := (alloc w.c { base := .master, num := none } false).1, ldepth := w.ldepth + 1 } (by exact hAI) ⟨hA.2, by intro y h; cases h⟩
              (fun g hgg => hA.1 g (hwf g hgg)) (by exact hg)
            generalize exec sc f (.hook (alloc w.c { base := .master, num := none } false).2 .create none)
              { w with c := (alloc w.c { base := .master, num := none } false).1, ldepth := w.ldepth + 1 } = r1 at hok hv g1 ⊢
            simp only [R.andThen] at hok hv ⊢
            by_cases h1 : r1.out = .ok
            · simp only [h1, if_true] at hok hv ⊢
              simp at hv
              subst hv
              refine ⟨(g1.le.nf _ hA.2).1, ?_⟩
              show (r1.w.c.objs (alloc w.c { base := .master, num := none } false).2).name = _
              rw [g1.le.name _ hA.2.1]
              rw [hAe]; simp [allocCore]
            · simp [h1] at hok
    | simul =>
      simp only [exec]
      split
      · intro h; simp [crashR] at h
      · split
        · rename_i i hsome
          have := (lookupC_spec hI _ i).mp hsome
          intro _ j hj
          simp at hj; subst hj
          simp only [hn0.1, hn0.2]
          exact ⟨this.1, this.2.2, fun _ => this.2.1⟩
        · rename_i hnone
          have hsame := lookupC_none_core hnone
          have hfree := lookupC_none_free hI hnone
          split
          · intro h; simp [raise] at h
          · refine hfin _ ?_
            have hA := nfle_alloc (cl := false) (nm := { base := .simul, num := none }) hI hfree
            have hAI := alloc_inv (cl := false) (nm := { base := .simul, num := none }) hI hfree (by simp)
            have hAe := alloc_eq (cl := false) (nm := { base := .simul, num := none }) hI hfree
            rw [hsame]
            intro hok i hv
            have g1 := exec_good sc f (.hook (alloc w.c { base := .simul, num := none } false).2 .create none)
              { w with c := (alloc w.c { base := .simul, num := none } false).1, ldepth := w.ldepth + 1 } (by exact hAI) ⟨hA.2, by intro y h; cases h⟩
              (fun g hgg => hA.1 g (hwf g hgg)) (by exact hg)
            generalize exec sc f (.hook (alloc w.c { base := .simul, num := none } false).2 .create none)
              { w with c := (alloc w.c { base := .simul, num := none } false).1, ldepth := w.ldepth + 1 } = r1 at hok hv g1 ⊢
            simp only [R.andThen] at hok hv ⊢
            by_cases h1 : r1.out = .ok
            · simp only [h1, if_true] at hok hv ⊢
              simp at hv
              subst hv
              refine ⟨(g1.le.nf _ hA.2).1, ?_⟩
              show (r1.w.c.objs (alloc w.c { base := .simul, num := none } false).2).name = _
              rw [g1.le.name _ hA.2.1]
              rw [hAe]; simp [allocCore]
            · simp [h1] at hok
    | ih k =>
      simp only [exec]
      split
      · intro h; simp [crashR] at h
      · split
        · rename_i i hsome
          have := (lookupC_spec hI _ i).mp hsome
          intro _ j hj
          simp at hj; subst hj
          simp only [hn0.1, hn0.2]
          exact ⟨this.1, this.2.2, fun _ => this.2.1⟩
        · rename_i hnone
          have hsame := lookupC_none_core hnone
          have hfree := lookupC_none_free hI hnone
          have hlB := lookupC_inv { base := .bp k, num := none } hl
          have hleB := nfle_lookupC (lookupC w.c { base := .ih k, num := none }).1 { base := .bp k, num := none }
          have hle1 := nfle_lookupC w.c { base := .ih k, num := none }
          have hnB := lookupC_n (lookupC w.c { base := .ih k, num := none }).1 { base := .bp k, num := none }
          have hwf2 : ∀ g, w.cg = some g → NF (lookupC (lookupC w.c { base := .ih k, num := none }).1 { base := .bp k, num := none }).1 g :=
            fun g hgg => hleB g (hle1 g (hwf g hgg))
          split
          · intro h; simp [raise] at h
          · refine hfin _ ?_
            split
            · rename_i r hr
              split at hr
              · cases hr; intro h; simp [crashR] at h
              · split at hr
                · cases hr
                · cases hr
                  intro hok i hv
                  have gA := exec_good sc f (.load (.bp k) false)
                    { w with c := (lookupC (lookupC w.c { base := .ih k, num := none }).1 { base := .bp k, num := none }).1, ldepth := w.ldepth + 1 }
                    (by exact hlB) trivial (by exact hwf2) (by exact hg)
                  have hIA := exec_inv sc f (.load (.bp k) false)
                    { w with c := (lookupC (lookupC w.c { base := .ih k, num := none }).1 { base := .bp k, num := none }).1, ldepth := w.ldepth + 1 }
                    (by exact hlB)
                  generalize exec sc f (.load (.bp k) false)
                    { w with c := (lookupC (lookupC w.c { base := .ih k, num := none }).1 { base := .bp k, num := none }).1, ldepth := w.ldepth + 1 } = rA at hok hv gA hIA ⊢
                  simp only [R.andThen] at hok hv ⊢
                  by_cases hA1 : rA.out = .ok
                  · simp only [hA1, if_true] at hok hv ⊢
                    cases hvA : rA.val with
                    | none => simp [hvA, raise] at hok
                    | some d =>
                      simp only [hvA] at hok hv ⊢
                      have hB := ih (.ih k) false rA.w hIA gA.wf gA.ghost
                      generalize exec sc f (.load (.ih k) false) rA.w = rB at hok hv hB ⊢
                      by_cases hB1 : rB.out = .ok
                      · simp only [hB1, if_true] at hok hv ⊢
                        have := hB hB1 i (by simpa using hv)
                        exact ⟨this.1, this.2.1⟩
                      · simp [hB1] at hok
                  · simp [hA1] at hok
            · rename_i w' hr
              split at hr
              · cases hr
              · split at hr
                · cases hr
                  have hfree' : ∀ i, i < (lookupC (lookupC w.c { base := .ih k, num := none }).1 { base := .bp k, num := none }).1.n →
                      ((lookupC (lookupC w.c { base := .ih k, num := none }).1 { base := .bp k, num := none }).1.objs i).destructed = false →
                      ((lookupC (lookupC w.c { base := .ih k, num := none }).1 { base := .bp k, num := none }).1.objs i).name ≠ { base := .ih k, num := none } := by
                    intro i hi hd
                    rw [hnB.1, hn0.1] at hi
                    rw [hnB.2, hn0.2] at hd ⊢
                    exact hfree i hi hd
                  have hA := nfle_alloc (cl := false) (nm := { base := .ih k, num := none }) hlB hfree'
                  have hAI := alloc_inv (cl := false) (nm := { base := .ih k, num := none }) hlB hfree' (by simp)
                  have hAe := alloc_eq (cl := false) (nm := { base := .ih k, num := none }) hlB hfree'
                  intro hok i hv
                  have g1 := exec_good sc f (.hook (alloc (lookupC (lookupC w.c { base := .ih k, num := none }).1 { base := .bp k, num := none }).1 { base := .ih k, num := none } false).2 .create none)
                    { w with c := (alloc (lookupC (lookupC w.c { base := .ih k, num := none }).1 { base := .bp k, num := none }).1 { base := .ih k, num := none } false).1, ldepth := w.ldepth + 1 } (by exact hAI) ⟨hA.2, by intro y h; cases h⟩
                    (fun g hgg => hA.1 g (hwf2 g hgg)) (by exact hg)
                  generalize exec sc f (.hook (alloc (lookupC (lookupC w.c { base := .ih k, num := none }).1 { base := .bp k, num := none }).1 { base := .ih k, num := none } false).2 .create none)
                    { w with c := (alloc (lookupC (lookupC w.c { base := .ih k, num := none }).1 { base := .bp k, num := none }).1 { base := .ih k, num := none } false).1, ldepth := w.ldepth + 1 } = r1 at hok hv g1 ⊢
                  simp only [R.andThen] at hok hv ⊢
                  by_cases h1 : r1.out = .ok
                  · simp only [h1, if_true] at hok hv ⊢
                    simp at hv
                    subst hv
                    refine ⟨(g1.le.nf _ hA.2).1, ?_⟩
                    show (r1.w.c.objs (alloc (lookupC (lookupC w.c { base := .ih k, num := none }).1 { base := .bp k, num := none }).1 { base := .ih k, num := none } false).2).name = _
                    rw [g1.le.name _ hA.2.1]
                    rw [hAe]; simp [allocCore]
                  · simp [h1] at hok
                · cases hr

/-- **load_returns_registered** (the oracle clause `load-find-disagree`, seeded change C08-5, as a theorem).  When
    find_or_load_object(name) returns an object, that object is the one the name table holds under `name`:
    find_object(name) and load_object(name) agree - for every history of re-entrant loads. -/
theorem load_returns_registered (sc : Scripts) (f : Nat) (b : Base) (w : World) (hI : WorldInv w.c) (hwf : WorldWf w)
    (hg : w.initBad = false) (hok : (exec sc f (.load b true) w).out = .ok) (i : Nat)
    (hv : (exec sc f (.load b true) w).val = some i) :
    absMap (exec sc f (.load b true) w).w.c { base := b, num := none } = some i := by
  have h := load_val_named sc f b true w hI hwf hg hok i hv
  exact (absMap_spec (exec_inv sc f (.load b true) w hI) _ i).mpr ⟨h.1, h.2.2 rfl, h.2.1⟩

/-! ## non-vacuity: the hypotheses are met by non-trivial states -/

theorem init_eq : Core.init =
    allocCore (allocCore Core.empty { base := .simul, num := none } false) { base := .master, num := none } false := by
  have hfree0 : ∀ i, i < Core.empty.n → (Core.empty.objs i).destructed = false →
      (Core.empty.objs i).name ≠ { base := .simul, num := none } := fun i hi => by simp [Core.empty] at hi
  have h0 : Core.init = (alloc (alloc Core.empty { base := .simul, num := none } false).1 { base := .master, num := none } false).1 := rfl
  rw [h0, alloc_eq empty_inv hfree0]
  have h1 : Inv (allocCore Core.empty { base := .simul, num := none } false) := by
    have := alloc_inv (cl := false) empty_inv hfree0 (by simp)
    rwa [alloc_eq empty_inv hfree0] at this
  rw [alloc_eq h1]
  intro i hi _
  simp only [allocCore, Core.empty] at hi ⊢
  have : i = 0 := by omega
  subst this
  simp

/-- the initial state satisfies the invariant and holds two live objects (simul_efun, master), both registered -/
example : WorldInv Core.init ∧ Core.init.n = 2 ∧ (Core.init.objs 1).name = { base := .master, num := none } ∧
    (lookupC Core.init { base := .master, num := none }).2 = some 1 := by
  refine ⟨init_inv, ?_, ?_, ?_⟩
  · rw [init_eq]; rfl
  · rw [init_eq]; simp [allocCore, Core.empty]
  · apply (lookup_unique_live init_inv _ 1).1.mpr
    rw [init_eq]; simp [allocCore, Core.empty]

/-- the refinement theorems of NV/C08/Refine.lean are not vacuous: in the initial state the table, read as a map,
    sends the master's name to object 1 -/
example : absMap Core.init { base := .master, num := none } = some 1 :=
  (absMap_spec init_inv _ 1).mpr (by rw [init_eq]; simp [allocCore, Core.empty])

/-- a state with a destructed object: the master-less world after destructing the simul_efun object satisfies the
    invariant, and `destructed_never_visible` applies to object 0 -/
example : WorldInv (finishDestruct Core.init 0) ∧ ((finishDestruct Core.init 0).objs 0).destructed = true := by
  have h0 : (0 : Nat) < Core.init.n := by rw [init_eq]; simp [allocCore, Core.empty]
  have hd : (Core.init.objs 0).destructed = false := by rw [init_eq]; simp [allocCore, Core.empty]
  have he : (Core.init.objs 0).contains = [] := by rw [init_eq]; simp [allocCore, Core.empty]
  refine ⟨finishDestruct_inv init_inv h0 hd he, ?_⟩
  rw [finishDestruct_eq init_inv.names h0 hd]
  simp [destroyed, deadObj]

/-- `destructed_never_called` applies to that state: object 0 is allocated, destructed and not released -/
example : (0 : Nat) < (finishDestruct Core.init 0).n ∧ ((finishDestruct Core.init 0).objs 0).destructed = true ∧
    ((finishDestruct Core.init 0).objs 0).freed = false := by
  have h0 : (0 : Nat) < Core.init.n := by rw [init_eq]; simp [allocCore, Core.empty]
  have hd : (Core.init.objs 0).destructed = false := by rw [init_eq]; simp [allocCore, Core.empty]
  rw [finishDestruct_eq init_inv.names h0 hd]
  refine ⟨?_, by simp [destroyed, deadObj], ?_⟩
  · show (unlinkC Core.init 0).n > 0; rw [(unlinkC_fields Core.init 0).1]; exact h0
  · have := congrFun (unlinkC_same Core.init 0).2.2.1 0
    simp only [freedF] at this
    simp [destroyed, deadObj, this]
    rw [init_eq]; simp [allocCore, Core.empty]

/-- a non-trivial forest: after moving object 0 into object 1 the invariant holds and 0 is in 1's inventory -/
example : WorldInv (relink Core.init 0 1) ∧ 0 ∈ ((relink Core.init 0 1).objs 1).contains := by
  have h0 : (0 : Nat) < Core.init.n := by rw [init_eq]; simp [allocCore, Core.empty]
  have h1 : (1 : Nat) < Core.init.n := by rw [init_eq]; simp [allocCore, Core.empty]
  have hd0 : (Core.init.objs 0).destructed = false := by rw [init_eq]; simp [allocCore, Core.empty]
  have hd1 : (Core.init.objs 1).destructed = false := by rw [init_eq]; simp [allocCore, Core.empty]
  have hs1 : (Core.init.objs 1).super = none := by rw [init_eq]; simp [allocCore, Core.empty]
  refine ⟨relink_inv init_inv h0 hd0 h1 hd1 ?_, ?_⟩
  · intro h
    rcases h with h | h
    · omega
    · cases h with
      | base hb => simp [supF, hs1] at hb
      | step hb _ => simp [supF, hs1] at hb
  · simp [relink, setObj]

/-- the hypotheses of `task_no_crash` are met, e.g. by destruct(master) in the initial state -/
example : WorldInv World.init.c ∧ TaskWf World.init.c (.destruct 1) ∧ WorldWf World.init ∧ World.init.initBad = false := by
  refine ⟨init_inv, ?_, init_ok.wf, rfl⟩
  show NF Core.init 1
  refine live_nf init_inv ?_ ?_ <;> (rw [init_eq]; simp [allocCore, Core.empty])

/-- `world_inv_preserved` / `reachable_inv` are about arbitrary scripts: instantiate with a hook oracle in which every
    create hook clones and every init hook destructs the moved object -/
example (cmds : List Cmd) :
    WorldInv (runCmds (fun i k _ => match k with
      | .create => [.cl (.bp 0)]
      | .init => [.de i]
      | .mod => [.mvarg]
      | .act => [.de i]
      | .id => [.mv i 1]
      | .hbeat => [.de i]
      | .ofilt => [.ct (.de i)]) World.init cmds).c := reachable_inv _ cmds

/-- `objects_filter_sound` is not vacuous: the filter pass over an empty rest returns an array (the two initial objects
    accepted so far) -/
example (sc : Scripts) : (exec sc 1 (.objloop 1 [] [0, 1]) World.init).out = .ok ∧
    (exec sc 1 (.objloop 1 [] [0, 1]) World.init).val ≠ none := by
  simp [exec]

/-- `load_returns_registered` is not vacuous: loading the master's name in the initial state returns object 1 -/
example (sc : Scripts) : (exec sc 1 (.load .master true) World.init).out = .ok ∧
    (exec sc 1 (.load .master true) World.init).val = some 1 := by
  have h1 : (lookupC World.init.c { base := .master, num := none }).2 = some 1 :=
    (lookupC_spec init_inv _ 1).mpr (by show _ ∧ _ ∧ _; rw [init_eq]; simp [allocCore, Core.empty])
  have h2 := anyFreed_ot (c := World.init.c) init_inv (hashN { base := .master, num := none })
  simp [exec, h1, h2]

end NV.C08
