/-
C08 helper lemmas, part 2: move_object's relinking and destruct_object's unlinking preserve the invariant groups.
-/
import NV.C08.Lemmas

namespace NV.C08

set_option linter.unusedSimpArgs false


/-- move_object's relinking on the projections -/
theorem links_relink {n : Nat} {dead : Nat → Bool} {sup : Nat → Option Nat} {cont : Nat → List Nat} {item dest : Nat}
    (hL : Links n dead sup cont) (hi : item < n) (hid : dead item = false) (hd : dest < n) (hdd : dead dest = false)
    (hchk : ¬ (dest = item ∨ Anc sup dest item)) :
    Links n dead (redirect sup item dest)
      (fun j => if j = dest then item :: (cont j).filter (· ≠ item) else (cont j).filter (· ≠ item)) where
  blank := by
    intro i hge
    have := hL.blank i hge
    have h1 : i ≠ item := by omega
    have h2 : i ≠ dest := by omega
    simp [redirect, h1, h2, this]
  inv := by
    intro x y
    have hne : dest ≠ item := fun e => hchk (Or.inl e)
    by_cases hx : x = item
    · subst hx
      by_cases hy : y = dest
      · subst hy; simp [redirect]
      · simp [redirect, hy, mem_filter_ne]; exact fun e => hy e.symm
    · have := hL.inv x y
      by_cases hy : y = dest
      · subst hy; simp [redirect, hx, mem_filter_ne, this]
      · simp [redirect, hx, hy, mem_filter_ne, this]
  nodup := by
    intro y
    by_cases hy : y = dest
    · subst hy
      simp only [if_true]
      rw [List.nodup_cons]
      exact ⟨by simp [mem_filter_ne], (hL.nodup _).filter _⟩
    · simp only [hy, if_false]; exact (hL.nodup _).filter _
  deadL := by
    intro i hdi
    have := hL.deadL i hdi
    have h1 : i ≠ item := fun e => by subst e; simp [hid] at hdi
    have h2 : i ≠ dest := fun e => by subst e; simp [hdd] at hdi
    simp [redirect, h1, h2, this]
  acyc := acyclic_redirect hL.acyc hchk



theorem relink_fields (c : Core) (item dest : Nat) :
    (relink c item dest).n = c.n ∧ (relink c item dest).ot = c.ot ∧ (relink c item dest).ol = c.ol ∧
    (relink c item dest).dl = c.dl ∧ (relink c item dest).lv = c.lv ∧ (relink c item dest).ctr = c.ctr := by
  unfold relink
  cases (c.objs item).super <;> simp [setObj]

theorem relink_same (c : Core) (item dest : Nat) :
    deadF (relink c item dest) = deadF c ∧ nameF (relink c item dest) = nameF c ∧
    freedF (relink c item dest) = freedF c ∧ ecF (relink c item dest) = ecF c ∧ lnF (relink c item dest) = lnF c := by
  refine ⟨?_, ?_, ?_, ?_, ?_⟩ <;> funext j <;> unfold relink <;> cases (c.objs item).super <;>
    simp only [deadF, nameF, freedF, ecF, lnF, setObj] <;> (repeat' split) <;> simp_all

theorem relink_sup (c : Core) (item dest : Nat) (hne : dest ≠ item) :
    supF (relink c item dest) = redirect (supF c) item dest := by
  funext j
  unfold relink
  cases h : (c.objs item).super <;>
    simp only [supF, redirect, setObj] <;> (repeat' split) <;> simp_all

theorem relink_cont {c : Core} {item dest : Nat} (hL : Links c.n (deadF c) (supF c) (contF c)) (hne : dest ≠ item) :
    contF (relink c item dest) =
      fun j => if j = dest then item :: (contF c j).filter (· ≠ item) else (contF c j).filter (· ≠ item) := by
  have hself : ∀ y, supF c item ≠ some y → item ∉ contF c y := fun y h hm => h ((hL.inv item y).mp hm)
  have hnoself : (c.objs item).super ≠ some item := fun h => hL.acyc item (Anc.base h)
  funext j
  show ((relink c item dest).objs j).contains = _
  unfold relink
  cases h : (c.objs item).super with
  | none =>
    have hf : ∀ y, (contF c y).filter (· ≠ item) = contF c y :=
      fun y => filter_ne_of_not_mem (hself y (by simp [supF, h]))
    simp only [hf]
    simp only [setObj, contF]
    by_cases h1 : j = dest
    · subst h1; simp [hne]
    · by_cases h2 : j = item
      · subst h2; simp [h1]
      · simp [h1, h2]
  | some s =>
    have hf : ∀ y, y ≠ s → (contF c y).filter (· ≠ item) = contF c y :=
      fun y hy => filter_ne_of_not_mem (hself y (by simp [supF, h]; exact fun e => hy e.symm))
    have hsi : s ≠ item := fun e => hnoself (by rw [h, e])
    by_cases hjs : j = s
    · subst hjs
      simp only [setObj, contF]
      by_cases h1 : j = dest
      · subst h1; simp [hne, hsi]
      · simp [h1, hsi]
    · have := hf j hjs
      simp only [this]
      simp only [setObj, contF]
      by_cases h1 : j = dest
      · subst h1; simp [hne, hjs]
      · by_cases h2 : j = item
        · subst h2; simp [h1, hjs]
        · simp [h1, h2, hjs]



theorem superWalk_clear {c : Core} {item : Nat} : ∀ (f : Nat) (dest : Nat),
    superWalk c item f (some dest) = .clear → ¬ (dest = item ∨ Anc (supF c) dest item) := by
  intro f
  induction f with
  | zero => intro dest h; simp [superWalk] at h
  | succ f ih =>
    intro dest h
    simp only [superWalk] at h
    split at h
    · simp at h
    · split at h
      · simp at h
      · rename_i hne
        intro hor
        rcases hor with e | ha
        · exact hne e
        · cases hs : (c.objs dest).super with
          | none =>
            cases ha with
            | base h1 => simp [supF, hs] at h1
            | step h1 _ => simp [supF, hs] at h1
          | some p =>
            rw [hs] at h
            have := ih p h
            apply this
            cases ha with
            | base h1 => simp [supF, hs] at h1; exact Or.inl h1
            | step h1 h2 => simp [supF, hs] at h1; subst h1; exact Or.inr h2

/-- destruct_object's unlinking on the projections -/
theorem links_destroy {n : Nat} {dead : Nat → Bool} {sup : Nat → Option Nat} {cont : Nat → List Nat} {ob : Nat}
    (hL : Links n dead sup cont) (ho : ob < n) (he : cont ob = []) :
    Links n (fun j => if j = ob then true else dead j) (fun j => if j = ob then none else sup j)
      (fun j => if j = ob then [] else (cont j).filter (· ≠ ob)) where
  blank := by
    intro i hge
    have := hL.blank i hge
    have h1 : i ≠ ob := by omega
    simp [h1, this]
  inv := by
    intro x y
    by_cases hx : x = ob
    · subst hx
      by_cases hy : y = x
      · simp [hy]
      · simp [hy, mem_filter_ne]
    · have := hL.inv x y
      by_cases hy : y = ob
      · subst hy
        have h0 : x ∉ cont y := by rw [he]; simp
        simp [hx]
        exact fun h => h0 ((hL.inv x y).mpr h)
      · simp [hx, hy, mem_filter_ne, this]
  nodup := by
    intro y
    by_cases hy : y = ob
    · simp [hy]
    · simp only [hy, if_false]; exact (hL.nodup _).filter _
  deadL := by
    intro i hdi
    by_cases h1 : i = ob
    · simp [h1]
    · simp [h1] at hdi
      have := hL.deadL i hdi
      simp [h1, this]
  acyc := by
    intro x h
    refine hL.acyc x (Anc.mono ?_ h)
    intro a b hab
    by_cases ha : a = ob
    · simp [ha] at hab
    · simpa [ha] using hab

theorem names_destroy {n : Nat} {dead : Nat → Bool} {name : Nat → Name} {ot : Nat → List Nat} {ctr ob : Nat}
    (hN : Names n dead name ot ctr) :
    Names n (fun j => if j = ob then true else dead j) name
      (fun k => if k = hashN (name ob) then (ot k).erase ob else ot k) ctr where
  mem := by
    intro h i
    have := hN.mem h i
    by_cases hh : h = hashN (name ob)
    · subst hh
      simp only [if_true]
      rw [mem_erase_nodup (hN.nodup _)]
      by_cases hi : i = ob
      · simp [hi]
      · simp [hi, this]
    · simp only [hh, if_false]
      by_cases hi : i = ob
      · subst hi; simp [this]; intro _ _ e; exact hh e.symm
      · simp [hi, this]
  nodup := by
    intro h
    by_cases hh : h = hashN (name ob)
    · simp only [hh, if_true]; exact (hN.nodup _).erase _
    · simp only [hh, if_false]; exact hN.nodup h
  uniq := by
    intro i j hi hdi hj hdj he
    by_cases h1 : i = ob
    · simp [h1] at hdi
    · by_cases h2 : j = ob
      · simp [h2] at hdj
      · simp [h1] at hdi; simp [h2] at hdj
        exact hN.uniq i j hi hdi hj hdj he
  fresh := hN.fresh

theorem lists_destroy {n : Nat} {dead freed : Nat → Bool} {ol dl : List Nat} {ob : Nat}
    (hL : Lists n dead freed ol dl) (ho : ob < n) :
    Lists n (fun j => if j = ob then true else dead j) freed (ol.erase ob) (ob :: dl) where
  olMem := by
    intro i
    rw [mem_erase_nodup hL.olNodup]
    have := hL.olMem i
    by_cases hi : i = ob
    · simp [hi]
    · simp [hi, this]
  olNodup := hL.olNodup.erase _
  dlMem := by
    intro i hi
    by_cases h1 : i = ob
    · subst h1; simp [ho]
    · simp [h1] at hi ⊢; exact hL.dlMem i hi
  freedDead := by
    intro i hi
    by_cases h1 : i = ob
    · simp [h1]
    · simp [h1]; exact hL.freedDead i hi

theorem living_destroy {n : Nat} {dead ec : Nat → Bool} {ln : Nat → Option String} {lv : Nat → List Nat} {ob : Nat}
    (hV : Living n dead ec ln lv) :
    Living n (fun j => if j = ob then true else dead j) (fun j => if j = ob then false else ec j)
      (fun j => if j = ob then none else ln j)
      (fun k => match ln ob with
        | none => lv k
        | some s => if k = lhash s then (lv k).erase ob else lv k) where
  mem := by
    intro h i
    have := hV.mem h i
    cases hs : ln ob with
    | none =>
      simp only
      by_cases hi : i = ob
      · subst hi; simp [this, hs]
      · simp [hi, this]
    | some s =>
      simp only
      by_cases hh : h = lhash s
      · subst hh
        simp only [if_true]
        rw [mem_erase_nodup (hV.nodup _)]
        by_cases hi : i = ob
        · simp [hi]
        · simp [hi, this]
      · simp only [hh, if_false]
        by_cases hi : i = ob
        · subst hi; simp [this, hs]; intro _ _ e; exact hh e.symm
        · simp [hi, this]
  nodup := by
    intro h
    cases hs : ln ob with
    | none => exact hV.nodup h
    | some s =>
      simp only
      by_cases hh : h = lhash s
      · simp only [hh, if_true]; exact (hV.nodup _).erase _
      · simp only [hh, if_false]; exact hV.nodup h
  deadV := by
    intro i hdi
    by_cases h1 : i = ob
    · simp [h1]
    · simp [h1] at hdi; simp [h1]; exact hV.deadV i hdi
  blankV := by
    intro i hi
    by_cases h1 : i = ob
    · simp [h1]
    · simp [h1]; exact hV.blankV i hi


theorem relink_inv {c : Core} {item dest : Nat} (hI : Inv c) (hi : item < c.n) (hid : (c.objs item).destructed = false)
    (hd : dest < c.n) (hdd : (c.objs dest).destructed = false)
    (hchk : ¬ (dest = item ∨ Anc (supF c) dest item)) : Inv (relink c item dest) := by
  have hne : dest ≠ item := fun e => hchk (Or.inl e)
  obtain ⟨f1, f2, f3, f4, f5, f6⟩ := relink_fields c item dest
  obtain ⟨s1, s2, s3, s4, s5⟩ := relink_same c item dest
  constructor
  · rw [f1, s1, relink_sup c item dest hne, relink_cont hI.links hne]
    exact links_relink hI.links hi hid hd hdd hchk
  · rw [f1, s1, s2, f2, f6]; exact hI.names
  · rw [f1, s1, s3, f3, f4]; exact hI.lists
  · rw [f1, s1, s4, s5, f5]; exact hI.living

end NV.C08
