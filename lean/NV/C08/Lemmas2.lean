/-
C08 helper lemmas, part 2: move_object's relinking and destruct_object's unlinking preserve the invariant groups.
-/
import NV.C08.Lemmas

namespace NV.C08

set_option linter.unusedSimpArgs false


/-- move_object's relinking on the projections -/
theorem links_relink {n : Nat} {dead : Nat → Bool} {sup : Nat → Option Nat} {cont : Nat → List Nat} {item dest : Nat}
    (hL : Links n dead sup cont) (hi : item < n) (hid : dead item = false) (hd : dest < n) (hdd : dead dest = false)
    (hchk : ¬ (dest = item ∨ Anc sup dest item)) :
    Links n dead (redirect sup item dest)
      (fun j => if j = dest then item :: (cont j).filter (· ≠ item) else (cont j).filter (· ≠ item)) where
  blank := by
    intro i hge
    have := hL.blank i hge
    have h1 : i ≠ item := by omega
    have h2 : i ≠ dest := by omega
    simp [redirect, h1, h2, this]
  inv := by
    intro x y
    have hne : dest ≠ item := fun e => hchk (Or.inl e)
    by_cases hx : x = item
    · subst hx
      by_cases hy : y = dest
      · subst hy; simp [redirect]
      · simp [redirect, hy, mem_filter_ne]; exact fun e => hy e.symm
    · have := hL.inv x y
      by_cases hy : y = dest
      · subst hy; simp [redirect, hx, mem_filter_ne, this]
      · simp [redirect, hx, hy, mem_filter_ne, this]
  nodup := by
    intro y
    by_cases hy : y = dest
    · subst hy
      simp only [if_true]
      rw [List.nodup_cons]
      exact ⟨by simp [mem_filter_ne], (hL.nodup _).filter _⟩
    · simp only [hy, if_false]; exact (hL.nodup _).filter _
  deadL := by
    intro i hdi
    have := hL.deadL i hdi
    have h1 : i ≠ item := fun e => by subst e; simp [hid] at hdi
    have h2 : i ≠ dest := fun e => by subst e; simp [hdd] at hdi
    simp [redirect, h1, h2, this]
  acyc := acyclic_redirect hL.acyc hchk



theorem relink_fields (c : Core) (item dest : Nat) :
    (relink c item dest).n = c.n ∧ (relink c item dest).ot = c.ot ∧ (relink c item dest).ol = c.ol ∧
    (relink c item dest).dl = c.dl ∧ (relink c item dest).lv = c.lv ∧ (relink c item dest).ctr = c.ctr := by
  unfold relink
  cases (c.objs item).super <;> simp [setObj]

theorem relink_same (c : Core) (item dest : Nat) :
    deadF (relink c item dest) = deadF c ∧ nameF (relink c item dest) = nameF c ∧
    freedF (relink c item dest) = freedF c ∧ ecF (relink c item dest) = ecF c ∧ lnF (relink c item dest) = lnF c := by
  refine ⟨?_, ?_, ?_, ?_, ?_⟩ <;> funext j <;> unfold relink <;> cases (c.objs item).super <;>
    simp only [deadF, nameF, freedF, ecF, lnF, setObj] <;> (repeat' split) <;> simp_all

theorem relink_sup (c : Core) (item dest : Nat) (hne : dest ≠ item) :
    supF (relink c item dest) = redirect (supF c) item dest := by
  funext j
  unfold relink
  cases h : (c.objs item).super <;>
    simp only [supF, redirect, setObj] <;> (repeat' split) <;> simp_all

theorem relink_cont {c : Core} {item dest : Nat} (hL : Links c.n (deadF c) (supF c) (contF c)) (hne : dest ≠ item) :
    contF (relink c item dest) =
      fun j => if j = dest then item :: (contF c j).filter (· ≠ item) else (contF c j).filter (· ≠ item) := by
  have hself : ∀ y, supF c item ≠ some y → item ∉ contF c y := fun y h hm => h ((hL.inv item y).mp hm)
  have hnoself : (c.objs item).super ≠ some item := fun h => hL.acyc item (Anc.base h)
  funext j
  show ((relink c item dest).objs j).contains = _
  unfold relink
  cases h : (c.objs item).super with
  | none =>
    have hf : ∀ y, (contF c y).filter (· ≠ item) = contF c y :=
      fun y => filter_ne_of_not_mem (hself y (by simp [supF, h]))
    simp only [hf]
    simp only [setObj, contF]
    by_cases h1 : j = dest
    · subst h1; simp [hne]
    · by_cases h2 : j = item
      · subst h2; simp [h1]
      · simp [h1, h2]
  | some s =>
    have hf : ∀ y, y ≠ s → (contF c y).filter (· ≠ item) = contF c y :=
      fun y hy => filter_ne_of_not_mem (hself y (by simp [supF, h]; exact fun e => hy e.symm))
    have hsi : s ≠ item := fun e => hnoself (by rw [h, e])
    by_cases hjs : j = s
    · subst hjs
      simp only [setObj, contF]
      by_cases h1 : j = dest
      · subst h1; simp [hne, hsi]
      · simp [h1, hsi]
    · have := hf j hjs
      simp only [this]
      simp only [setObj, contF]
      by_cases h1 : j = dest
      · subst h1; simp [hne, hjs]
      · by_cases h2 : j = item
        · subst h2; simp [h1, hjs]
        · simp [h1, h2, hjs]



theorem superWalk_clear {c : Core} {item : Nat} : ∀ (f : Nat) (dest : Nat),
    superWalk c item f (some dest) = .clear → ¬ (dest = item ∨ Anc (supF c) dest item) := by
  intro f
  induction f with
  | zero => intro dest h; simp [superWalk] at h
  | succ f ih =>
    intro dest h
    simp only [superWalk] at h
    split at h
    · simp at h
    · split at h
      · simp at h
      · rename_i hne
        intro hor
        rcases hor with e | ha
        · exact hne e
        · cases hs : (c.objs dest).super with
          | none =>
            cases ha with
            | base h1 => simp [supF, hs] at h1
            | step h1 _ => simp [supF, hs] at h1
          | some p =>
            rw [hs] at h
            have := ih p h
            apply this
            cases ha with
            | base h1 => simp [supF, hs] at h1; exact Or.inl h1
            | step h1 h2 => simp [supF, hs] at h1; subst h1; exact Or.inr h2

/-- destruct_object's unlinking on the projections -/
theorem links_destroy {n : Nat} {dead : Nat → Bool} {sup : Nat → Option Nat} {cont : Nat → List Nat} {ob : Nat}
    (hL : Links n dead sup cont) (ho : ob < n) (he : cont ob = []) :
    Links n (fun j => if j = ob then true else dead j) (fun j => if j = ob then none else sup j)
      (fun j => if j = ob then [] else (cont j).filter (· ≠ ob)) where
  blank := by
    intro i hge
    have := hL.blank i hge
    have h1 : i ≠ ob := by omega
    simp [h1, this]
  inv := by
    intro x y
    by_cases hx : x = ob
    · subst hx
      by_cases hy : y = x
      · simp [hy]
      · simp [hy, mem_filter_ne]
    · have := hL.inv x y
      by_cases hy : y = ob
      · subst hy
        have h0 : x ∉ cont y := by rw [he]; simp
        simp [hx]
        exact fun h => h0 ((hL.inv x y).mpr h)
      · simp [hx, hy, mem_filter_ne, this]
  nodup := by
    intro y
    by_cases hy : y = ob
    · simp [hy]
    · simp only [hy, if_false]; exact (hL.nodup _).filter _
  deadL := by
    intro i hdi
    by_cases h1 : i = ob
    · simp [h1]
    · simp [h1] at hdi
      have := hL.deadL i hdi
      simp [h1, this]
  acyc := by
    intro x h
    refine hL.acyc x (Anc.mono ?_ h)
    intro a b hab
    by_cases ha : a = ob
    · simp [ha] at hab
    · simpa [ha] using hab

theorem names_destroy {n : Nat} {dead : Nat → Bool} {name : Nat → Name} {ot : Nat → List Nat} {ctr ob : Nat}
    (hN : Names n dead name ot ctr) :
    Names n (fun j => if j = ob then true else dead j) name
      (fun k => if k = hashN (name ob) then (ot k).erase ob else ot k) ctr where
  mem := by
    intro h i
    have := hN.mem h i
    by_cases hh : h = hashN (name ob)
    · subst hh
      simp only [if_true]
      rw [mem_erase_nodup (hN.nodup _)]
      by_cases hi : i = ob
      · simp [hi]
      · simp [hi, this]
    · simp only [hh, if_false]
      by_cases hi : i = ob
      · subst hi; simp [this]; intro _ _ e; exact hh e.symm
      · simp [hi, this]
  nodup := by
    intro h
    by_cases hh : h = hashN (name ob)
    · simp only [hh, if_true]; exact (hN.nodup _).erase _
    · simp only [hh, if_false]; exact hN.nodup h
  uniq := by
    intro i j hi hdi hj hdj he
    by_cases h1 : i = ob
    · simp [h1] at hdi
    · by_cases h2 : j = ob
      · simp [h2] at hdj
      · simp [h1] at hdi; simp [h2] at hdj
        exact hN.uniq i j hi hdi hj hdj he
  fresh := hN.fresh

theorem lists_destroy {n : Nat} {dead freed : Nat → Bool} {ol dl : List Nat} {ob : Nat}
    (hL : Lists n dead freed ol dl) (ho : ob < n) :
    Lists n (fun j => if j = ob then true else dead j) freed (ol.erase ob) (ob :: dl) where
  olMem := by
    intro i
    rw [mem_erase_nodup hL.olNodup]
    have := hL.olMem i
    by_cases hi : i = ob
    · simp [hi]
    · simp [hi, this]
  olNodup := hL.olNodup.erase _
  dlMem := by
    intro i hi
    by_cases h1 : i = ob
    · subst h1; simp [ho]
    · simp [h1] at hi ⊢; exact hL.dlMem i hi
  freedDead := by
    intro i hi
    by_cases h1 : i = ob
    · simp [h1]
    · simp [h1]; exact hL.freedDead i hi

theorem living_destroy {n : Nat} {dead ec : Nat → Bool} {ln : Nat → Option String} {lv : Nat → List Nat} {ob : Nat}
    (hV : Living n dead ec ln lv) :
    Living n (fun j => if j = ob then true else dead j) (fun j => if j = ob then false else ec j)
      (fun j => if j = ob then none else ln j)
      (fun k => match ln ob with
        | none => lv k
        | some s => if k = lhash s then (lv k).erase ob else lv k) where
  mem := by
    intro h i
    have := hV.mem h i
    cases hs : ln ob with
    | none =>
      simp only
      by_cases hi : i = ob
      · subst hi; simp [this, hs]
      · simp [hi, this]
    | some s =>
      simp only
      by_cases hh : h = lhash s
      · subst hh
        simp only [if_true]
        rw [mem_erase_nodup (hV.nodup _)]
        by_cases hi : i = ob
        · simp [hi]
        · simp [hi, this]
      · simp only [hh, if_false]
        by_cases hi : i = ob
        · subst hi; simp [this, hs]; intro _ _ e; exact hh e.symm
        · simp [hi, this]
  nodup := by
    intro h
    cases hs : ln ob with
    | none => exact hV.nodup h
    | some s =>
      simp only
      by_cases hh : h = lhash s
      · simp only [hh, if_true]; exact (hV.nodup _).erase _
      · simp only [hh, if_false]; exact hV.nodup h
  deadV := by
    intro i hdi
    by_cases h1 : i = ob
    · simp [h1]
    · simp [h1] at hdi; simp [h1]; exact hV.deadV i hdi
  blankV := by
    intro i hi
    by_cases h1 : i = ob
    · simp [h1]
    · simp [h1]; exact hV.blankV i hi


theorem relink_inv {c : Core} {item dest : Nat} (hI : Inv c) (hi : item < c.n) (hid : (c.objs item).destructed = false)
    (hd : dest < c.n) (hdd : (c.objs dest).destructed = false)
    (hchk : ¬ (dest = item ∨ Anc (supF c) dest item)) : Inv (relink c item dest) := by
  have hne : dest ≠ item := fun e => hchk (Or.inl e)
  obtain ⟨f1, f2, f3, f4, f5, f6⟩ := relink_fields c item dest
  obtain ⟨s1, s2, s3, s4, s5⟩ := relink_same c item dest
  constructor
  · rw [f1, s1, relink_sup c item dest hne, relink_cont hI.links hne]
    exact links_relink hI.links hi hid hd hdd hchk
  · rw [f1, s1, s2, f2, f6]; exact hI.names
  · rw [f1, s1, s3, f3, f4]; exact hI.lists
  · rw [f1, s1, s4, s5, f5]; exact hI.living

/-- find_obj_n on the name of a live object finds that object and cycles it to the front -/
theorem lookupC_live {c : Core} {ob : Nat} (hI : Names c.n (deadF c) (nameF c) c.ot c.ctr) (ho : ob < c.n) (hd : (c.objs ob).destructed = false) :
    lookupC c (c.objs ob).name =
      (setOt c (hashN (c.objs ob).name) (ob :: (c.ot (hashN (c.objs ob).name)).erase ob), some ob) := by
  have hs := (lookupC_spec' hI (c.objs ob).name ob).mpr ⟨ho, hd, rfl⟩
  rw [lookupC_eq] at hs ⊢
  split at hs
  · simp at hs
  · rename_i j hj
    simp at hs
    subst hs
    rfl

theorem dropWhile_ne_head (ob : Nat) (l : List Nat) : ((ob :: l).dropWhile (· ≠ ob)).drop 1 = l := by
  simp [List.dropWhile]

/-- remove_object_hash of a live object (the precondition the C code relies on): exactly that object leaves its chain -/
theorem removeHash_live {c : Core} {ob : Nat} (hI : Names c.n (deadF c) (nameF c) c.ot c.ctr) (ho : ob < c.n) (hd : (c.objs ob).destructed = false) :
    removeHash c ob = setOt c (hashN (c.objs ob).name) ((c.ot (hashN (c.objs ob).name)).erase ob) := by
  unfold removeHash
  simp only [lookupC_live hI ho hd]
  unfold nextHash
  simp only [setOt]
  simp [dropWhile_ne_head]
  funext k
  by_cases hk : k = hashN (c.objs ob).name <;> simp [hk]


theorem removeHash_fields (c : Core) (i : Nat) :
    (removeHash c i).n = c.n ∧ (removeHash c i).objs = c.objs ∧ (removeHash c i).ol = c.ol ∧
    (removeHash c i).dl = c.dl ∧ (removeHash c i).lv = c.lv ∧ (removeHash c i).ctr = c.ctr := by
  have e : removeHash c i = setOt (lookupC c (c.objs i).name).1 (hashN (c.objs i).name)
      (nextHash (lookupC c (c.objs i).name).1 i) := rfl
  rw [e]
  rcases lookupC_core c (c.objs i).name with h | ⟨j, _, h⟩ <;> rw [h] <;> simp [setOt]

/-- first block of the unlinking: `ob` leaves the inventory of its environment -/
def unlinkC (c : Core) (ob : Nat) : Core :=
  match (c.objs ob).super with
  | none => c
  | some s => setObj c s { c.objs s with contains := (c.objs s).contains.filter (· ≠ ob) }

theorem unlinkC_fields (c : Core) (ob : Nat) :
    (unlinkC c ob).n = c.n ∧ (unlinkC c ob).ot = c.ot ∧ (unlinkC c ob).ol = c.ol ∧
    (unlinkC c ob).dl = c.dl ∧ (unlinkC c ob).lv = c.lv ∧ (unlinkC c ob).ctr = c.ctr := by
  unfold unlinkC
  cases (c.objs ob).super <;> simp [setObj]

theorem unlinkC_same (c : Core) (ob : Nat) :
    deadF (unlinkC c ob) = deadF c ∧ nameF (unlinkC c ob) = nameF c ∧ freedF (unlinkC c ob) = freedF c ∧
    ecF (unlinkC c ob) = ecF c ∧ lnF (unlinkC c ob) = lnF c ∧ supF (unlinkC c ob) = supF c := by
  refine ⟨?_, ?_, ?_, ?_, ?_, ?_⟩ <;> funext j <;> unfold unlinkC <;> cases (c.objs ob).super <;>
    simp only [deadF, nameF, freedF, ecF, lnF, supF, setObj] <;> (repeat' split) <;> simp_all

theorem unlinkC_cont {c : Core} {ob : Nat} (hL : Links c.n (deadF c) (supF c) (contF c)) :
    contF (unlinkC c ob) = fun j => (contF c j).filter (· ≠ ob) := by
  have hself : ∀ y, supF c ob ≠ some y → ob ∉ contF c y := fun y h hm => h ((hL.inv ob y).mp hm)
  funext j
  show ((unlinkC c ob).objs j).contains = _
  unfold unlinkC
  cases h : (c.objs ob).super with
  | none =>
    have hf : ∀ y, (contF c y).filter (· ≠ ob) = contF c y :=
      fun y => filter_ne_of_not_mem (hself y (by simp [supF, h]))
    simp only [hf]; rfl
  | some s =>
    have hf : ∀ y, y ≠ s → (contF c y).filter (· ≠ ob) = contF c y :=
      fun y hy => filter_ne_of_not_mem (hself y (by simp [supF, h]; exact fun e => hy e.symm))
    by_cases hjs : j = s
    · subst hjs; simp [setObj, contF]
    · simp only [hf j hjs]; simp [setObj, contF, hjs]

theorem finishDestruct_def (c : Core) (ob : Nat) :
    finishDestruct c ob =
      (let c2 := removeHash (unlinkC c ob) ob
       let c3 : Core := { c2 with ol := c2.ol.erase ob }
       let c4 := removeLiving c3 ob
       let c5 := setObj c4 ob { c4.objs ob with ec := false, super := none, contains := [], destructed := true, sent := [] }
       { c5 with dl := ob :: c5.dl }) := rfl

/-- what is left of a destructed object -/
def deadObj (o : Obj) : Obj :=
  { o with ec := false, super := none, contains := [], destructed := true, living := none, sent := [] }

/-- the state after the unlink block of destruct_object, in closed form (`c1` = state after leaving the environment) -/
def destroyed (c1 : Core) (ob : Nat) (h : Nat) (ln : Option String) : Core :=
  { n := c1.n,
    objs := fun j => if j = ob then deadObj (c1.objs ob) else c1.objs j,
    ot := fun k => if k = h then (c1.ot k).erase ob else c1.ot k,
    ol := c1.ol.erase ob, dl := ob :: c1.dl,
    lv := fun k => match ln with
      | none => c1.lv k
      | some s => if k = lhash s then (c1.lv k).erase ob else c1.lv k,
    ctr := c1.ctr }

theorem finishDestruct_eq {c : Core} {ob : Nat} (hN : Names c.n (deadF c) (nameF c) c.ot c.ctr) (ho : ob < c.n)
    (hd : (c.objs ob).destructed = false) :
    finishDestruct c ob = destroyed (unlinkC c ob) ob (hashN (c.objs ob).name) (c.objs ob).living := by
  rw [finishDestruct_def]
  obtain ⟨u1, u2, u3, u4, u5, u6⟩ := unlinkC_fields c ob
  obtain ⟨v1, v2, v3, v4, v5, v6⟩ := unlinkC_same c ob
  generalize unlinkC c ob = c1 at *
  have hN1 : Names c1.n (deadF c1) (nameF c1) c1.ot c1.ctr := by rw [u1, v1, v2, u2, u6]; exact hN
  have ho1 : ob < c1.n := by rw [u1]; exact ho
  have hd1 : (c1.objs ob).destructed = false := by
    have := congrFun v1 ob; simp only [deadF] at this; rw [this]; exact hd
  have hname : (c1.objs ob).name = (c.objs ob).name := by
    have := congrFun v2 ob; simpa only [nameF] using this
  have hliv : (c1.objs ob).living = (c.objs ob).living := by
    have := congrFun v5 ob; simpa only [lnF] using this
  rw [removeHash_live hN1 ho1 hd1]
  simp only [removeLiving, setOt, hliv, hname]
  cases hl : (c.objs ob).living with
  | none =>
    simp only [destroyed, setObj, deadObj]
    congr 1
    · funext j; by_cases h : j = ob <;> simp [h, hl, hliv]
    · funext k; by_cases h : k = hashN (c.objs ob).name <;> simp [h]
  | some s =>
    simp only [destroyed, setObj, setLv, deadObj]
    congr 1
    · funext j; by_cases h : j = ob <;> simp [h]
    · funext k; by_cases h : k = hashN (c.objs ob).name <;> simp [h]
    · funext k; by_cases h : k = lhash s <;> simp [h]


theorem destroyed_proj (c1 : Core) (ob h : Nat) (ln : Option String) :
    deadF (destroyed c1 ob h ln) = (fun j => if j = ob then true else deadF c1 j) ∧
    supF (destroyed c1 ob h ln) = (fun j => if j = ob then none else supF c1 j) ∧
    contF (destroyed c1 ob h ln) = (fun j => if j = ob then [] else contF c1 j) ∧
    nameF (destroyed c1 ob h ln) = nameF c1 ∧ freedF (destroyed c1 ob h ln) = freedF c1 ∧
    ecF (destroyed c1 ob h ln) = (fun j => if j = ob then false else ecF c1 j) ∧
    lnF (destroyed c1 ob h ln) = (fun j => if j = ob then none else lnF c1 j) := by
  refine ⟨?_, ?_, ?_, ?_, ?_, ?_, ?_⟩ <;> funext j <;>
    simp only [deadF, supF, contF, nameF, freedF, ecF, lnF, destroyed, deadObj] <;> by_cases hj : j = ob <;> simp [hj]

/-- the unlink block of destruct_object keeps the invariant when it runs on a live object with an empty inventory -/
theorem finishDestruct_inv {c : Core} {ob : Nat} (hI : Inv c) (ho : ob < c.n)
    (hd : (c.objs ob).destructed = false) (he : (c.objs ob).contains = []) : Inv (finishDestruct c ob) := by
  rw [finishDestruct_eq hI.names ho hd]
  obtain ⟨u1, u2, u3, u4, u5, u6⟩ := unlinkC_fields c ob
  obtain ⟨v1, v2, v3, v4, v5, v6⟩ := unlinkC_same c ob
  have vc := unlinkC_cont (ob := ob) hI.links
  obtain ⟨p1, p2, p3, p4, p5, p6, p7⟩ := destroyed_proj (unlinkC c ob) ob (hashN (c.objs ob).name) (c.objs ob).living
  have hcont : (fun j => if j = ob then [] else contF (unlinkC c ob) j) =
      (fun j => if j = ob then [] else (contF c j).filter (· ≠ ob)) := by rw [vc]
  generalize hD : destroyed (unlinkC c ob) ob (hashN (c.objs ob).name) (c.objs ob).living = D at *
  have hn : D.n = c.n := by subst hD; exact u1
  have hctr : D.ctr = c.ctr := by subst hD; exact u6
  have hot : D.ot = fun k => if k = hashN (nameF c ob) then (c.ot k).erase ob else c.ot k := by
    subst hD; simp only [destroyed, u2]; rfl
  have hol : D.ol = c.ol.erase ob := by subst hD; simp only [destroyed, u3]
  have hdl : D.dl = ob :: c.dl := by subst hD; simp only [destroyed, u4]
  have hlv : D.lv = fun k => match lnF c ob with
      | none => c.lv k
      | some s => if k = lhash s then (c.lv k).erase ob else c.lv k := by
    subst hD; simp only [destroyed, u5]; rfl
  constructor
  · rw [p1, p2, p3, hcont, v1, v6, hn]
    exact links_destroy hI.links ho he
  · rw [p1, p4, v1, v2, hn, hot, hctr]
    exact names_destroy hI.names
  · rw [p1, p5, v1, v3, hn, hol, hdl]
    exact lists_destroy hI.lists ho
  · rw [p1, p6, p7, v1, v4, v5, hn, hlv]
    exact living_destroy hI.living

end NV.C08
