/-
C08 driver: parses the case lines that the harness executes against the real driver and runs the model
(`model` mode) or the specification oracle on an implementation trace (`judge` mode).

Case lines (shared with harness/c08/c08.c):
  script o<k> create|init|mod|act|id|hbeat|ofilt <op>;<op>;...   the n-th such line is the script of the n-th invocation of that hook of
                                              object k; all script lines come before the first command
  t <op>                                      master->do_op(op)   (top level)
  snap | probe | gc | tick
op syntax (comma separated):  ld,<file> | cl,<file> | mv,o<a>,o<d> | mvs,o<a>,<file> | fis,<file> | pr,o<env>,o<t> | hbe,o<a> | hbd,o<a> | de,o<a> | ec,o<a> | dc,o<a> | ln,o<a>,<name> |
  fo,<file>[#<n>] | fl,<name> | aa,o<a>,<verb> | cmd,o<a>,<verb> | kp,o<a> | rd | err | mvarg | nop | obf | ct,<op>          <file> ::= b<k> | nx | bad
-/
import NV.Common.Proto
import NV.C08.Model
import NV.C08.Spec

namespace NV.C08

open NV.Proto

def parseOid (s : String) : Option Nat :=
  if s.startsWith "o" then (s.drop 1).toString.toNat? else none

def parseBase (s : String) : Option Base :=
  if s == "nx" then some .nofile
  else if s == "bad" then some .badfile
  else if s == "master" then some .master
  else if s.startsWith "b" then (s.drop 1).toString.toNat?.map .bp
  else if s.startsWith "i" then (s.drop 1).toString.toNat?.map .ih
  else none

def parseName (s : String) : Option Name :=
  match s.splitOn "#" with
  | [b] => (parseBase b).map fun b => { base := b, num := none }
  | [b, k] => do some { base := (← parseBase b), num := some (← k.toNat?) }
  | _ => none

def parseOp1 (s : String) : Option Op :=
  match s.splitOn "," with
  | ["ld", b] => (parseBase b).map .ld
  | ["cl", b] => (parseBase b).map .cl
  | ["mv", a, d] => do some (.mv (← parseOid a) (← parseOid d))
  | ["mvs", a, b] => do some (.mvs (← parseOid a) (← parseBase b))
  | ["fis", b] => (parseBase b).map .fis
  | ["hbe", a] => (parseOid a).map .hbe
  | ["hbd", a] => (parseOid a).map .hbd
  | ["pr", e, t] => do some (.pr (← parseOid e) (← parseOid t))
  | ["de", a] => (parseOid a).map .de
  | ["ec", a] => (parseOid a).map .ec
  | ["dc", a] => (parseOid a).map .dc
  | ["ln", a, n] => (parseOid a).map (.ln · n)
  | ["fo", n] => (parseName n).map .fo
  | ["fl", n] => some (.fl n)
  | ["aa", a, v] => (parseOid a).map (.aa · v)
  | ["cmd", a, v] => (parseOid a).map (.cmd · v)
  | ["kp", a] => (parseOid a).map .kp
  | ["rd"] => some .rd
  | ["err"] => some .err
  | ["mvarg"] => some .mvarg
  | ["nop"] => some .nop
  | ["obf"] => some .obf
  | ["ret0"] => some .ret0
  | ["gh", "ln", s] => some (.gh (.ln s))
  | ["gh", "ec"] => some (.gh .ec)
  | ["gh", "aa", v] => some (.gh (.aa v))
  | ["gh", "hbe"] => some (.gh .hbe)
  | ["gh", "mv", d] => (parseOid d).map (fun d => .gh (.mv d))
  | ["ra", a, v] => (parseOid a).map (.ra · v)
  | _ => none

/-- `ct,<op>` = catch (<op>) (one level) -/
def parseOp (s : String) : Option Op :=
  if s.startsWith "ct," then (parseOp1 (s.drop 3).toString).map .ct else parseOp1 s

def parseHook (s : String) : Option Hook :=
  if s == "create" then some .create else if s == "init" then some .init else if s == "mod" then some .mod
  else if s == "act" then some .act else if s == "id" then some .id else if s == "hbeat" then some .hbeat
  else if s == "ofilt" then some .ofilt else none

structure Parsed where
  scripts : List ((Nat × Hook) × List Op) := []      -- in file order
  cmds : List Cmd := []
  bad : List String := []

def parseLine (p : Parsed) (line : String) : Parsed :=
  match toks line with
  | [] => p
  | ["script", o, h, ops] =>
    match parseOid o, parseHook h with
    | some k, some hk =>
      let parsed := (ops.splitOn ";").map parseOp
      if parsed.all Option.isSome && p.cmds.isEmpty then { p with scripts := p.scripts ++ [((k, hk), parsed.filterMap id)] }
      else { p with bad := line :: p.bad }
    | _, _ => { p with bad := line :: p.bad }
  | ["t", op] =>
    match parseOp op with
    | some op => { p with cmds := Cmd.top op :: p.cmds }
    | none => { p with bad := line :: p.bad }
  | ["snap"] => { p with cmds := Cmd.snap :: p.cmds }
  | ["tick"] => { p with cmds := Cmd.tick :: p.cmds }
  | ["probe"] => { p with cmds := Cmd.probe :: p.cmds }
  | ["gc"] => { p with cmds := Cmd.gc :: p.cmds }
  | _ => if line.startsWith "#" then p else { p with bad := line :: p.bad }

def parseCase (lines : List String) : Parsed :=
  let p := lines.foldl parseLine {}
  { p with cmds := p.cmds.reverse }

def scriptsOf (p : Parsed) : Scripts := fun o h n =>
  match (p.scripts.filter (fun e => e.1.1 = o ∧ e.1.2 = h))[n]? with
  | some e => e.2
  | none => []

def runModel (lines : List String) : List String :=
  let p := parseCase lines
  if !p.bad.isEmpty then p.bad.map (fun l => s!"bad-line {l}")
  else (runCmds (scriptsOf p) World.init p.cmds).out.reverse

def runJudge (body : List String) : List String :=
  let (_input, impl) := splitJudge body
  match judge impl with
  | [] => ["ok"]
  | vs => vs.map (fun v => s!"bad {v}")

def main (mode : String) : IO Unit :=
  match mode with
  | "model" => serve runModel
  | "judge" => serve runJudge
  | _ => IO.eprintln s!"C08: unknown mode {mode}"

end NV.C08
