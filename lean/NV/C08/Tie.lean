/-
C08 — translator ties: the order of the statements of the C functions that the model mirrors is regenerated from the
source on every run (props/c08.py `gen_extra` → NV/Gen/C08.lean: position of the first occurrence of every marker in the
function body).  The lists below are the orders the model was written against; each `*_order_tie` theorem is an
obligation: a C change that reorders, removes or duplicates-in-front one of these statements changes the generated
list and breaks the theorem (or the tie itself when a marker disappears) - not only the correspondence run.

Where the model applies independent blocks in another (commuting) order this is said next to the list.
-/
import NV.Gen.C08

namespace NV.C08

/-- destruct_object: `Task.destruct` (restrict test, already-destructed return), `Task.dloop` (cached super, loop,
    restrict_destruct set / restored around the hook, re-check, nested destruct, re-check), then the unlink block:
    `unsentDestruct`, `finishDestruct` (unlink from env, remove_object_hash, obj_list, living name, sentences, flags,
    destruct list) and `hbRemove` (the model switches the heart beat off first: it touches no other structure, and it
    must - as in C - happen before O_DESTRUCTED is set because set_heart_beat ignores destructed objects) -/
def expectedDestructOrder : List String :=
  ["restrict-test", "already-destructed-return", "cache-super", "inventory-loop", "set-restrict",
   "apply-move_or_destruct", "restore-restrict", "recheck-after-hook", "nested-destruct", "recheck-after-nested",
   "remove-sent-env", "unlink-from-env", "remove-object-hash", "unlink-obj-list", "remove-living-name",
   "drop-sentences", "clear-enable-commands", "clear-super", "push-destruct-list", "heart-beat-off", "mark-destructed"]

theorem destruct_order_tie : NV.Gen.C08.destructOrder = expectedDestructOrder := by decide

/-- f_move_object: `Task.moveStr` = load, then `Task.move` whose first test is the mover's O_DESTRUCTED -/
def expectedMoveEfunOrder : List String := ["resolve-destination", "mover-destructed-test", "move_object"]

theorem move_efun_order_tie : NV.Gen.C08.moveEfunOrder = expectedMoveEfunOrder := by decide

/-- move_object: `Task.move` (walk, destination test, `unsentMove`, `relink`, init(dest) + re-check) and `Task.fan` -/
def expectedMoveOrder : List String :=
  ["cycle-walk", "dest-destructed-test", "remove-sent", "unlink", "set-super", "link-at-head", "init-dest",
   "recheck-after-init-dest", "loop", "save-next", "skip-item", "cursor-destructed-error", "cursor-left-break",
   "init-item-by-ob", "item-destructed-error", "cursor-left-continue", "init-ob-by-item", "dest-gone-error",
   "init-item-by-dest"]

theorem move_order_tie : NV.Gen.C08.moveOrder = expectedMoveOrder := by decide

/-- load_object (`Task.load`): allocate, obj_list, enter_object_hash, create(), command_giver restored -/
def expectedLoadOrder : List String := ["alloc", "push-obj-list", "enter-hash", "create", "restore-command-giver"]

theorem load_order_tie : NV.Gen.C08.loadOrder = expectedLoadOrder := by decide

/-- clone_object (`Task.clone`) -/
def expectedCloneOrder : List String :=
  ["find-or-load", "clone-of-clone-test", "blueprint-heart-beat-off", "new-name", "push-obj-list", "enter-hash",
   "create", "restore-command-giver", "destructed-test"]

theorem clone_order_tie : NV.Gen.C08.cloneOrder = expectedCloneOrder := by decide

/-- find_or_load_object (`Task.load`): lookup, load, the `*sigh*` destructed test -/
def expectedFindOrLoadOrder : List String := ["lookup", "load", "destructed-test"]

theorem find_or_load_order_tie : NV.Gen.C08.findOrLoadOrder = expectedFindOrLoadOrder := by decide

/-- set_heart_beat(ob, 0) (`hbRemove`): both round counters are adjusted before the gap is closed, unconditionally -/
def expectedHbRemoveOrder : List String := ["destructed-return", "adjust-index", "adjust-todo", "close-gap", "count-down"]

theorem hb_remove_order_tie : NV.Gen.C08.hbRemoveOrder = expectedHbRemoveOrder := by decide

/-- object_present2 (`Task.present`) -/
def expectedPresent2Order : List String :=
  ["remember-env", "loop", "apply-id", "destructed-return", "left-env-return", "zero-continue"]

theorem present2_order_tie : NV.Gen.C08.present2Order = expectedPresent2Order := by decide

/-- f_objects with a filter (`Task.objloop`, since the `fix:` commit): collect first, then filter the live ones, then
    drop the accepted ones that were destructed meanwhile -/
def expectedObjectsOrder : List String :=
  ["collect-loop", "collect", "filter-loop", "skip-destructed", "caller-destructed-error", "apply-filter", "apply-failed-return-0", "accept",
   "drop-destructed-accepted", "build-array"]

theorem objects_order_tie : NV.Gen.C08.objectsOrder = expectedObjectsOrder ∧
    NV.Gen.C08.objectsFilterSkipCond = "ob->flags & O_DESTRUCTED" ∧
    NV.Gen.C08.objectsCalleeTested = NV.Gen.C08.objectsCallee := by decide

/-- the two comparison operators of set_heart_beat(ob, 0) that `hbRemove` applies (`cmpOp` evaluates whatever operator
    the source has; this obligation records the ones the property was checked against) -/
theorem hb_ops_tie : NV.Gen.C08.hbIdxOp = "<=" ∧ NV.Gen.C08.hbTodoOp = "<" := by decide

/-- prefix lengths of the two hash functions: `hashN` / `lhash` use the generated values, so another length is followed
    by the model (harmless); a zero length would hash every name to one bucket -/
theorem hash_prefix_tie : 0 < NV.Gen.C08.objHashPrefix ∧ 0 < NV.Gen.C08.livingHashPrefix ∧
    0 < NV.Gen.C08.livingHashSize ∧ 0 < NV.Gen.C08.otSize ∧ 0 < NV.Gen.C08.inheritChainSize := by decide

/-- add_action: `nearCg` mirrors the four pointer comparisons, the giver test precedes it (`.aa`) -/
theorem add_action_cond_tie :
    NV.Gen.C08.addActionGiverCond = "command_giver == 0 || (command_giver->flags & O_DESTRUCTED)" ∧
    NV.Gen.C08.addActionNearCond =
      "ob != command_giver && ob->super != command_giver && ob->super != command_giver->super && ob != command_giver->super" := by
  decide

/-- find_living_object's filter (`findLivingC`) and user_parser's skip of destructed sentence owners (`.command`) -/
theorem living_command_cond_tie : NV.Gen.C08.findLivingFilterCond = "!((*obp)->flags & O_ENABLE_COMMANDS)" ∧
    NV.Gen.C08.userParserSkipCond = "s->ob->flags & O_DESTRUCTED" := by decide

/-- move_object: the cycle test of the walk (`superWalk`) and the re-check after init(dest) (`Task.move`) -/
theorem move_cond_tie : NV.Gen.C08.moveCycleTest = "ob == item" ∧
    NV.Gen.C08.moveInitDestRecheck = "(dest->flags & O_DESTRUCTED) || item->super != dest" := by decide

/-- destruct_object: the restriction test (`restricted`) and the "not moved elsewhere" test (`Task.dloop`) -/
theorem destruct_cond_tie : NV.Gen.C08.destructRestrictCond = "restrict_destruct && restrict_destruct != ob" ∧
    NV.Gen.C08.destructNestedCond = "otmp == ob->contains" := by decide

/-- load_object's inherit detour (`Task.load`, case `.ih`): depth guard first; the inherited program is looked up and, on
    a miss, loaded; then the object's own name is looked up AGAIN (by `name`, the table key) and only on a miss loaded
    again; only the compiled path allocates -/
def expectedInheritOrder : List String :=
  ["depth-guard", "self-inherit-error", "lookup-inherited", "load-inherited", "missing-inherited-error",
   "relookup-self", "reload-self", "alloc"]

theorem inherit_order_tie : NV.Gen.C08.inheritOrder = expectedInheritOrder ∧
    NV.Gen.C08.loadRelookupCond = "!(ob = lookup_object_hash (name))" ∧
    NV.Gen.C08.loadDepthCond = "++num_objects_this_thread > CONFIG_INT (__INHERIT_CHAIN_SIZE__)" := by decide

/-- set_living_name (`setLiving`): the O_DESTRUCTED refusal comes FIRST, before the rename branch (a destructed object has
    no living name any more, so a test inside that branch can never fire) -/
theorem set_living_order_tie : NV.Gen.C08.setLivingOrder =
    ["destructed-return", "rename-branch", "remove-old-name", "link-at-head", "set-name"] := by decide

/-- the three flags the model keeps as separate booleans (`destructed`, `ec`, `clone`) are separate non-zero bits of
    `object_t.flags` (lpc/object.h; the walker of the harness tests them through the same macros).  Stated relative to
    the regenerated values: a renumbering of the flag word is harmless and does not break this obligation, two flags
    sharing a bit does. -/
theorem flag_bits_tie : NV.Gen.C08.oDestructed ≠ 0 ∧ NV.Gen.C08.oEnableCommands ≠ 0 ∧ NV.Gen.C08.oClone ≠ 0 ∧
    NV.Gen.C08.oDestructed &&& NV.Gen.C08.oEnableCommands = 0 ∧ NV.Gen.C08.oDestructed &&& NV.Gen.C08.oClone = 0 ∧
    NV.Gen.C08.oEnableCommands &&& NV.Gen.C08.oClone = 0 := by decide

end NV.C08
