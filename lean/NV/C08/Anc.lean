/-
C08 helper lemmas: the environment relation as a graph.  `Anc sup x y`: y is reached from x by one or more `super` steps.
Everything here is about an abstract `sup : Nat → Option Nat`.
-/
namespace NV.C08

inductive Anc (sup : Nat → Option Nat) : Nat → Nat → Prop where
  | base {x y : Nat} : sup x = some y → Anc sup x y
  | step {x y z : Nat} : sup x = some y → Anc sup y z → Anc sup x z

theorem Anc.trans {sup : Nat → Option Nat} {x y z : Nat} (h1 : Anc sup x y) (h2 : Anc sup y z) : Anc sup x z := by
  induction h1 with
  | base h => exact Anc.step h h2
  | step h _ ih => exact Anc.step h (ih h2)

/-- removing edges keeps every path a path of the old graph -/
theorem Anc.mono {sup sup' : Nat → Option Nat} (hsub : ∀ x y, sup' x = some y → sup x = some y)
    {x z : Nat} (h : Anc sup' x z) : Anc sup x z := by
  induction h with
  | base h => exact Anc.base (hsub _ _ h)
  | step h _ ih => exact Anc.step (hsub _ _ h) ih

/-- redirect the single edge of `item` to `dest` -/
def redirect (sup : Nat → Option Nat) (item dest : Nat) : Nat → Option Nat :=
  fun j => if j = item then some dest else sup j

/-- a path of the graph with `item`'s edge redirected to `dest` is an old path, or goes through the new edge -/
theorem Anc.redirect_cases {sup : Nat → Option Nat} {item dest x z : Nat} (h : Anc (redirect sup item dest) x z) :
    Anc sup x z ∨ ((x = item ∨ Anc sup x item) ∧ (z = dest ∨ Anc sup dest z)) := by
  induction h with
  | @base x y h =>
    by_cases hx : x = item
    · subst hx
      simp [redirect] at h
      exact Or.inr ⟨Or.inl rfl, Or.inl h.symm⟩
    · simp [redirect, hx] at h
      exact Or.inl (Anc.base h)
  | @step x y z h _ ih =>
    by_cases hx : x = item
    · subst hx
      simp [redirect] at h
      subst h
      rcases ih with ih | ⟨_, ih⟩
      · exact Or.inr ⟨Or.inl rfl, Or.inr ih⟩
      · exact Or.inr ⟨Or.inl rfl, ih⟩
    · simp [redirect, hx] at h
      rcases ih with ih | ⟨ih1, ih2⟩
      · exact Or.inl (Anc.step h ih)
      · refine Or.inr ⟨Or.inr ?_, ih2⟩
        rcases ih1 with ih1 | ih1
        · subst ih1; exact Anc.base h
        · exact Anc.step h ih1

/-- the cycle check of move_object is what keeps the environment relation acyclic -/
theorem acyclic_redirect {sup : Nat → Option Nat} {item dest : Nat}
    (hac : ∀ x, ¬ Anc sup x x) (hchk : ¬ (dest = item ∨ Anc sup dest item)) :
    ∀ x, ¬ Anc (redirect sup item dest) x x := by
  intro x h
  rcases Anc.redirect_cases h with h | ⟨h1, h2⟩
  · exact hac x h
  · apply hchk
    rcases h1 with h1 | h1 <;> rcases h2 with h2 | h2
    · left; rw [← h2, h1]
    · subst h1; exact Or.inr h2
    · subst h2; exact Or.inr h1
    · exact Or.inr (Anc.trans h2 h1)

end NV.C08
