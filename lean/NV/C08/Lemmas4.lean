/-
C08 helper lemmas, part 4: the invariant is preserved by the interpreter `exec` - for every task, every fuel, every
hook oracle - by induction on the fuel.  Every straight-line block is entered only after the checks that establish the
hypotheses of its lemma (`relink_inv`, `finishDestruct_inv`, `alloc_inv`).
-/
import NV.C08.Lemmas3

namespace NV.C08

set_option linter.unusedSimpArgs false

/-- the invariant seen through a result -/
abbrev RInv (r : R) : Prop := Inv r.w.c

theorem andThen_inv {r : R} {k : World → Option Nat → R} (hr : RInv r)
    (hk : ∀ w v, Inv w.c → RInv (k w v)) : RInv (r.andThen k) := by
  unfold R.andThen
  split
  · exact hk _ _ hr
  · exact hr

theorem ite_inv {c : Prop} [Decidable c] {a b : R} (ha : RInv a) (hb : RInv b) : RInv (if c then a else b) := by
  split <;> assumption

theorem raise_inv {w : World} {m : String} (h : Inv w.c) : RInv (raise w m) := by
  show Inv (raise w m).w.c; rw [raise_c]; exact h
theorem crashR_inv {w : World} {m : String} (h : Inv w.c) : RInv (crashR w m) := h
theorem hangR_inv {w : World} {m : String} (h : Inv w.c) : RInv (hangR w m) := h

theorem readRef_some {c : Core} {i j : Nat} (h : readRef c i = some j) :
    j = i ∧ i < c.n ∧ (c.objs i).destructed = false := by
  unfold readRef at h
  split at h
  · rename_i hh; simp at h; exact ⟨h.symm, hh.1, hh.2⟩
  · simp at h

theorem lookupC_none_core {c : Core} {nm : Name} (h : (lookupC c nm).2 = none) : (lookupC c nm).1 = c := by
  rw [lookupC_eq] at h ⊢
  split
  · rfl
  · rename_i j hj; rw [hj] at h; simp at h

theorem lookupC_none_free {c : Core} {nm : Name} (hI : Inv c) (h : (lookupC c nm).2 = none) :
    ∀ i, i < c.n → (c.objs i).destructed = false → (c.objs i).name ≠ nm := by
  intro i hi hd hn
  have := (lookupC_spec hI nm i).mpr ⟨hi, hd, hn⟩
  rw [h] at this; simp at this

variable (sc : Scripts)

theorem exec_inv : ∀ (f : Nat) (t : Task) (w : World), Inv w.c → RInv (exec sc f t w) := by
  intro f
  induction f with
  | zero => intro t w hw; simpa [exec, emit] using hw
  | succ f ih =>
    intro t w hw
    cases t with
    | ops self arg l =>
      cases l with
      | nil => simpa [exec] using hw
      | cons op rest =>
        simp only [exec, hbRemove_c, hbAdd_c]
        apply andThen_inv
        · cases op with
          | ld b =>
            try simp only
            refine andThen_inv (ih _ _ (by exact hw)) ?_
            intro w1 v h1
            try simp only
            split
            · exact crashR_inv h1
            · exact lookupC_inv _ h1
          | cl b =>
            try simp only
            refine andThen_inv (ih _ _ (by exact hw)) ?_
            intro w1 v h1
            exact h1
          | mv a d =>
            try simp only
            split
            · refine andThen_inv (ih _ _ (by exact hw)) ?_
              intro w1 v h1; exact h1
            · exact hw
          | de a =>
            try simp only
            split
            · refine andThen_inv (ih _ _ (by exact hw)) ?_
              intro w1 v h1; exact h1
            · exact hw
          | mvs a b =>
            try simp only
            split
            · refine andThen_inv (ih _ _ (by exact hw)) ?_
              intro w1 v h1; exact h1
            · exact hw
          | hbe a =>
            try simp only
            split <;> (first | exact hw | (show Inv (hbAdd _ _).c; rw [hbAdd_c]; exact hw))
          | hbd a =>
            try simp only
            split <;> (first | exact hw | (show Inv (hbRemove _ _).c; rw [hbRemove_c]; exact hw))
          | pr e t =>
            try simp only
            split
            · exact hw
            · refine andThen_inv (ih _ _ (by exact hw)) ?_
              intro w1 v h1; exact h1
          | fis b =>
            try simp only
            refine andThen_inv (ih _ _ (by exact hw)) ?_
            intro w1 v h1
            split
            · exact raise_inv h1
            · exact h1
          | ec a =>
            try simp only
            split
            · rename_i a' ha
              obtain ⟨e, _, hd⟩ := readRef_some ha
              subst e
              exact setEc_inv true hw hd
            · exact hw
          | dc a =>
            try simp only
            split
            · rename_i a' ha
              obtain ⟨e, _, hd⟩ := readRef_some ha
              subst e
              split
              · exact setEc_inv false hw hd
              · exact hw
            · exact hw
          | ln a s =>
            try simp only
            split
            · rename_i a' ha
              obtain ⟨e, hlt, hd⟩ := readRef_some ha
              subst e
              exact setLiving_inv s hw hlt hd
            · exact hw
          | fo nm =>
            try simp only
            split
            · exact crashR_inv hw
            · exact lookupC_inv _ hw
          | fl s =>
            try simp only
            split
            · exact crashR_inv hw
            · exact findLivingC_inv _ hw
          | aa a verb =>
            try simp only
            split
            · exact hw
            · split
              · exact hw
              · refine ite_inv (crashR_inv hw) ?_
                refine ite_inv (by exact hw) ?_
                exact sentOnly_inv (addSent_sentOnly _ _ _ _) hw
          | cmd a verb =>
            try simp only
            split
            · exact hw
            · refine andThen_inv (ih _ _ (by exact hw)) ?_
              intro w1 v h1; exact h1
          | kp a =>
            try simp only
            split <;> exact hw
          | rd => exact hw
          | err => exact raise_inv hw
          | mvarg =>
            try simp only
            split
            · refine andThen_inv (ih _ _ (by exact hw)) ?_
              intro w1 v h1; exact h1
            · exact hw
          | nop => exact hw
          | ret0 => exact hw
          | gh g =>
            try simp only
            refine andThen_inv (ih _ _ (by exact hw)) ?_
            intro w1 v h1
            split
            · cases g <;> (try simp only) <;> first
                | exact h1
                | (split <;> first | exact raise_inv (by exact h1) | exact h1)
            · exact ih _ _ (by exact h1)
          | ra a verb =>
            try simp only
            split
            · exact hw
            · refine ite_inv (crashR_inv hw) ?_
              refine ite_inv ?_ (by exact hw)
              exact sentOnly_inv (eraseSent_sentOnly _ _ _) hw
          | obf =>
            try simp only
            refine ite_inv (crashR_inv hw) ?_
            refine andThen_inv (ih _ _ (by exact hw)) ?_
            intro w1 v h1
            split <;> exact h1
          | ct o =>
            try simp only
            have h1 := ih (.ops self arg [o]) (emit { w with catching := w.catching + 1 } s!"ctb {oid self}") (by exact hw)
            split <;> exact h1
        · intro w1 v h1
          split
          · exact h1
          · exact ih _ _ h1
    | hook x k arg =>
      simp only [exec]
      refine ite_inv (crashR_inv hw) ?_
      refine ite_inv (by exact hw) ?_
      refine andThen_inv (ih _ _ ?_) ?_
      · cases k <;> cases arg <;> exact hw
      · intro w1 v h1; exact h1
    | load b strict =>
      have hstrict : ∀ (w1 : World) (v : Option Nat), Inv w1.c → RInv (match v with
          | none => ({ w := w1, val := none } : R)
          | some ob => if strict = true ∧ (w1.c.objs ob).destructed = true then { w := w1, val := none }
                       else { w := w1, val := some ob }) := by
        intro w1 v h1
        split
        · exact h1
        · split <;> exact h1
      cases b with
      | nofile =>
        have hl := lookupC_inv { base := .nofile, num := none } hw
        simp only [exec]
        refine ite_inv (crashR_inv hw) ?_
        split
        · exact hl
        · rename_i hlk
          have hsame := lookupC_none_core hlk
          have hfree := lookupC_none_free hw hlk
          have halloc : Inv (alloc (lookupC w.c { base := .nofile, num := none }).1 { base := .nofile, num := none } false).1 := by
            rw [hsame]; exact alloc_inv hw hfree (by simp)
          refine ite_inv (raise_inv (by exact hl)) ?_
          exact andThen_inv (by exact hl) hstrict
      | badfile =>
        have hl := lookupC_inv { base := .badfile, num := none } hw
        simp only [exec]
        refine ite_inv (crashR_inv hw) ?_
        split
        · exact hl
        · rename_i hlk
          have hsame := lookupC_none_core hlk
          have hfree := lookupC_none_free hw hlk
          have halloc : Inv (alloc (lookupC w.c { base := .badfile, num := none }).1 { base := .badfile, num := none } false).1 := by
            rw [hsame]; exact alloc_inv hw hfree (by simp)
          refine ite_inv (raise_inv (by exact hl)) ?_
          exact andThen_inv (raise_inv (by exact hl)) hstrict
      | ih k =>
        have hl := lookupC_inv { base := .ih k, num := none } hw
        simp only [exec]
        refine ite_inv (crashR_inv hw) ?_
        split
        · exact hl
        · rename_i hlk
          have hsame := lookupC_none_core hlk
          have hfree := lookupC_none_free hw hlk
          have halloc : Inv (alloc (lookupC w.c { base := .ih k, num := none }).1 { base := .ih k, num := none } false).1 := by
            rw [hsame]; exact alloc_inv hw hfree (by simp)
          refine ite_inv (raise_inv (by exact hl)) ?_
          refine andThen_inv ?_ hstrict
          have hlB := lookupC_inv { base := .bp k, num := none } hl
          have hnB := lookupC_n (lookupC w.c { base := .ih k, num := none }).1 { base := .bp k, num := none }
          have hn0 := lookupC_n w.c { base := .ih k, num := none }
          split
          · rename_i r hr
            split at hr
            · cases hr; exact crashR_inv (by exact hl)
            · split at hr
              · cases hr
              · cases hr
                refine andThen_inv (ih _ _ (by exact hlB)) ?_
                intro w1 v h1
                split
                · exact raise_inv h1
                · exact andThen_inv (ih _ _ h1) (fun w2 v2 h2 => h2)
          · rename_i w' hr
            split at hr
            · cases hr
            · split at hr
              · cases hr
                refine andThen_inv (ih _ _ ?_) (fun w1 v h1 => h1)
                refine alloc_inv (by exact hlB) ?_ (by simp)
                intro i hi hd
                rw [hnB.1, hn0.1] at hi
                rw [hnB.2, hn0.2] at hd ⊢
                exact hfree i hi hd
              · cases hr
      | bp k =>
        have hl := lookupC_inv { base := .bp k, num := none } hw
        simp only [exec]
        refine ite_inv (crashR_inv hw) ?_
        split
        · exact hl
        · rename_i hlk
          have hsame := lookupC_none_core hlk
          have hfree := lookupC_none_free hw hlk
          have halloc : Inv (alloc (lookupC w.c { base := .bp k, num := none }).1 { base := .bp k, num := none } false).1 := by
            rw [hsame]; exact alloc_inv hw hfree (by simp)
          refine ite_inv (raise_inv (by exact hl)) ?_
          exact andThen_inv (andThen_inv (ih _ _ (by exact halloc)) (fun w1 v h1 => h1)) hstrict
      | master =>
        have hl := lookupC_inv { base := .master, num := none } hw
        simp only [exec]
        refine ite_inv (crashR_inv hw) ?_
        split
        · exact hl
        · rename_i hlk
          have hsame := lookupC_none_core hlk
          have hfree := lookupC_none_free hw hlk
          have halloc : Inv (alloc (lookupC w.c { base := .master, num := none }).1 { base := .master, num := none } false).1 := by
            rw [hsame]; exact alloc_inv hw hfree (by simp)
          refine ite_inv (raise_inv (by exact hl)) ?_
          exact andThen_inv (andThen_inv (ih _ _ (by exact halloc)) (fun w1 v h1 => h1)) hstrict
      | simul =>
        have hl := lookupC_inv { base := .simul, num := none } hw
        simp only [exec]
        refine ite_inv (crashR_inv hw) ?_
        split
        · exact hl
        · rename_i hlk
          have hsame := lookupC_none_core hlk
          have hfree := lookupC_none_free hw hlk
          have halloc : Inv (alloc (lookupC w.c { base := .simul, num := none }).1 { base := .simul, num := none } false).1 := by
            rw [hsame]; exact alloc_inv hw hfree (by simp)
          refine ite_inv (raise_inv (by exact hl)) ?_
          exact andThen_inv (andThen_inv (ih _ _ (by exact halloc)) (fun w1 v h1 => h1)) hstrict
    | clone b =>
      simp only [exec, hbRemove_c]
      refine andThen_inv (ih _ _ hw) ?_
      intro w1 v h1
      split
      · exact h1
      · rename_i ob
        refine ite_inv (crashR_inv h1) ?_
        refine ite_inv (raise_inv h1) ?_
        refine andThen_inv (ih _ _ ?_) ?_
        · refine alloc_inv (ctr_inv h1) ?_ ?_
          · intro i hi hd hn
            have := h1.names.fresh i w1.c.ctr hi (by simp [nameF]; rw [hn])
            omega
          · intro k hk; simp at hk; subst hk; simp
        · intro w2 v2 h2; split <;> exact h2
    | move item dest =>
      simp only [exec]
      split
      · exact crashR_inv hw
      · rename_i hlt
        have hlt' : item < w.c.n ∧ dest < w.c.n := by
          apply Classical.byContradiction; intro hc; exact hlt (Or.inl hc)
        split
        · exact raise_inv hw
        · rename_i hid
          split
          · exact crashR_inv hw
          · exact hangR_inv hw
          · exact raise_inv hw
          · rename_i hclear
            split
            · exact raise_inv hw
            · rename_i hdd
              have hso := unsentMove_sentOnly w.c item
              have hpr := sentOnly_proj hso
              have hu : Inv (unsentMove w.c item) := sentOnly_inv hso hw
              have hrel : Inv (relink (unsentMove w.c item) item dest) := by
                refine relink_inv hu (by rw [hpr.1]; exact hlt'.1) ?_ (by rw [hpr.1]; exact hlt'.2) ?_ ?_
                · rw [(sentOnly_obj hso item).1]; simpa using hid
                · rw [(sentOnly_obj hso dest).1]; simpa using hdd
                · rw [hpr.2.2.2.2.2.2.2.1]; exact superWalk_clear _ _ hclear
              refine ite_inv (crashR_inv hw) ?_
              refine andThen_inv ?_ ?_
              · split
                · exact ih _ _ hrel
                · exact hrel
              · intro w1 v h1
                split
                · exact h1
                · exact ih _ _ h1
    | moveStr item b =>
      simp only [exec]
      refine andThen_inv (ih _ _ hw) ?_
      intro w1 v h1
      split
      · exact raise_inv h1
      · exact ih _ _ h1
    | fan item dest cur saveCg =>
      simp only [exec]
      split
      · refine ite_inv (raise_inv hw) ?_
        refine andThen_inv ?_ ?_
        · split
          · exact ih _ _ hw
          · exact hw
        · intro w1 v h1; exact h1
      · refine ite_inv (crashR_inv hw) ?_
        refine ite_inv (ih _ _ hw) ?_
        refine ite_inv (raise_inv hw) ?_
        refine ite_inv (ih _ _ hw) ?_
        refine andThen_inv ?_ ?_
        · split
          · exact ih _ _ hw
          · exact hw
        · intro w1 v h1
          refine ite_inv (by exact h1) ?_
          refine ite_inv (raise_inv h1) ?_
          refine ite_inv (ih _ _ h1) ?_
          refine andThen_inv ?_ ?_
          · split
            · exact ih _ _ h1
            · exact h1
          · intro w2 v2 h2
            refine ite_inv (by exact h2) (ih _ _ h2)
    | present env tgt cur =>
      simp only [exec]
      split
      · exact hw
      · refine ite_inv (crashR_inv hw) ?_
        refine andThen_inv (ih _ _ hw) ?_
        intro w1 v h1
        refine ite_inv (by exact h1) ?_
        refine ite_inv (by exact h1) ?_
        exact ite_inv (by exact h1) (ih _ _ h1)
    | command a verb =>
      simp only [exec]
      refine ite_inv (crashR_inv hw) ?_
      refine ite_inv (by exact hw) ?_
      refine ite_inv (by exact hw) ?_
      refine andThen_inv (ih _ _ (by exact hw)) ?_
      intro w1 v h1; exact h1
    | cmdloop a verb rest saveIsa =>
      simp only [exec]
      split
      · exact hw
      · refine ite_inv (ih _ _ hw) ?_
        refine andThen_inv (ih _ _ hw) ?_
        intro w1 v h1
        refine ite_inv (by exact h1) ?_
        refine ite_inv (by exact h1) ?_
        refine ite_inv (raise_inv (by exact h1)) ?_
        refine ite_inv (raise_inv (by exact h1)) ?_
        exact ih _ _ (by exact h1)
    | destruct ob =>
      simp only [exec]
      refine ite_inv (raise_inv hw) ?_
      refine ite_inv (crashR_inv hw) ?_
      refine ite_inv (by exact hw) (ih _ _ hw)
    | dloop ob sup0 saveR =>
      simp only [exec, hbRemove_c]
      split
      · rename_i hempty
        split
        · exact crashR_inv hw
        · rename_i hlive
          have hlive' : ob < w.c.n ∧ (w.c.objs ob).destructed = false := by
            apply Classical.byContradiction; intro hc; exact hlive hc
          have hso := unsentDestruct_sentOnly w.c ob
          have hpr := sentOnly_proj hso
          have hu : Inv (unsentDestruct w.c ob) := sentOnly_inv hso hw
          have hob := sentOnly_obj hso ob
          refine ite_inv (crashR_inv hw) ?_
          exact finishDestruct_inv hu (by rw [hpr.1]; exact hlive'.1) (by rw [hob.1]; exact hlive'.2)
            (by rw [hob.2.2.1]; exact hempty)
      · refine ite_inv (crashR_inv hw) ?_
        refine ite_inv (crashR_inv hw) ?_
        refine andThen_inv (ih _ _ ?_) ?_
        · exact hw
        · intro w1 v h1
          refine ite_inv (by exact h1) ?_
          refine andThen_inv ?_ ?_
          · split
            · exact ih _ _ h1
            · exact h1
          · intro w2 v2 h2
            refine ite_inv (by exact h2) (ih _ _ h2)
    | objloop self rest acc =>
      simp only [exec]
      split
      · exact hw
      · refine ite_inv (crashR_inv hw) ?_
        refine ite_inv (ih _ _ hw) ?_
        refine ite_inv (crashR_inv hw) ?_
        refine ite_inv (raise_inv hw) ?_
        refine andThen_inv (ih _ _ hw) ?_
        intro w1 v h1
        exact ih _ _ h1

theorem probe_inv {w : World} (hw : Inv w.c) : Inv (probe w).c := by
  unfold probe
  simp only [emit]
  generalize (List.range w.c.n).drop 2 = ids
  suffices h : ∀ (ids : List Nat) (w : World), Inv w.c → Inv (ids.foldl (fun w i =>
      let o := w.c.objs i
      let r := lookupC w.c o.name
      let w := { w with c := r.1 }
      let found := s!"{ooid (r.2.bind (readRef w.c))}/{if r.2.isSome then 1 else 0}"
      if o.destructed then emit w s!"P {oid i} ref=0 find={found}"
      else
        let fl := match o.living with
          | none => (w, "-")
          | some s =>
            let r := findLivingC w.c s
            ({ w with c := r.1 }, ooid (r.2.bind (readRef r.1)))
        let w := fl.1
        let o := w.c.objs i
        emit w s!"P {oid i} ref={oid i} find={found} env={ooid (o.super.bind (readRef w.c))} inv={joinIds (o.contains.filterMap (readRef w.c))} walk={joinIds (invWalk w.c (w.c.n + 1) o.contains.head?)} fl={fl.2}") w).c from h ids w hw
  intro ids
  induction ids with
  | nil => intro w hw; exact hw
  | cons i rest ih =>
    intro w hw
    simp only [List.foldl_cons]
    apply ih
    have h1 := lookupC_inv (w.c.objs i).name hw
    simp only [emit]
    split
    · exact h1
    · split
      · exact h1
      · exact findLivingC_inv _ h1

theorem hbRound_inv (sc : Scripts) : ∀ (fuel : Nat) (w : World), Inv w.c → RInv (hbRound sc fuel w) := by
  intro fuel
  induction fuel with
  | zero => intro w hw; exact hw
  | succ fuel ih =>
    intro w hw
    simp only [hbRound]
    split
    · exact hw
    · refine ite_inv (by exact hw) ?_
      refine andThen_inv (exec_inv sc _ _ _ (by exact hw)) ?_
      intro w1 v h1
      exact ite_inv (by exact h1) (ih _ (by exact h1))

theorem tick_inv (sc : Scripts) {w : World} (hw : Inv w.c) : Inv (tick sc w).c := by
  unfold tick
  simp only
  split
  · exact hw
  · have := hbRound_inv sc (w.hbl.length + 1000) { w with hbTodo := w.hbl.length, hbIdx := 0 } hw
    split <;> exact this

theorem stepCmd_inv (sc : Scripts) {w : World} (cmd : Cmd) (hw : Inv w.c) : Inv (stepCmd sc w cmd).c := by
  cases cmd with
  | top op =>
    simp only [stepCmd]
    have := exec_inv sc topFuel (.ops 1 none [op]) w hw
    split
    · exact hw
    · split <;> exact this
  | tick => exact tick_inv sc hw
  | snap => exact hw
  | probe => exact probe_inv hw
  | gc => exact gc_inv hw

theorem runCmds_inv (sc : Scripts) (cmds : List Cmd) : ∀ (w : World), Inv w.c → Inv (runCmds sc w cmds).c := by
  induction cmds with
  | nil => intro w hw; exact hw
  | cons cmd rest ih => intro w hw; exact ih _ (stepCmd_inv sc cmd hw)

end NV.C08
