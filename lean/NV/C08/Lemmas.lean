/-
C08 helper lemmas: the invariant of the registries, and its preservation by every straight-line block of the
modelled C code (the places between two points where LPC code can run).

The invariant is split in four groups, each stated over the projections of the state it reads, so that a block that
does not touch a projection keeps the group by rewriting.
-/
import NV.C08.Model
import NV.C08.Anc

namespace NV.C08

set_option linter.unusedSimpArgs false

/-! ## list facts -/

theorem mtf_mem {l : List Nat} {i x : Nat} (hi : i ∈ l) : x ∈ i :: l.erase i ↔ x ∈ l := by
  by_cases hx : x = i
  · subst hx; simp [hi]
  · simp [hx, List.mem_erase_of_ne hx]

theorem mtf_nodup {l : List Nat} {i : Nat} (hn : l.Nodup) : (i :: l.erase i).Nodup := by
  rw [List.nodup_cons]
  exact ⟨fun h => by have := List.Nodup.mem_erase_iff hn (a := i) (b := i); simp_all, hn.erase i⟩

theorem mem_filter_ne {l : List Nat} {a x : Nat} : x ∈ l.filter (· ≠ a) ↔ x ∈ l ∧ x ≠ a := by
  simp [List.mem_filter]

theorem filter_ne_of_not_mem {l : List Nat} {a : Nat} (h : a ∉ l) : l.filter (· ≠ a) = l := by
  apply List.filter_eq_self.mpr
  intro x hx
  have : x ≠ a := fun e => h (e ▸ hx)
  simp [this]

theorem mem_erase_nodup {l : List Nat} {a x : Nat} (hn : l.Nodup) : x ∈ l.erase a ↔ x ≠ a ∧ x ∈ l :=
  List.Nodup.mem_erase_iff hn

/-! ## projections -/

def deadF (c : Core) : Nat → Bool := fun i => (c.objs i).destructed
def freedF (c : Core) : Nat → Bool := fun i => (c.objs i).freed
def supF (c : Core) : Nat → Option Nat := fun i => (c.objs i).super
def contF (c : Core) : Nat → List Nat := fun i => (c.objs i).contains
def nameF (c : Core) : Nat → Name := fun i => (c.objs i).name
def ecF (c : Core) : Nat → Bool := fun i => (c.objs i).ec
def lnF (c : Core) : Nat → Option String := fun i => (c.objs i).living

/-! ## the invariant -/

/-- inventories and environments -/
structure Links (n : Nat) (dead : Nat → Bool) (sup : Nat → Option Nat) (cont : Nat → List Nat) : Prop where
  blank : ∀ i, n ≤ i → dead i = false ∧ sup i = none ∧ cont i = []
  inv : ∀ x y, x ∈ cont y ↔ sup x = some y
  nodup : ∀ y, (cont y).Nodup
  deadL : ∀ i, dead i = true → sup i = none ∧ cont i = []
  acyc : ∀ x, ¬ Anc sup x x

/-- the object name hash table -/
structure Names (n : Nat) (dead : Nat → Bool) (name : Nat → Name) (ot : Nat → List Nat) (ctr : Nat) : Prop where
  mem : ∀ h i, i ∈ ot h ↔ (i < n ∧ dead i = false ∧ hashN (name i) = h)
  nodup : ∀ h, (ot h).Nodup
  uniq : ∀ i j, i < n → dead i = false → j < n → dead j = false → name i = name j → i = j
  fresh : ∀ i k, i < n → (name i).num = some k → k < ctr

/-- obj_list, obj_list_destruct, released structures -/
structure Lists (n : Nat) (dead freed : Nat → Bool) (ol dl : List Nat) : Prop where
  olMem : ∀ i, i ∈ ol ↔ (i < n ∧ dead i = false)
  olNodup : ol.Nodup
  dlMem : ∀ i, i ∈ dl → i < n ∧ dead i = true
  freedDead : ∀ i, freed i = true → dead i = true

/-- the living name hash table -/
structure Living (n : Nat) (dead ec : Nat → Bool) (ln : Nat → Option String) (lv : Nat → List Nat) : Prop where
  mem : ∀ h i, i ∈ lv h ↔ (i < n ∧ dead i = false ∧ ∃ s, ln i = some s ∧ lhash s = h)
  nodup : ∀ h, (lv h).Nodup
  deadV : ∀ i, dead i = true → ec i = false ∧ ln i = none
  blankV : ∀ i, n ≤ i → ln i = none

/-- `WorldInv`: holds at every point where LPC code can run -/
structure Inv (c : Core) : Prop where
  links : Links c.n (deadF c) (supF c) (contF c)
  names : Names c.n (deadF c) (nameF c) c.ot c.ctr
  lists : Lists c.n (deadF c) (freedF c) c.ol c.dl
  living : Living c.n (deadF c) (ecF c) (lnF c) c.lv

/-! ## find_obj_n -/

theorem lookupC_eq (c : Core) (nm : Name) :
    lookupC c nm = match (c.ot (hashN nm)).find? (fun i => decide ((c.objs i).name = nm)) with
      | none => (c, none)
      | some i => (setOt c (hashN nm) (i :: (c.ot (hashN nm)).erase i), some i) := rfl

theorem lookupC_some {c : Core} {nm : Name} {i : Nat} (h : (lookupC c nm).2 = some i) :
    i ∈ c.ot (hashN nm) ∧ (c.objs i).name = nm := by
  rw [lookupC_eq] at h
  split at h
  · simp at h
  · rename_i j hj
    simp at h
    subst h
    have := List.find?_some hj
    have hm := List.mem_of_find?_eq_some hj
    simp at this
    exact ⟨hm, this⟩

theorem lookupC_none {c : Core} {nm : Name} (h : (lookupC c nm).2 = none) :
    ∀ i, i ∈ c.ot (hashN nm) → (c.objs i).name ≠ nm := by
  rw [lookupC_eq] at h
  split at h
  · rename_i hj
    intro i hi
    have := List.find?_eq_none.mp hj i hi
    simpa using this
  · simp at h

/-- what find_obj_n does to the state: only the order of one chain changes -/
theorem lookupC_core (c : Core) (nm : Name) :
    (lookupC c nm).1 = c ∨ ∃ i, i ∈ c.ot (hashN nm) ∧ (lookupC c nm).1 = setOt c (hashN nm) (i :: (c.ot (hashN nm)).erase i) := by
  rw [lookupC_eq]
  split
  · exact Or.inl rfl
  · rename_i j hj
    exact Or.inr ⟨j, List.mem_of_find?_eq_some hj, rfl⟩

theorem names_mtf {n : Nat} {dead : Nat → Bool} {name : Nat → Name} {ot : Nat → List Nat} {ctr h0 i : Nat}
    (hN : Names n dead name ot ctr) (hi : i ∈ ot h0) :
    Names n dead name (fun k => if k = h0 then i :: (ot h0).erase i else ot k) ctr where
  mem := by
    intro h j
    by_cases hh : h = h0
    · subst hh; simp only [if_true]; rw [mtf_mem hi]; exact hN.mem h j
    · simp only [hh, if_false]; exact hN.mem h j
  nodup := by
    intro h
    by_cases hh : h = h0
    · subst hh; simp only [if_true]; exact mtf_nodup (hN.nodup h)
    · simp only [hh, if_false]; exact hN.nodup h
  uniq := hN.uniq
  fresh := hN.fresh

theorem setOt_proj (c : Core) (h : Nat) (l : List Nat) :
    (setOt c h l).n = c.n ∧ (setOt c h l).objs = c.objs ∧ (setOt c h l).ol = c.ol ∧ (setOt c h l).dl = c.dl ∧
    (setOt c h l).lv = c.lv ∧ (setOt c h l).ctr = c.ctr ∧ (setOt c h l).ot = fun k => if k = h then l else c.ot k := by
  simp [setOt]

theorem lookupC_inv {c : Core} (nm : Name) (hI : Inv c) : Inv (lookupC c nm).1 := by
  rcases lookupC_core c nm with h | ⟨i, hi, h⟩
  · rw [h]; exact hI
  · rw [h]
    exact { links := hI.links, names := names_mtf hI.names hi, lists := hI.lists, living := hI.living }

theorem lookupC_n (c : Core) (nm : Name) : (lookupC c nm).1.n = c.n ∧ (lookupC c nm).1.objs = c.objs := by
  rcases lookupC_core c nm with h | ⟨i, _, h⟩ <;> rw [h] <;> simp [setOt]

/-- find_obj_n finds exactly the live object carrying the name (needs only the name table part of the invariant) -/
theorem lookupC_spec' {c : Core} (hN : Names c.n (deadF c) (nameF c) c.ot c.ctr) (nm : Name) (i : Nat) :
    (lookupC c nm).2 = some i ↔ (i < c.n ∧ (c.objs i).destructed = false ∧ (c.objs i).name = nm) := by
  constructor
  · intro h
    have ⟨hm, hn⟩ := lookupC_some h
    have := (hN.mem _ _).mp hm
    exact ⟨this.1, this.2.1, hn⟩
  · intro ⟨hlt, hd, hn⟩
    cases hr : (lookupC c nm).2 with
    | none =>
      have hm : i ∈ c.ot (hashN nm) := (hN.mem _ _).mpr ⟨hlt, hd, by simp [nameF, hn]⟩
      exact absurd hn (lookupC_none hr i hm)
    | some j =>
      have ⟨hm, hnj⟩ := lookupC_some hr
      have hj := (hN.mem _ _).mp hm
      have : j = i := hN.uniq j i hj.1 hj.2.1 hlt hd (by simp [nameF, hnj, hn])
      rw [this]

/-- `lookup_unique_live` on the structures: find_obj_n finds exactly the live object carrying the name -/
theorem lookupC_spec {c : Core} (hI : Inv c) (nm : Name) (i : Nat) :
    (lookupC c nm).2 = some i ↔ (i < c.n ∧ (c.objs i).destructed = false ∧ (c.objs i).name = nm) :=
  lookupC_spec' hI.names nm i

/-! ## allocation -/

theorem names_alloc {n : Nat} {dead : Nat → Bool} {name : Nat → Name} {ot : Nat → List Nat} {ctr : Nat} {nm : Name}
    (hN : Names n dead name ot ctr) (hb : dead n = false)
    (hfree : ∀ i, i < n → dead i = false → name i ≠ nm) (hfr : ∀ k, nm.num = some k → k < ctr) :
    Names (n + 1) dead (fun j => if j = n then nm else name j)
      (fun k => if k = hashN nm then n :: ot k else ot k) ctr where
  mem := by
    intro h i
    have hnot : ∀ h, n ∉ ot h := fun h hm => by have := (hN.mem h n).mp hm; omega
    by_cases hi : i = n
    · subst hi
      by_cases hh : h = hashN nm
      · subst hh; simp [hb]
      · simp [hh, hnot h, hb]; exact fun e => hh e.symm
    · have := hN.mem h i
      by_cases hh : h = hashN nm
      · subst hh; simp [hi, this]; omega
      · simp [hh, hi, this]; omega
  nodup := by
    intro h
    have hnot : n ∉ ot h := fun hm => by have := (hN.mem h n).mp hm; omega
    by_cases hh : h = hashN nm
    · simp [hh]; exact ⟨by subst hh; exact hnot, hN.nodup _⟩
    · simp [hh]; exact hN.nodup h
  uniq := by
    intro i j hi hdi hj hdj he
    by_cases h1 : i = n <;> by_cases h2 : j = n
    · omega
    · simp [h1, h2] at he
      exact absurd he.symm (hfree j (by omega) hdj)
    · simp [h1, h2] at he
      exact absurd he (hfree i (by omega) hdi)
    · simp [h1, h2] at he
      exact hN.uniq i j (by omega) hdi (by omega) hdj he
  fresh := by
    intro i k hi hk
    by_cases h1 : i = n
    · simp [h1] at hk; exact hfr k hk
    · simp [h1] at hk; exact hN.fresh i k (by omega) hk


theorem links_grow {n : Nat} {dead : Nat → Bool} {sup : Nat → Option Nat} {cont : Nat → List Nat}
    (hL : Links n dead sup cont) : Links (n + 1) dead sup cont :=
  { hL with blank := fun i hi => hL.blank i (by omega) }

theorem lists_alloc {n : Nat} {dead freed : Nat → Bool} {ol dl : List Nat}
    (hL : Lists n dead freed ol dl) (hb : dead n = false) :
    Lists (n + 1) dead (fun j => if j = n then false else freed j) (n :: ol) dl where
  olMem := by
    intro i
    have := hL.olMem i
    by_cases hi : i = n
    · subst hi; simp [hb]
    · simp [hi, this]; omega
  olNodup := by
    rw [List.nodup_cons]
    exact ⟨fun hm => by have := (hL.olMem n).mp hm; omega, hL.olNodup⟩
  dlMem := fun i hi => by have := hL.dlMem i hi; exact ⟨by omega, this.2⟩
  freedDead := by
    intro i hi
    by_cases h1 : i = n
    · simp [h1] at hi
    · simp [h1] at hi; exact hL.freedDead i hi

theorem living_alloc {n : Nat} {dead ec : Nat → Bool} {ln : Nat → Option String} {lv : Nat → List Nat}
    (hV : Living n dead ec ln lv) (hb : dead n = false) :
    Living (n + 1) dead (fun j => if j = n then false else ec j) ln lv where
  mem := by
    intro h i
    have := hV.mem h i
    by_cases hi : i = n
    · subst hi
      have hb := hV.blankV i (Nat.le_refl _)
      simp [this, hb]
    · simp [this]; omega
  nodup := hV.nodup
  deadV := by
    intro i hi
    by_cases h1 : i = n
    · subst h1; simp [hb] at hi
    · simp [h1]; exact hV.deadV i hi
  blankV := fun i hi => hV.blankV i (by omega)


/-- the state after get_empty_object + obj_list push + enter_object_hash of a name that is not present -/
def allocCore (c : Core) (nm : Name) (cl : Bool) : Core :=
  { n := c.n + 1, objs := fun j => if j = c.n then { name := nm, clone := cl } else c.objs j,
    ot := fun k => if k = hashN nm then c.n :: c.ot k else c.ot k, ol := c.n :: c.ol, dl := c.dl, lv := c.lv,
    ctr := c.ctr }

theorem alloc_eq {c : Core} {nm : Name} {cl : Bool} (hI : Inv c)
    (hfree : ∀ i, i < c.n → (c.objs i).destructed = false → (c.objs i).name ≠ nm) :
    alloc c nm cl =
      (allocCore c nm cl, c.n) := by
  unfold alloc
  simp only [enterHash]
  have hfind : (c.ot (hashN nm)).find? (fun i => decide ((if i = c.n then ({ name := nm, clone := cl } : Obj) else c.objs i).name = nm)) = none := by
    apply List.find?_eq_none.mpr
    intro i hi
    have := (hI.names.mem _ _).mp hi
    have hne : i ≠ c.n := by omega
    simp [hne]
    exact hfree i this.1 this.2.1
  simp [lookupC_eq, hfind, setOt, allocCore]
  funext k
  by_cases hk : k = hashN nm <;> simp [hk]

theorem alloc_inv {c : Core} {nm : Name} {cl : Bool} (hI : Inv c)
    (hfree : ∀ i, i < c.n → (c.objs i).destructed = false → (c.objs i).name ≠ nm)
    (hfr : ∀ k, nm.num = some k → k < c.ctr) : Inv (alloc c nm cl).1 := by
  rw [alloc_eq hI hfree]
  generalize hc' : allocCore c nm cl = c'
  simp only [] 
  have hobjs : c'.objs = fun j => if j = c.n then { name := nm, clone := cl } else c.objs j := by subst hc'; rfl
  have hn : c'.n = c.n + 1 := by subst hc'; rfl
  have hot : c'.ot = fun k => if k = hashN nm then c.n :: c.ot k else c.ot k := by subst hc'; rfl
  have hol : c'.ol = c.n :: c.ol := by subst hc'; rfl
  have hdl : c'.dl = c.dl := by subst hc'; rfl
  have hlv : c'.lv = c.lv := by subst hc'; rfl
  have hctr : c'.ctr = c.ctr := by subst hc'; rfl
  have hb := hI.links.blank c.n (Nat.le_refl _)
  have hbd : deadF c c.n = false := hb.1
  have hb1 : (c.objs c.n).destructed = false := hb.1
  have hb2 : (c.objs c.n).super = none := hb.2.1
  have hb3 : (c.objs c.n).contains = [] := hb.2.2
  have hb4 : (c.objs c.n).living = none := hI.living.blankV c.n (Nat.le_refl _)
  have e1 : deadF c' = deadF c := by
    funext i; simp only [deadF, supF, contF, lnF, nameF, freedF, ecF, hobjs]; by_cases h : i = c.n
    · subst h; simp [hb1]
    · simp [h, deadF]
  have e2 : supF c' = supF c := by
    funext i; simp only [deadF, supF, contF, lnF, nameF, freedF, ecF, hobjs]; by_cases h : i = c.n
    · subst h; simp [hb2]
    · simp [h, supF]
  have e3 : contF c' = contF c := by
    funext i; simp only [deadF, supF, contF, lnF, nameF, freedF, ecF, hobjs]; by_cases h : i = c.n
    · subst h; simp [hb3]
    · simp [h, contF]
  have e4 : lnF c' = lnF c := by
    funext i; simp only [deadF, supF, contF, lnF, nameF, freedF, ecF, hobjs]; by_cases h : i = c.n
    · subst h; simp [hb4]
    · simp [h, lnF]
  have e5 : nameF c' = (fun j => if j = c.n then nm else nameF c j) := by
    funext i; simp only [nameF, hobjs]; by_cases h : i = c.n <;> simp [h]
  have e6 : freedF c' = (fun j => if j = c.n then false else freedF c j) := by
    funext i; simp only [freedF, hobjs]; by_cases h : i = c.n <;> simp [h]
  have e7 : ecF c' = (fun j => if j = c.n then false else ecF c j) := by
    funext i; simp only [ecF, hobjs]; by_cases h : i = c.n <;> simp [h]
  constructor
  · rw [e1, e2, e3, hn]
    exact links_grow hI.links
  · rw [e1, e5, hn, hot, hctr]
    exact names_alloc hI.names hbd (fun i hi hd => hfree i hi hd) hfr
  · rw [e1, e6, hn, hol, hdl]
    exact lists_alloc hI.lists hbd
  · rw [e1, e7, e4, hn, hlv]
    exact living_alloc hI.living hbd


end NV.C08
