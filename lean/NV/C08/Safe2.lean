/-
C08 helper lemmas, part 6: `exec_good` - every well-formed task (see Safe.lean) is crash free, keeps command_giver
valid, returns valid objects and exchanges init() only between adjacent objects; by induction on the fuel, for every
hook oracle.  The checks of the C code that the proof uses are exactly the re-checks after each hook call.
-/
import NV.C08.Safe

namespace NV.C08

set_option linter.unusedSimpArgs false
set_option linter.unusedVariables false

variable (sc : Scripts)

abbrev IH (sc : Scripts) (f : Nat) : Prop :=
  ∀ t w, Inv w.c → TaskWf w.c t → WorldWf w → w.initBad = false → Good w.c (exec sc f t w)

theorem step_good {f : Nat} (ih : IH sc f)
    {c0 : Core} {t : Task} {w1 : World} {k : World → Option Nat → R}
    (hI : Inv w1.c) (ht : TaskWf w1.c t) (hwf : WorldWf w1) (hg : w1.initBad = false) (hle : NFle c0 w1.c)
    (hk : ∀ w2 v, Inv w2.c → NFle w1.c w2.c → WorldWf w2 → w2.initBad = false → (∀ x, v = some x → NF w2.c x) →
      Good c0 (k w2 v)) :
    Good c0 ((exec sc f t w1).andThen k) := by
  have g := ih t w1 hI ht hwf hg
  have hI2 := exec_inv sc f t w1 hI
  unfold R.andThen
  split
  · exact hk _ _ hI2 g.le g.wf g.ghost g.val
  · exact g.mono hle

theorem skip_good {c0 : Core} {w1 : World} {k : World → Option Nat → R} (h : Good c0 (k w1 none)) :
    Good c0 (({ w := w1 } : R).andThen k) := by
  simpa [R.andThen] using h

theorem opt_good {f : Nat} (ih : IH sc f) {p : Prop} [Decidable p]
    {c0 : Core} {t : Task} {wE wS : World} {k : World → Option Nat → R}
    (hE : p → Inv wE.c ∧ TaskWf wE.c t ∧ WorldWf wE ∧ wE.initBad = false ∧ NFle c0 wE.c)
    (hkE : p → ∀ w2 v, Inv w2.c → NFle wE.c w2.c → WorldWf w2 → w2.initBad = false → (∀ x, v = some x → NF w2.c x) →
      Good c0 (k w2 v))
    (hS : ¬ p → Good c0 (k wS none)) :
    Good c0 ((if p then exec sc f t wE else { w := wS }).andThen k) := by
  split
  · rename_i hp
    obtain ⟨a, b, c, d, e⟩ := hE hp
    exact step_good sc ih a b c d e (hkE hp)
  · rename_i hp
    exact skip_good (hS hp)

theorem andThen_assoc (r : R) (k1 k2 : World → Option Nat → R) :
    (r.andThen k1).andThen k2 = r.andThen (fun w v => (k1 w v).andThen k2) := by
  unfold R.andThen
  split
  · rfl
  · rename_i h; simp [h]

theorem ite_andThen {p : Prop} [Decidable p] (a b : R) (k : World → Option Nat → R) :
    (if p then a else b).andThen k = if p then a.andThen k else b.andThen k := by
  split <;> rfl

theorem leaf_andThen (w : World) (v : Option Nat) (k : World → Option Nat → R) :
    ({ w := w, val := v } : R).andThen k = k w v := by simp [R.andThen]

theorem crash_andThen (w : World) (m : String) (k : World → Option Nat → R) : (crashR w m).andThen k = crashR w m := by
  simp [R.andThen, crashR]

theorem raise_andThen (w : World) (m : String) (k : World → Option Nat → R) : (raise w m).andThen k = raise w m := by
  simp [R.andThen, raise]

theorem crash_absurd {c0 : Core} {w : World} {m : String} (h : False) : Good c0 (crashR w m) := h.elim

theorem wf_le {w : World} {c' : Core} (hwf : WorldWf w) (hle : NFle w.c c') : ∀ g, w.cg = some g → NF c' g :=
  fun g hg => hle g (hwf g hg)

theorem exec_good : ∀ (f : Nat), IH sc f := by
  intro f
  induction f with
  | zero =>
    intro t w hI ht hwf hg
    exact { le := NFle.refl _, nocrash := by simp [exec], nohang := by simp [exec], ghost := by simpa [exec, emit] using hg,
            wf := by simpa [exec, emit, WorldWf] using hwf, val := by simp [exec] }
  | succ f ih =>
    intro t w hI ht hwf hg
    cases t with
    | ops self arg l =>
      have hself : NF w.c self := ht
      cases l with
      | nil => simpa [exec] using good_leaf (NFle.refl _) hg hwf
      | cons op rest =>
        simp only [exec, hbRemove_c, hbRemove_cg, hbRemove_initBad]
        -- the continuation: the script goes on unless its object has been destructed
        have hK : ∀ (w1 : World) (v : Option Nat), Inv w1.c → NFle w.c w1.c → WorldWf w1 → w1.initBad = false →
            Good w.c (if (w1.c.objs self).destructed = true then ({ w := w1 } : R) else exec sc f (.ops self arg rest) w1) := by
          intro w1 v hI1 hle1 hwf1 hg1
          refine good_ite (fun _ => good_leaf hle1 hg1 hwf1) (fun _ => ?_)
          exact (ih (.ops self arg rest) w1 hI1 (hle1 _ hself) hwf1 hg1).mono hle1
        cases op with
        | ld b =>
          simp only [andThen_assoc]
          refine step_good sc ih hI trivial hwf hg (NFle.refl _) ?_
          intro w1 v hI1 hle1 hwf1 hg1 hv
          simp only [ite_andThen, crash_andThen, leaf_andThen]
          refine good_ite (fun h => crash_absurd (by simp [anyFreed_ot hI1] at h)) (fun _ => ?_)
          have hl := lookupC_inv { base := b, num := none } hI1
          have hle2 := nfle_lookupC w1.c { base := b, num := none }
          exact hK _ none hl (hle1.trans hle2) (fun g hgg => hle2 g (hwf1 g hgg)) hg1
        | cl b =>
          simp only [andThen_assoc]
          refine step_good sc ih hI trivial hwf hg (NFle.refl _) ?_
          intro w1 v hI1 hle1 hwf1 hg1 hv
          simp only [leaf_andThen]
          exact hK _ none hI1 hle1 hwf1 hg1
        | mv a d =>
          simp only
          split
          · rename_i a' d' ha hd
            obtain ⟨e1, hla, hda⟩ := readRef_some ha
            obtain ⟨e2, hld, hdd⟩ := readRef_some hd
            simp only [andThen_assoc]
            refine step_good sc ih (by exact hI) ⟨by rw [e1]; exact live_nf hI hla hda, by rw [e2]; exact live_nf hI hld hdd⟩
              (by exact hwf) (by exact hg) (NFle.refl _) ?_
            intro w1 v hI1 hle1 hwf1 hg1 hv
            simp only [leaf_andThen]
            exact hK _ none hI1 hle1 hwf1 hg1
          · simp only [leaf_andThen]
            exact hK _ none hI (NFle.refl _) hwf hg
        | de a =>
          simp only
          split
          · rename_i a' ha
            obtain ⟨e1, hla, hda⟩ := readRef_some ha
            simp only [andThen_assoc]
            refine step_good sc ih (by exact hI) (by rw [e1]; exact live_nf hI hla hda)
              (by exact hwf) (by exact hg) (NFle.refl _) ?_
            intro w1 v hI1 hle1 hwf1 hg1 hv
            simp only [leaf_andThen]
            exact hK _ none hI1 hle1 hwf1 hg1
          · simp only [leaf_andThen]
            exact hK _ none hI (NFle.refl _) hwf hg
        | mvs a b =>
          simp only
          split
          · rename_i a' ha
            obtain ⟨e1, hla, hda⟩ := readRef_some ha
            simp only [andThen_assoc]
            refine step_good sc ih (by exact hI) (by rw [e1]; exact live_nf hI hla hda)
              (by exact hwf) (by exact hg) (NFle.refl _) ?_
            intro w1 v hI1 hle1 hwf1 hg1 hv
            simp only [leaf_andThen]
            exact hK _ none hI1 hle1 hwf1 hg1
          · simp only [leaf_andThen]
            exact hK _ none hI (NFle.refl _) hwf hg
        | hbe a =>
          simp only
          split
          · simp only [leaf_andThen]
            refine hK _ none ?_ ?_ ?_ ?_
            · show Inv (hbAdd w _).c; rw [hbAdd_c]; exact hI
            · show NFle w.c (hbAdd w _).c; rw [hbAdd_c]; exact NFle.refl _
            · intro g hgg
              have hgg' : w.cg = some g := by simpa [emit] using hgg
              show NF (hbAdd w _).c g; rw [hbAdd_c]; exact hwf g hgg'
            · show (hbAdd w _).initBad = false; rw [hbAdd_initBad]; exact hg
          · simp only [leaf_andThen]
            exact hK _ none hI (NFle.refl _) hwf hg
        | hbd a =>
          simp only
          split
          · simp only [leaf_andThen]
            refine hK _ none ?_ ?_ ?_ ?_
            · show Inv (hbRemove w _).c; rw [hbRemove_c]; exact hI
            · show NFle w.c (hbRemove w _).c; rw [hbRemove_c]; exact NFle.refl _
            · intro g hgg
              have hgg' : w.cg = some g := by simpa [emit] using hgg
              show NF (hbRemove w _).c g; rw [hbRemove_c]; exact hwf g hgg'
            · show (hbRemove w _).initBad = false; rw [hbRemove_initBad]; exact hg
          · simp only [leaf_andThen]
            exact hK _ none hI (NFle.refl _) hwf hg
        | pr e t =>
          simp only
          split
          · simp only [leaf_andThen]
            exact hK _ none hI (NFle.refl _) hwf hg
          · rename_i e' he
            obtain ⟨e1, hle', hde⟩ := readRef_some he
            simp only [andThen_assoc]
            refine step_good sc ih (by exact hI) ?_ (by exact hwf) (by exact hg) (NFle.refl _) ?_
            · intro ob hob
              have hm : ob ∈ (w.c.objs e').contains := List.mem_of_mem_head? hob
              have := cont_live hI hm
              exact live_nf hI this.1 this.2
            · intro w1 v hI1 hle1 hwf1 hg1 hv
              simp only [leaf_andThen]
              exact hK _ none hI1 hle1 hwf1 hg1
        | fis b =>
          simp only [andThen_assoc]
          refine step_good sc ih hI trivial hwf hg (NFle.refl _) ?_
          intro w1 v hI1 hle1 hwf1 hg1 hv
          split
          · simp only [raise_andThen]
            exact good_raise hle1 hg1 hwf1
          · simp only [leaf_andThen]
            exact hK _ none hI1 hle1 hwf1 hg1
        | ec a =>
          simp only
          split
          · rename_i a' ha
            obtain ⟨e1, hla, hda⟩ := readRef_some ha
            subst e1
            simp only [leaf_andThen]
            have hle := nfle_setEc w.c a' true
            refine hK _ none (setEc_inv true hI hda) hle ?_ hg
            intro g hgg; cases hgg; exact hle _ (live_nf hI hla hda)
          · simp only [leaf_andThen]
            exact hK _ none hI (NFle.refl _) hwf hg
        | dc a =>
          simp only
          split
          · rename_i a' ha
            obtain ⟨e1, hla, hda⟩ := readRef_some ha
            subst e1
            simp only [ite_andThen, leaf_andThen]
            refine good_ite (fun _ => ?_) (fun _ => ?_)
            · refine hK _ none (setEc_inv false hI hda) (nfle_setEc w.c a' false) ?_ hg
              intro g hgg; cases hgg
            · exact hK _ none hI (NFle.refl _) hwf hg
          · simp only [leaf_andThen]
            exact hK _ none hI (NFle.refl _) hwf hg
        | ln a s =>
          simp only
          split
          · rename_i a' ha
            obtain ⟨e1, hla, hda⟩ := readRef_some ha
            subst e1
            simp only [leaf_andThen]
            have hle := nfle_setLiving s hda
            exact hK _ none (setLiving_inv s hI hla hda) hle (fun g hgg => hle g (hwf g hgg)) hg
          · simp only [leaf_andThen]
            exact hK _ none hI (NFle.refl _) hwf hg
        | fo nm =>
          simp only [ite_andThen, crash_andThen, leaf_andThen]
          refine good_ite (fun h => crash_absurd (by simp [anyFreed_ot hI] at h)) (fun _ => ?_)
          have hle := nfle_lookupC w.c nm
          exact hK _ none (lookupC_inv nm hI) hle (fun g hgg => hle g (hwf g hgg)) hg
        | fl s =>
          simp only [ite_andThen, crash_andThen, leaf_andThen]
          refine good_ite (fun h => crash_absurd (by simp [anyFreed_lv hI] at h)) (fun _ => ?_)
          have hle := nfle_findLivingC w.c s
          exact hK _ none (findLivingC_inv s hI) hle (fun g hgg => hle g (hwf g hgg)) hg
        | aa a verb =>
          simp only
          split
          · simp only [leaf_andThen]
            exact hK _ none hI (NFle.refl _) hwf hg
          · split
            · simp only [leaf_andThen]
              exact hK _ none hI (NFle.refl _) hwf hg
            · rename_i a1 _ _ g hcg
              have hgnf := hwf g hcg
              simp only [ite_andThen, crash_andThen, leaf_andThen]
              refine good_ite (fun h => crash_absurd (by rcases h with h | h; exact h hgnf.1; simp [hgnf.2] at h)) (fun _ => ?_)
              refine good_ite (fun _ => hK _ none hI (NFle.refl _) hwf hg) (fun _ => ?_)
              have hso := addSent_sentOnly w.c g verb a1
              have hle := nfle_sentOnly hso
              exact hK _ none (sentOnly_inv hso hI) hle (fun g' hgg => hle g' (hwf g' hgg)) hg
        | cmd a verb =>
          simp only
          split
          · simp only [leaf_andThen]
            exact hK _ none hI (NFle.refl _) hwf hg
          · rename_i a' ha
            obtain ⟨e1, hla, hda⟩ := readRef_some ha
            simp only [andThen_assoc]
            refine step_good sc ih (by exact hI) (by rw [e1]; exact live_nf hI hla hda)
              (by exact hwf) (by exact hg) (NFle.refl _) ?_
            intro w1 v hI1 hle1 hwf1 hg1 hv
            simp only [leaf_andThen]
            exact hK _ none hI1 hle1 hwf1 hg1
        | kp a =>
          simp only
          split <;> (simp only [leaf_andThen]; exact hK _ none hI (NFle.refl _) hwf hg)
        | rd =>
          simp only [leaf_andThen]
          exact hK _ none hI (NFle.refl _) hwf hg
        | err =>
          simp only [raise_andThen]
          exact good_raise (NFle.refl _) hg hwf
        | mvarg =>
          simp only
          split
          · rename_i d hd
            have hd' : ∃ a0, arg = some a0 ∧ readRef w.c a0 = some d := by
              cases arg with
              | none => simp at hd
              | some a0 => exact ⟨a0, rfl, by simpa using hd⟩
            obtain ⟨a0, _, hr⟩ := hd'
            obtain ⟨e2, hld, hdd⟩ := readRef_some hr
            simp only [andThen_assoc]
            refine step_good sc ih (by exact hI) ⟨hself, by rw [e2]; exact live_nf hI hld hdd⟩
              (by exact hwf) (by exact hg) (NFle.refl _) ?_
            intro w1 v hI1 hle1 hwf1 hg1 hv
            simp only [leaf_andThen]
            exact hK _ none hI1 hle1 hwf1 hg1
          · simp only [leaf_andThen]
            exact hK _ none hI (NFle.refl _) hwf hg
        | nop =>
          simp only [leaf_andThen]
          exact hK _ none hI (NFle.refl _) hwf hg
        | gh g =>
          simp only [andThen_assoc]
          refine step_good sc ih (by exact hI) (by exact hself) (by exact hwf) (by exact hg) (NFle.refl _) ?_
          intro w1 v hI1 hle1 hwf1 hg1 hv
          simp only [ite_andThen]
          refine good_ite (fun _ => ?_) (fun _ => ?_)
          · cases g <;> (try simp only [ite_andThen, leaf_andThen, raise_andThen]) <;> first
              | exact hK _ none (by exact hI1) hle1 (by exact hwf1) (by exact hg1)
              | exact good_ite (fun _ => good_raise hle1 (by exact hg1) (by exact hwf1))
                  (fun _ => hK _ none (by exact hI1) hle1 (by exact hwf1) (by exact hg1))
          · refine step_good sc ih (by exact hI1) (by exact hle1 _ hself) (by exact hwf1) (by exact hg1) hle1 ?_
            intro w2 v2 hI2 hle2 hwf2 hg2 hv2
            exact hK _ none hI2 (hle1.trans hle2) hwf2 hg2
        | ret0 =>
          simp only [leaf_andThen]
          exact hK { w with ret0 := self :: w.ret0.filter (· ≠ self) } none (by exact hI) (NFle.refl _) (by exact hwf) (by exact hg)
        | ra a verb =>
          simp only
          split
          · simp only [leaf_andThen]
            exact hK _ none hI (NFle.refl _) hwf hg
          · rename_i a1 ha
            obtain ⟨e1, hla, hda⟩ := readRef_some ha
            have hgnf : NF w.c (w.cg.getD a1) := by
              cases hcg : w.cg with
              | none => simp only [Option.getD]; rw [e1]; exact live_nf hI hla hda
              | some g => exact hwf g hcg
            simp only [ite_andThen, crash_andThen, leaf_andThen]
            refine good_ite (fun h => crash_absurd (by
              rcases h with h | h
              · exact h hgnf.1
              · rw [hgnf.2] at h; exact absurd h (by decide))) (fun _ => ?_)
            refine good_ite (fun _ => ?_) (fun _ => hK _ none hI (NFle.refl _) hwf hg)
            have hso := eraseSent_sentOnly w.c (w.cg.getD a1) (fun t => t.2 == a1 && t.1 == verb)
            have hle := nfle_sentOnly hso
            exact hK _ none (sentOnly_inv hso hI) hle (fun g' hgg => hle g' (hwf g' hgg)) hg
        | obf =>
          simp only [ite_andThen, crash_andThen]
          refine good_ite (fun h => crash_absurd (by simp [anyFreed_ol hI] at h)) (fun _ => ?_)
          simp only [andThen_assoc]
          refine step_good sc ih (by exact hI) ⟨hself, fun x hx => ?_⟩ (by exact hwf) (by exact hg) (NFle.refl _) ?_
          · have := (hI.lists.olMem x).mp hx
            exact live_nf hI this.1 this.2
          · intro w1 v hI1 hle1 hwf1 hg1 hv
            simp only [ite_andThen, leaf_andThen]
            exact good_ite (fun _ => hK _ none hI1 hle1 hwf1 hg1) (fun _ => hK _ none hI1 hle1 hwf1 hg1)
        | ct o =>
          simp only
          have g := ih (.ops self arg [o]) (emit { w with catching := w.catching + 1 } s!"ctb {oid self}")
            (by exact hI) (by exact hself) (by exact hwf) (by exact hg)
          have hI1 := exec_inv sc f (.ops self arg [o]) (emit { w with catching := w.catching + 1 } s!"ctb {oid self}") (by exact hI)
          split
          · simp only [leaf_andThen]
            exact hK _ none hI1 g.le g.wf g.ghost
          · simp only [leaf_andThen]
            exact hK _ none hI1 g.le (fun gg hgg => g.le _ (hwf gg hgg)) g.ghost
          · rename_i hne1 hne2
            unfold R.andThen
            split
            · rename_i hok; exact absurd hok (by intro h; exact hne1 h)
            · exact g
    | hook x k arg =>
      simp only [exec]
      have hx : NF w.c x := ht.1
      refine good_ite (fun h => crash_absurd (by rcases h with h | h; exact h hx.1; simp [hx.2] at h)) (fun _ => ?_)
      refine good_ite (fun _ => good_leaf (NFle.refl _) hg hwf) (fun hd => ?_)
      have hadj := ht.2
      cases k <;> cases arg <;>
        (refine step_good sc ih (by exact hI) (by exact hx) (by exact hwf) ?_ (NFle.refl _) ?_
         · first
           | exact hg
           | (simp only []; rw [hg, hadj _ rfl rfl]; rfl)
         · intro w2 v hI2 hle2 hwf2 hg2 hv
           exact good_leaf hle2 hg2 hwf2)
    | load b strict =>
      have hstrict : ∀ (c0 : Core) (w1 : World) (v : Option Nat), NFle c0 w1.c → w1.initBad = false → WorldWf w1 →
          (∀ x, v = some x → NF w1.c x) → Good c0 (match v with
            | none => ({ w := w1, val := none } : R)
            | some ob => if strict = true ∧ (w1.c.objs ob).destructed = true then { w := w1, val := none }
                         else { w := w1, val := some ob }) := by
        intro c0 w1 v hle hg1 hwf1 hv
        split
        · exact good_val hle hg1 hwf1 (by simp)
        · rename_i ob
          exact good_ite (fun _ => good_val hle hg1 hwf1 (by simp))
            (fun _ => good_val hle hg1 hwf1 (fun x hx => by cases hx; exact hv ob rfl))
      have hS : ∀ (c0 : Core) (w1 : World) (ob : Nat), NFle c0 w1.c → w1.initBad = false → WorldWf w1 → NF w1.c ob →
          Good c0 (if strict = true ∧ (w1.c.objs ob).destructed = true then ({ w := w1, val := none } : R)
                   else { w := w1, val := some ob }) := by
        intro c0 w1 ob hle hg1 hwf1 hv
        exact good_ite (fun _ => good_val hle hg1 hwf1 (by simp))
          (fun _ => good_val hle hg1 hwf1 (fun x hx => by cases hx; exact hv))
      cases b with
      | nofile =>
        simp only [exec]
        refine good_ite (fun h => crash_absurd (by simp [anyFreed_ot hI] at h)) (fun _ => ?_)
        have hl := lookupC_inv { base := .nofile, num := none } hI
        have hle1 := nfle_lookupC w.c { base := .nofile, num := none }
        have hwf1 : ∀ g, w.cg = some g → NF (lookupC w.c { base := .nofile, num := none }).1 g := fun g hgg => hle1 g (hwf g hgg)
        split
        · rename_i i hsome
          have := (lookupC_spec hI _ i).mp hsome
          exact good_val hle1 hg hwf1 (fun x hx => by cases hx; exact hle1 _ (live_nf hI this.1 this.2.1))
        · rename_i hnone
          have hsame := lookupC_none_core hnone
          have hfree := lookupC_none_free hI hnone
          have hA := nfle_alloc (cl := false) (nm := { base := .nofile, num := none }) hI hfree
          have halloc : Inv (alloc (lookupC w.c { base := .nofile, num := none }).1 { base := .nofile, num := none } false).1 := by
            rw [hsame]; exact alloc_inv hI hfree (by simp)
          rw [← hsame] at hA
          refine good_ite (fun _ => good_raise hle1 hg hwf1) (fun _ => ?_)
          simp only [leaf_andThen]
          exact good_val hle1 hg hwf1 (by simp)
      | badfile =>
        simp only [exec]
        refine good_ite (fun h => crash_absurd (by simp [anyFreed_ot hI] at h)) (fun _ => ?_)
        have hl := lookupC_inv { base := .badfile, num := none } hI
        have hle1 := nfle_lookupC w.c { base := .badfile, num := none }
        have hwf1 : ∀ g, w.cg = some g → NF (lookupC w.c { base := .badfile, num := none }).1 g := fun g hgg => hle1 g (hwf g hgg)
        split
        · rename_i i hsome
          have := (lookupC_spec hI _ i).mp hsome
          exact good_val hle1 hg hwf1 (fun x hx => by cases hx; exact hle1 _ (live_nf hI this.1 this.2.1))
        · rename_i hnone
          have hsame := lookupC_none_core hnone
          have hfree := lookupC_none_free hI hnone
          have hA := nfle_alloc (cl := false) (nm := { base := .badfile, num := none }) hI hfree
          have halloc : Inv (alloc (lookupC w.c { base := .badfile, num := none }).1 { base := .badfile, num := none } false).1 := by
            rw [hsame]; exact alloc_inv hI hfree (by simp)
          rw [← hsame] at hA
          refine good_ite (fun _ => good_raise hle1 hg hwf1) (fun _ => ?_)
          simp only [raise_andThen]
          exact good_raise hle1 hg hwf1
      | ih k =>
        simp only [exec]
        refine good_ite (fun h => crash_absurd (by simp [anyFreed_ot hI] at h)) (fun _ => ?_)
        have hl := lookupC_inv { base := .ih k, num := none } hI
        have hle1 := nfle_lookupC w.c { base := .ih k, num := none }
        have hwf1 : ∀ g, w.cg = some g → NF (lookupC w.c { base := .ih k, num := none }).1 g := fun g hgg => hle1 g (hwf g hgg)
        split
        · rename_i i hsome
          have := (lookupC_spec hI _ i).mp hsome
          exact good_val hle1 hg hwf1 (fun x hx => by cases hx; exact hle1 _ (live_nf hI this.1 this.2.1))
        · rename_i hnone
          have hsame := lookupC_none_core hnone
          have hfree := lookupC_none_free hI hnone
          have hA := nfle_alloc (cl := false) (nm := { base := .ih k, num := none }) hI hfree
          have halloc : Inv (alloc (lookupC w.c { base := .ih k, num := none }).1 { base := .ih k, num := none } false).1 := by
            rw [hsame]; exact alloc_inv hI hfree (by simp)
          rw [← hsame] at hA
          refine good_ite (fun _ => good_raise hle1 hg hwf1) (fun _ => ?_)
          have hlB := lookupC_inv { base := .bp k, num := none } hl
          have hleB := nfle_lookupC (lookupC w.c { base := .ih k, num := none }).1 { base := .bp k, num := none }
          have hnB := lookupC_n (lookupC w.c { base := .ih k, num := none }).1 { base := .bp k, num := none }
          have hn0 := lookupC_n w.c { base := .ih k, num := none }
          have hle2 := hle1.trans hleB
          have hwf2 : ∀ g, w.cg = some g → NF (lookupC (lookupC w.c { base := .ih k, num := none }).1 { base := .bp k, num := none }).1 g :=
            fun g hgg => hleB g (hwf1 g hgg)
          split
          · rename_i r hr
            split at hr
            · exfalso
              rename_i hfr
              simp [anyFreed_ot hl] at hfr
            · split at hr
              · cases hr
              · cases hr
                simp only [andThen_assoc]
                refine step_good sc ih (by exact hlB) trivial (by exact hwf2) (by exact hg) hle2 ?_
                intro w3 v3 hI3 hle3 hwf3 hg3 hv3
                split
                · simp only [raise_andThen]
                  exact good_raise (hle2.trans hle3) hg3 hwf3
                · simp only [andThen_assoc]
                  refine step_good sc ih hI3 trivial hwf3 hg3 (hle2.trans hle3) ?_
                  intro w4 v4 hI4 hle4 hwf4 hg4 hv4
                  simp only [leaf_andThen]
                  refine hstrict _ _ _ ?_ ?_ ?_ ?_
                  · exact (hle2.trans hle3).trans hle4
                  · exact hg4
                  · exact hwf4
                  · exact hv4
          · rename_i w' hr
            split at hr
            · cases hr
            · split at hr
              · cases hr
                have hfree' : ∀ i, i < (lookupC (lookupC w.c { base := .ih k, num := none }).1 { base := .bp k, num := none }).1.n →
                    ((lookupC (lookupC w.c { base := .ih k, num := none }).1 { base := .bp k, num := none }).1.objs i).destructed = false →
                    ((lookupC (lookupC w.c { base := .ih k, num := none }).1 { base := .bp k, num := none }).1.objs i).name ≠ { base := .ih k, num := none } := by
                  intro i hi hd
                  rw [hnB.1, hn0.1] at hi
                  rw [hnB.2, hn0.2] at hd ⊢
                  exact hfree i hi hd
                have hA2 := nfle_alloc (cl := false) (nm := { base := .ih k, num := none }) hlB hfree'
                have halloc2 := alloc_inv (cl := false) hlB hfree' (by simp)
                simp only [andThen_assoc]
                refine step_good sc ih (by exact halloc2) ⟨hA2.2, by intro y h; cases h⟩ (fun g hgg => hA2.1 g (hwf2 g hgg)) (by exact hg) (hle2.trans hA2.1) ?_
                intro w3 v3 hI3 hle3 hwf3 hg3 hv3
                simp only [leaf_andThen]
                refine good_ite (fun _ => good_val ((hle2.trans hA2.1).trans hle3) (by exact hg3) (fun g hgg => hle3 g (hA2.1 g (hwf2 g hgg))) (by simp))
                  (fun _ => good_val ((hle2.trans hA2.1).trans hle3) (by exact hg3) (fun g hgg => hle3 g (hA2.1 g (hwf2 g hgg))) (fun x hx => by cases hx; exact hle3 _ hA2.2))
              · cases hr
      | bp k =>
        simp only [exec]
        refine good_ite (fun h => crash_absurd (by simp [anyFreed_ot hI] at h)) (fun _ => ?_)
        have hl := lookupC_inv { base := .bp k, num := none } hI
        have hle1 := nfle_lookupC w.c { base := .bp k, num := none }
        have hwf1 : ∀ g, w.cg = some g → NF (lookupC w.c { base := .bp k, num := none }).1 g := fun g hgg => hle1 g (hwf g hgg)
        split
        · rename_i i hsome
          have := (lookupC_spec hI _ i).mp hsome
          exact good_val hle1 hg hwf1 (fun x hx => by cases hx; exact hle1 _ (live_nf hI this.1 this.2.1))
        · rename_i hnone
          have hsame := lookupC_none_core hnone
          have hfree := lookupC_none_free hI hnone
          have hA := nfle_alloc (cl := false) (nm := { base := .bp k, num := none }) hI hfree
          have halloc : Inv (alloc (lookupC w.c { base := .bp k, num := none }).1 { base := .bp k, num := none } false).1 := by
            rw [hsame]; exact alloc_inv hI hfree (by simp)
          rw [← hsame] at hA
          refine good_ite (fun _ => good_raise hle1 hg hwf1) (fun _ => ?_)
          simp only [andThen_assoc]
          refine step_good sc ih (by exact halloc) ⟨hA.2, by intro y h; cases h⟩ (fun g hgg => hA.1 g (hwf1 g hgg)) (by exact hg) (hle1.trans hA.1) ?_
          intro w2 v hI2 hle2 hwf2 hg2 hv
          simp only [leaf_andThen]
          refine good_ite (fun _ => good_val ((hle1.trans hA.1).trans hle2) (by exact hg2) (fun g hgg => hle2 g (hA.1 g (hwf1 g hgg))) (by simp))
            (fun _ => good_val ((hle1.trans hA.1).trans hle2) (by exact hg2) (fun g hgg => hle2 g (hA.1 g (hwf1 g hgg))) (fun x hx => by cases hx; exact hle2 _ hA.2))
      | master =>
        simp only [exec]
        refine good_ite (fun h => crash_absurd (by simp [anyFreed_ot hI] at h)) (fun _ => ?_)
        have hl := lookupC_inv { base := .master, num := none } hI
        have hle1 := nfle_lookupC w.c { base := .master, num := none }
        have hwf1 : ∀ g, w.cg = some g → NF (lookupC w.c { base := .master, num := none }).1 g := fun g hgg => hle1 g (hwf g hgg)
        split
        · rename_i i hsome
          have := (lookupC_spec hI _ i).mp hsome
          exact good_val hle1 hg hwf1 (fun x hx => by cases hx; exact hle1 _ (live_nf hI this.1 this.2.1))
        · rename_i hnone
          have hsame := lookupC_none_core hnone
          have hfree := lookupC_none_free hI hnone
          have hA := nfle_alloc (cl := false) (nm := { base := .master, num := none }) hI hfree
          have halloc : Inv (alloc (lookupC w.c { base := .master, num := none }).1 { base := .master, num := none } false).1 := by
            rw [hsame]; exact alloc_inv hI hfree (by simp)
          rw [← hsame] at hA
          refine good_ite (fun _ => good_raise hle1 hg hwf1) (fun _ => ?_)
          simp only [andThen_assoc]
          refine step_good sc ih (by exact halloc) ⟨hA.2, by intro y h; cases h⟩ (fun g hgg => hA.1 g (hwf1 g hgg)) (by exact hg) (hle1.trans hA.1) ?_
          intro w2 v hI2 hle2 hwf2 hg2 hv
          simp only [leaf_andThen]
          refine good_ite (fun _ => good_val ((hle1.trans hA.1).trans hle2) (by exact hg2) (fun g hgg => hle2 g (hA.1 g (hwf1 g hgg))) (by simp))
            (fun _ => good_val ((hle1.trans hA.1).trans hle2) (by exact hg2) (fun g hgg => hle2 g (hA.1 g (hwf1 g hgg))) (fun x hx => by cases hx; exact hle2 _ hA.2))
      | simul =>
        simp only [exec]
        refine good_ite (fun h => crash_absurd (by simp [anyFreed_ot hI] at h)) (fun _ => ?_)
        have hl := lookupC_inv { base := .simul, num := none } hI
        have hle1 := nfle_lookupC w.c { base := .simul, num := none }
        have hwf1 : ∀ g, w.cg = some g → NF (lookupC w.c { base := .simul, num := none }).1 g := fun g hgg => hle1 g (hwf g hgg)
        split
        · rename_i i hsome
          have := (lookupC_spec hI _ i).mp hsome
          exact good_val hle1 hg hwf1 (fun x hx => by cases hx; exact hle1 _ (live_nf hI this.1 this.2.1))
        · rename_i hnone
          have hsame := lookupC_none_core hnone
          have hfree := lookupC_none_free hI hnone
          have hA := nfle_alloc (cl := false) (nm := { base := .simul, num := none }) hI hfree
          have halloc : Inv (alloc (lookupC w.c { base := .simul, num := none }).1 { base := .simul, num := none } false).1 := by
            rw [hsame]; exact alloc_inv hI hfree (by simp)
          rw [← hsame] at hA
          refine good_ite (fun _ => good_raise hle1 hg hwf1) (fun _ => ?_)
          simp only [andThen_assoc]
          refine step_good sc ih (by exact halloc) ⟨hA.2, by intro y h; cases h⟩ (fun g hgg => hA.1 g (hwf1 g hgg)) (by exact hg) (hle1.trans hA.1) ?_
          intro w2 v hI2 hle2 hwf2 hg2 hv
          simp only [leaf_andThen]
          refine good_ite (fun _ => good_val ((hle1.trans hA.1).trans hle2) (by exact hg2) (fun g hgg => hle2 g (hA.1 g (hwf1 g hgg))) (by simp))
            (fun _ => good_val ((hle1.trans hA.1).trans hle2) (by exact hg2) (fun g hgg => hle2 g (hA.1 g (hwf1 g hgg))) (fun x hx => by cases hx; exact hle2 _ hA.2))
    | clone b =>
      simp only [exec, hbRemove_c, hbRemove_cg, hbRemove_initBad]
      refine step_good sc ih hI trivial hwf hg (NFle.refl _) ?_
      intro w1 v hI1 hle1 hwf1 hg1 hv
      split
      · exact good_val hle1 hg1 hwf1 (by simp)
      · rename_i ob
        have hob := hv ob rfl
        refine good_ite (fun h => crash_absurd (by rcases h with h | h; exact h hob.1; simp [hob.2] at h)) (fun _ => ?_)
        refine good_ite (fun _ => good_raise hle1 hg1 hwf1) (fun _ => ?_)
        have hI1' := ctr_inv hI1
        have hfree : ∀ i, i < w1.c.n → (w1.c.objs i).destructed = false →
            (w1.c.objs i).name ≠ { base := (w1.c.objs ob).name.base, num := some w1.c.ctr } := by
          intro i hi hd hn
          have := hI1.names.fresh i w1.c.ctr hi (by simp [nameF]; rw [hn])
          omega
        have hA := nfle_alloc (cl := true) hI1' hfree
        have hA1 : NFle w1.c (alloc { w1.c with ctr := w1.c.ctr + 1 } { base := (w1.c.objs ob).name.base, num := some w1.c.ctr } true).1 :=
          (nfle_ctr w1.c).trans hA.1
        have halloc := alloc_inv (cl := true) hI1' hfree (by intro k hk; simp at hk; subst hk; simp)
        refine step_good sc ih halloc ⟨hA.2, by intro y h; cases h⟩ (fun g hgg => hA1 g (hwf1 g hgg)) hg1 (hle1.trans hA1) ?_
        intro w2 v2 hI2 hle2 hwf2 hg2 hv2
        have hcg : WorldWf { w2 with cg := w.cg } := fun g hgg => hle2 g (hA1 g (hle1 g (hwf g hgg)))
        split
        · exact good_val ((hle1.trans hA1).trans hle2) hg2 hcg (by simp)
        · exact good_val ((hle1.trans hA1).trans hle2) hg2 hcg (fun x hx => by cases hx; exact hle2 _ hA.2)
    | move item dest =>
      simp only [exec]
      obtain ⟨hit, hdt⟩ := ht
      refine good_ite (fun h => crash_absurd (by
        rcases h with h | h
        · exact h ⟨hit.1, hdt.1⟩
        · simp [hit.2] at h)) (fun _ => ?_)
      refine good_ite (fun _ => good_raise (NFle.refl _) hg hwf) (fun hid => ?_)
      split
      · rename_i hw; exact absurd hw (superWalk_not_freed hI item _ dest hdt)
      · rename_i hw; exact absurd hw (superWalk_not_loop hI item dest hdt.1)
      · exact good_raise (NFle.refl _) hg hwf
      · rename_i hclear
        have hchk := superWalk_clear _ _ hclear
        have hne : dest ≠ item := fun e => hchk (Or.inl e)
        refine good_ite (fun _ => good_raise (NFle.refl _) hg hwf) (fun hdd => ?_)
        refine good_ite (fun h => crash_absurd ?_) (fun _ => ?_)
        · cases hs : (w.c.objs item).super with
          | none => simp [hs, anyFreed] at h
          | some s0 => rw [hs] at h; simp only [] at h; rw [anyFreed_env_cons hI hs] at h; simp at h
        · have hso := unsentMove_sentOnly w.c item
          have hpr := sentOnly_proj hso
          have hu : Inv (unsentMove w.c item) := sentOnly_inv hso hI
          have hrel : Inv (relink (unsentMove w.c item) item dest) := by
            refine relink_inv hu (by rw [hpr.1]; exact hit.1) ?_ (by rw [hpr.1]; exact hdt.1) ?_ ?_
            · rw [(sentOnly_obj hso item).1]; simpa using hid
            · rw [(sentOnly_obj hso dest).1]; simpa using hdd
            · rw [hpr.2.2.2.2.2.2.2.1]; exact hchk
          have hle0 : NFle w.c (relink (unsentMove w.c item) item dest) :=
            (nfle_sentOnly hso).trans (nfle_relink _ item dest)
          have hsup0 : ((relink (unsentMove w.c item) item dest).objs item).super = some dest := by
            have := congrFun (relink_sup (unsentMove w.c item) item dest hne) item
            simpa [supF, redirect] using this
          have hfan : ∀ (w1 : World), Inv w1.c → NFle w.c w1.c → WorldWf w1 → w1.initBad = false →
              (w1.c.objs item).super = some dest →
              Good w.c (exec sc f (.fan item dest (w1.c.objs dest).contains.head? w.cg) w1) := by
            intro w1 hI1 hle1 hwf1 hg1 hs1
            refine (ih (.fan item dest (w1.c.objs dest).contains.head? w.cg) w1 hI1 ⟨hle1 _ hit, hle1 _ hdt, ?_, hs1, ?_⟩ hwf1 hg1).mono hle1
            · intro ob hob
              have hm : ob ∈ (w1.c.objs dest).contains := List.mem_of_mem_head? hob
              have := cont_live hI1 hm
              exact live_nf hI1 this.1 this.2
            · intro g hgg; exact hle1 _ (hwf g hgg)
          refine opt_good sc ih (fun _ => ⟨hrel, ⟨hle0 _ hdt, ?_⟩, ?_, hg, hle0⟩) ?_ ?_
          · intro y h1 h2; cases h2
            simp [adjacent, hsup0]
          · intro g hgg; cases hgg; exact hle0 _ hit
          · intro hec w1 v hI1 hle1 hwf1 hg1 hv
            refine good_ite (fun _ => good_leaf (hle0.trans hle1) hg1 (fun g hgg => hle1 _ (hle0 _ (hwf g hgg)))) (fun hn => ?_)
            have hs1 : (w1.c.objs item).super = some dest := by
              apply Classical.byContradiction; intro hc
              exact hn ⟨hec, Or.inr hc⟩
            exact hfan w1 hI1 (hle0.trans hle1) hwf1 hg1 hs1
          · intro hec
            refine good_ite (fun h => absurd h.1 hec) (fun _ => ?_)
            exact hfan _ hrel hle0 (fun g hgg => hle0 _ (hwf g hgg)) hg hsup0
    | moveStr item b =>
      simp only [exec]
      have hit : NF w.c item := ht
      refine step_good sc ih hI trivial hwf hg (NFle.refl _) ?_
      intro w1 v hI1 hle1 hwf1 hg1 hv
      split
      · exact good_raise hle1 hg1 hwf1
      · rename_i d
        exact (ih (.move item d) w1 hI1 ⟨hle1 _ hit, hv d rfl⟩ hwf1 hg1).mono hle1
    | fan item dest cur saveCg =>
      simp only [exec]
      obtain ⟨hit, hdt, hcur, hsup, hsave⟩ := ht
      have hadj_id : adjacent w.c item dest = true := by simp [adjacent, hsup]
      split
      · refine good_ite (fun _ => good_raise (NFle.refl _) hg hwf) (fun _ => ?_)
        refine opt_good sc ih (fun _ => ⟨hI, ⟨hit, ?_⟩, ?_, hg, NFle.refl _⟩) ?_ ?_
        · intro y h1 h2; cases h2; exact hadj_id
        · intro g hgg; cases hgg; exact hdt
        · intro _ w1 v hI1 hle1 hwf1 hg1 hv
          exact good_leaf hle1 hg1 (fun g hgg => hle1 _ (hsave g hgg))
        · intro _
          exact good_leaf (NFle.refl _) hg (fun g hgg => hsave g hgg)
      · rename_i ob
        have hob := hcur ob rfl
        refine good_ite (fun h => crash_absurd (by rcases h with h | h; exact h hob.1; simp [hob.2] at h)) (fun _ => ?_)
        have hnext : ∀ nx, nextInv w.c ob = some nx → NF w.c nx := by
          intro nx h; have := nextInv_live hI h; exact live_nf hI this.1 this.2
        -- the recursive call on the rest of the inventory, from any later state in which item is still in dest
        have hrec : ∀ (w1 : World), Inv w1.c → NFle w.c w1.c → WorldWf w1 → w1.initBad = false →
            (w1.c.objs item).super = some dest →
            Good w.c (exec sc f (.fan item dest (nextInv w.c ob) saveCg) w1) := by
          intro w1 hI1 hle1 hwf1 hg1 hs1
          exact (ih (.fan item dest (nextInv w.c ob) saveCg) w1 hI1
            ⟨hle1 _ hit, hle1 _ hdt, fun nx h => hle1 _ (hnext nx h), hs1, fun g hgg => hle1 _ (hsave g hgg)⟩ hwf1 hg1).mono hle1
        refine good_ite (fun _ => hrec w hI (NFle.refl _) hwf hg hsup) (fun hne => ?_)
        refine good_ite (fun _ => good_raise (NFle.refl _) hg hwf) (fun hobd => ?_)
        refine good_ite (fun _ => ih (.fan item dest none saveCg) w hI ⟨hit, hdt, (by intro _ h; cases h), hsup, hsave⟩ hwf hg) (fun hobs => ?_)
        have hobs' : (w.c.objs ob).super = some dest := by
          apply Classical.byContradiction; intro hc; exact hobs hc
        -- after the first call
        have hk1 : ∀ (w1 : World), Inv w1.c → NFle w.c w1.c → WorldWf w1 → w1.initBad = false →
            (¬ ((w.c.objs ob).ec = true ∧ (w1.c.objs item).super ≠ some dest) → (w1.c.objs item).super = some dest) →
            Good w.c (if (w.c.objs ob).ec = true ∧ (w1.c.objs item).super ≠ some dest then
                ({ w := { w1 with cg := saveCg } } : R)
              else if (w1.c.objs item).destructed = true then raise w1 errItemDested
              else if (w1.c.objs ob).super ≠ some dest then exec sc f (.fan item dest (nextInv w.c ob) saveCg) w1
              else
                (if (w1.c.objs item).ec = true then exec sc f (.hook ob .init (some item)) { w1 with cg := some item }
                  else { w := w1 }).andThen fun w2 _ =>
                  if (w1.c.objs item).ec = true ∧ (w2.c.objs item).super ≠ some dest then { w := { w2 with cg := saveCg } }
                  else exec sc f (.fan item dest (nextInv w.c ob) saveCg) w2) := by
          intro w1 hI1 hle1 hwf1 hg1 hs1f
          refine good_ite (fun _ => good_leaf hle1 hg1 (fun g hgg => hle1 _ (hsave g hgg))) (fun hn => ?_)
          have hs1 := hs1f hn
          refine good_ite (fun _ => good_raise hle1 hg1 hwf1) (fun _ => ?_)
          refine good_ite (fun _ => hrec w1 hI1 hle1 hwf1 hg1 hs1) (fun hob1 => ?_)
          have hob1' : (w1.c.objs ob).super = some dest := by
            apply Classical.byContradiction; intro hc; exact hob1 hc
          refine opt_good sc ih (fun _ => ⟨hI1, ⟨hle1 _ hob, ?_⟩, ?_, hg1, hle1⟩) ?_ ?_
          · intro y h1 h2; cases h2
            simp [adjacent, hs1, hob1']
          · intro g hgg; cases hgg; exact hle1 _ hit
          · intro hec w2 v hI2 hle2 hwf2 hg2 hv
            refine good_ite (fun _ => good_leaf (hle1.trans hle2) hg2 (fun g hgg => hle2 _ (hle1 _ (hsave g hgg)))) (fun hn2 => ?_)
            have hs2 : (w2.c.objs item).super = some dest := by
              apply Classical.byContradiction; intro hc; exact hn2 ⟨hec, hc⟩
            exact hrec w2 hI2 (hle1.trans hle2) hwf2 hg2 hs2
          · intro hec
            refine good_ite (fun h => absurd h.1 hec) (fun _ => ?_)
            exact hrec w1 hI1 hle1 hwf1 hg1 hs1
        refine opt_good sc ih (fun _ => ⟨hI, ⟨hit, ?_⟩, ?_, hg, NFle.refl _⟩) ?_ ?_
        · intro y h1 h2; cases h2
          simp [adjacent, hsup, hobs']
        · intro g hgg; cases hgg; exact hob
        · intro hec w1 v hI1 hle1 hwf1 hg1 hv
          refine hk1 w1 hI1 hle1 hwf1 hg1 ?_
          intro hn
          apply Classical.byContradiction; intro hc; exact hn ⟨hec, hc⟩
        · intro hec
          exact hk1 w hI (NFle.refl _) hwf hg (fun _ => hsup)
    | present env tgt cur =>
      simp only [exec]
      split
      · exact good_val (NFle.refl _) hg hwf (by simp)
      · rename_i ob
        have hob : NF w.c ob := ht ob rfl
        refine good_ite (fun h => crash_absurd (by rcases h with h | h; exact h hob.1; simp [hob.2] at h)) (fun _ => ?_)
        refine step_good sc ih hI ⟨hob, by intro y h; cases h⟩ hwf hg (NFle.refl _) ?_
        intro w1 v hI1 hle1 hwf1 hg1 hv
        refine good_ite (fun _ => good_val hle1 hg1 hwf1 (by simp)) (fun _ => ?_)
        refine good_ite (fun _ => good_val hle1 hg1 hwf1 (by simp)) (fun _ => ?_)
        refine good_ite (fun _ => good_val hle1 hg1 hwf1 (fun x hx => by cases hx; exact hle1 _ hob)) (fun _ => ?_)
        refine (ih (.present env tgt (nextInv w1.c ob)) w1 hI1 ?_ hwf1 hg1).mono hle1
        intro nx hnx
        have := nextInv_live hI1 hnx
        exact live_nf hI1 this.1 this.2
    | command a verb =>
      simp only [exec]
      have ha : NF w.c a := ht
      refine good_ite (fun h => crash_absurd (by rcases h with h | h; exact h ha.1; simp [ha.2] at h)) (fun _ => ?_)
      refine good_ite (fun _ => good_val (NFle.refl _) hg hwf (by simp)) (fun hd => ?_)
      refine good_ite (fun _ => good_val (NFle.refl _) hg hwf (by simp)) (fun _ => ?_)
      refine step_good sc ih (by exact hI) (by exact ha) ?_ (by exact hg) (NFle.refl _) ?_
      · intro g hgg; cases hgg; exact ha
      · intro w2 v hI2 hle2 hwf2 hg2 hv
        exact good_val hle2 hg2 (fun g hgg => hle2 g (hwf g hgg)) hv
    | cmdloop a verb rest saveIsa =>
      simp only [exec]
      have ha : NF w.c a := ht
      split
      · exact good_val (NFle.refl _) hg hwf (by simp)
      · rename_i t rest'
        refine good_ite (fun _ => ih (.cmdloop a verb rest' saveIsa) w hI ha hwf hg) (fun hc => ?_)
        have hp : t.2 < w.c.n ∧ (w.c.objs t.2).destructed = false := by
          have h3 : (decide (t.2 < w.c.n) && !(w.c.objs t.2).destructed && t.1 == verb) = true := by
            apply Classical.byContradiction; intro h; exact hc h
          simp at h3; exact ⟨h3.1.1, h3.1.2⟩
        refine step_good sc ih hI ⟨live_nf hI hp.1 hp.2, by intro y h; cases h⟩ hwf hg (NFle.refl _) ?_
        intro w1 v hI1 hle1 hwf1 hg1 hv
        have hwfa : ∀ g, some a = some g → NF w1.c g := fun g hgg => by cases hgg; exact hle1 _ ha
        refine good_ite (fun _ => good_val hle1 hg1 hwfa ?_) (fun _ => ?_)
        · intro x hx
          split at hx
          · cases hx; exact hle1 _ ha
          · cases hx
        refine good_ite (fun _ => good_val hle1 hg1 hwfa (fun x hx => by cases hx; exact hle1 _ ha)) (fun _ => ?_)
        refine good_ite (fun _ => good_raise hle1 hg1 hwfa) (fun _ => ?_)
        refine good_ite (fun _ => good_raise hle1 hg1 hwfa) (fun _ => ?_)
        exact (ih (.cmdloop a verb rest' saveIsa) { w1 with cg := some a } (by exact hI1) (by exact hle1 _ ha) hwfa (by exact hg1)).mono hle1
    | destruct ob =>
      simp only [exec]
      have hob : NF w.c ob := ht
      refine good_ite (fun _ => good_raise (NFle.refl _) hg hwf) (fun _ => ?_)
      refine good_ite (fun h => crash_absurd (by rcases h with h | h; exact h hob.1; simp [hob.2] at h)) (fun _ => ?_)
      refine good_ite (fun _ => good_leaf (NFle.refl _) hg hwf) (fun hd => ?_)
      refine ih _ _ hI ⟨hob, by simpa using hd, ?_⟩ hwf hg
      intro s hs
      have := super_live hI hs
      exact live_nf hI this.1 this.2
    | dloop ob sup0 saveR =>
      simp only [exec, hbRemove_c, hbRemove_cg, hbRemove_initBad]
      obtain ⟨hob, hdl, hsup⟩ := ht
      split
      · rename_i hempty
        refine good_ite (fun h => crash_absurd (h ⟨hob.1, hdl⟩)) (fun _ => ?_)
        refine good_ite (fun h => crash_absurd ?_) (fun _ => ?_)
        · rcases h with h | h | h | h
          · cases hs : (w.c.objs ob).super with
            | none => simp [hs, anyFreed] at h
            | some s0 => rw [hs] at h; simp only [] at h; rw [anyFreed_env_cons hI hs] at h; simp at h
          · simp [anyFreed_ot hI] at h
          · simp [anyFreed_ol hI] at h
          · cases hl : (w.c.objs ob).living <;> simp [hl, anyFreed, anyFreed_lv hI] at h
            have := anyFreed_lv hI (lhash ‹String›)
            simp [anyFreed] at this
            obtain ⟨x, hx1, hx2⟩ := h
            simp [this x hx1] at hx2
        · have hso := unsentDestruct_sentOnly w.c ob
          have hpr := sentOnly_proj hso
          have hu : Inv (unsentDestruct w.c ob) := sentOnly_inv hso hI
          have hobj := sentOnly_obj hso ob
          have hle : NFle w.c (finishDestruct (unsentDestruct w.c ob) ob) :=
            (nfle_sentOnly hso).trans (nfle_finishDestruct hu (by rw [hpr.1]; exact hob.1) (by rw [hobj.1]; exact hdl))
          exact good_leaf hle hg (fun g hgg => hle g (hwf g hgg))
      · rename_i otmp rest hcont
        have hot := cont_live hI (x := otmp) (y := ob) (by rw [hcont]; simp)
        have hotnf := live_nf hI hot.1 hot.2
        refine good_ite (fun h => crash_absurd (by rcases h with h | h; exact h hotnf.1; simp [hotnf.2] at h)) (fun _ => ?_)
        refine good_ite (fun h => crash_absurd ?_) (fun _ => ?_)
        · cases sup0 with
          | none => simp at h
          | some s =>
            have := hsup s rfl
            have h1 := this.1
            simp [this.2] at h
            omega
        · refine step_good sc ih (by exact hI) ⟨hotnf, by intro y h; cases h⟩ (by exact hwf) (by exact hg) (NFle.refl _) ?_
          intro w1 v hI1 hle1 hwf1 hg1 hv
          refine good_ite (fun _ => good_leaf hle1 hg1 hwf1) (fun hd1 => ?_)
          refine opt_good sc ih (fun _ => ⟨hI1, hle1 _ hotnf, hwf1, hg1, hle1⟩) ?_ ?_
          · intro _ w2 v2 hI2 hle2 hwf2 hg2 hv2
            refine good_ite (fun _ => good_leaf (hle1.trans hle2) hg2 hwf2) (fun hd2 => ?_)
            refine (ih (.dloop ob sup0 saveR) _ hI2 ⟨hle2 _ (hle1 _ hob), by simpa using hd2, fun s hs => hle2 _ (hle1 _ (hsup s hs))⟩ hwf2 hg2).mono (hle1.trans hle2)
          · intro _
            refine good_ite (fun _ => good_leaf hle1 hg1 hwf1) (fun hd2 => ?_)
            refine (ih (.dloop ob sup0 saveR) { w1 with restrict := saveR } (by exact hI1) ⟨hle1 _ hob, by simpa using hd2, fun s hs => hle1 _ (hsup s hs)⟩ (by exact hwf1) (by exact hg1)).mono hle1
    | objloop self rest acc =>
      simp only [exec]
      obtain ⟨hself, hrest⟩ := ht
      split
      · exact good_val (NFle.refl _) hg hwf (fun x hx => by cases hx; exact hself)
      · rename_i ob rest'
        have hob : NF w.c ob := hrest ob (by simp)
        have hrest' : ∀ x ∈ rest', NF w.c x := fun x hx => hrest x (by simp [hx])
        refine good_ite (fun h => crash_absurd (by rcases h with h | h; exact h hob.1; simp [hob.2] at h)) (fun _ => ?_)
        refine good_ite (fun _ => ih (.objloop self rest' acc) w hI ⟨hself, hrest'⟩ hwf hg) (fun _ => ?_)
        refine good_ite (fun h => crash_absurd (by rcases h with h | h; exact h hself.1; simp [hself.2] at h)) (fun _ => ?_)
        refine good_ite (fun _ => good_raise (NFle.refl _) hg hwf) (fun _ => ?_)
        refine step_good sc ih hI ⟨hself, by intro y h; cases h⟩ hwf hg (NFle.refl _) ?_
        intro w1 v hI1 hle1 hwf1 hg1 hv
        exact (ih (.objloop self rest' (ob :: acc)) w1 hI1 ⟨hle1 _ hself, fun x hx => hle1 _ (hrest' x hx)⟩ hwf1 hg1).mono hle1

/-- whatever is closed under the three state changes of the LPC probe survives it -/
theorem probe_pres (Q : World → Prop) (hemit : ∀ w s, Q w → Q (emit w s))
    (hlk : ∀ (w : World) nm, Q w → Q { w with c := (lookupC w.c nm).1 })
    (hfl : ∀ (w : World) s, Q w → Q { w with c := (findLivingC w.c s).1 }) {w : World} (hw : Q w) : Q (probe w) := by
  unfold probe
  apply hemit; apply hemit; apply hemit
  generalize (List.range w.c.n).drop 2 = ids
  suffices h : ∀ (ids : List Nat) (w : World), Q w → Q (ids.foldl (fun w i =>
      let o := w.c.objs i
      let r := lookupC w.c o.name
      let w := { w with c := r.1 }
      let found := s!"{ooid (r.2.bind (readRef w.c))}/{if r.2.isSome then 1 else 0}"
      if o.destructed then emit w s!"P {oid i} ref=0 find={found}"
      else
        let fl := match o.living with
          | none => (w, "-")
          | some s =>
            let r := findLivingC w.c s
            ({ w with c := r.1 }, ooid (r.2.bind (readRef r.1)))
        let w := fl.1
        let o := w.c.objs i
        emit w s!"P {oid i} ref={oid i} find={found} env={ooid (o.super.bind (readRef w.c))} inv={joinIds (o.contains.filterMap (readRef w.c))} walk={joinIds (invWalk w.c (w.c.n + 1) o.contains.head?)} fl={fl.2}") w) from h ids w hw
  intro ids
  induction ids with
  | nil => intro w hw; exact hw
  | cons i rest ih =>
    intro w hw
    simp only [List.foldl_cons]
    apply ih
    have h1 := hlk w (w.c.objs i).name hw
    split
    · exact hemit _ _ h1
    · apply hemit
      split
      · exact h1
      · exact hfl _ _ h1

/-- the state between two top-level commands -/
structure WorldOk (w : World) : Prop where
  inv : Inv w.c
  wf : WorldWf w
  ghost : w.initBad = false

theorem init_ok : WorldOk World.init :=
  { inv := init_inv, wf := fun g h => by simp [World.init] at h, ghost := rfl }

/-- outcome of a top-level command -/
def topOut (sc : Scripts) (w : World) : Cmd → Out
  | .top op => if ¬ (1 < w.c.n ∧ (w.c.objs 1).destructed = false) then .ok else (exec sc topFuel (.ops 1 none [op]) w).out
  | .tick => if w.hbl.length = 0 then .ok
             else (hbRound sc (w.hbl.length + 1000) { w with hbTodo := w.hbl.length, hbIdx := 0 }).out
  | _ => .ok

theorem hbRound_good (sc : Scripts) : ∀ (fuel : Nat) (w : World), Inv w.c → WorldWf w → w.initBad = false →
    Good w.c (hbRound sc fuel w) := by
  intro fuel
  induction fuel with
  | zero => intro w hI hwf hg; exact good_leaf (NFle.refl _) hg hwf
  | succ fuel ih =>
    intro w hI hwf hg
    simp only [hbRound]
    split
    · exact good_leaf (NFle.refl _) hg hwf
    · rename_i ob _
      refine good_ite (fun _ => good_leaf (NFle.refl _) hg hwf) (fun hv => ?_)
      have hv' : ob < w.c.n ∧ (w.c.objs ob).freed = false ∧ (w.c.objs ob).destructed = false := by
        apply Classical.byContradiction; intro hc; exact hv hc
      refine step_good sc (exec_good sc topFuel) (by exact hI) ⟨⟨hv'.1, hv'.2.1⟩, by intro y h; cases h⟩ ?_ (by exact hg)
        (NFle.refl _) ?_
      · intro g hgg
        have : (if (w.c.objs ob).ec = true then some ob else none) = some g := hgg
        split at this
        · cases this; exact ⟨hv'.1, hv'.2.1⟩
        · cases this
      · intro w1 v hI1 hle1 hwf1 hg1 hv1
        have hwf1' : WorldWf { w1 with cg := none, hbIdx := w1.hbIdx + 1 } := fun g hgg => by cases hgg
        refine good_ite (fun _ => good_leaf hle1 hg1 hwf1') (fun _ => ?_)
        exact (ih _ (by exact hI1) hwf1' (by exact hg1)).mono hle1

theorem stepCmd_ok (sc : Scripts) {w : World} (cmd : Cmd) (hw : WorldOk w) :
    WorldOk (stepCmd sc w cmd) ∧ topOut sc w cmd ≠ .crash ∧ topOut sc w cmd ≠ .hang := by
  cases cmd with
  | top op =>
    simp only [stepCmd, topOut]
    split
    · exact ⟨⟨hw.inv, hw.wf, hw.ghost⟩, by simp⟩
    · rename_i hm
      have hm' : 1 < w.c.n ∧ (w.c.objs 1).destructed = false := by
        apply Classical.byContradiction; intro hc; exact hm hc
      have g := exec_good sc topFuel (.ops 1 none [op]) w hw.inv (live_nf hw.inv hm'.1 hm'.2) hw.wf hw.ghost
      have hI := exec_inv sc topFuel (.ops 1 none [op]) w hw.inv
      refine ⟨?_, g.nocrash, g.nohang⟩
      split
      · exact ⟨hI, g.wf, g.ghost⟩
      · exact ⟨hI, fun gg hgg => g.le _ (hw.wf gg hgg), g.ghost⟩
      · exact ⟨hI, g.wf, g.ghost⟩
  | tick =>
    have g0 := hbRound_good sc (w.hbl.length + 1000) { w with hbTodo := w.hbl.length, hbIdx := 0 } hw.inv hw.wf hw.ghost
    refine ⟨?_, by simp only [topOut]; split; simp; exact g0.nocrash, by simp only [topOut]; split; simp; exact g0.nohang⟩
    simp only [stepCmd, tick]
    split
    · exact ⟨hw.inv, hw.wf, hw.ghost⟩
    · have g := hbRound_good sc (w.hbl.length + 1000) { w with hbTodo := w.hbl.length, hbIdx := 0 } hw.inv hw.wf hw.ghost
      have hI := hbRound_inv sc (w.hbl.length + 1000) { w with hbTodo := w.hbl.length, hbIdx := 0 } hw.inv
      split
      · exact ⟨hI, g.wf, g.ghost⟩
      · exact ⟨hI, fun gg hgg => g.le _ (hw.wf gg hgg), g.ghost⟩
      · exact ⟨hI, g.wf, g.ghost⟩
  | snap => exact ⟨⟨hw.inv, hw.wf, hw.ghost⟩, by simp [topOut]⟩
  | probe =>
    refine ⟨?_, by simp [topOut]⟩
    have := probe_pres (fun w' => Inv w'.c ∧ NFle w.c w'.c ∧ w'.cg = w.cg ∧ w'.initBad = w.initBad)
      (fun w' s h => h)
      (fun w' nm h => ⟨lookupC_inv nm h.1, h.2.1.trans (nfle_lookupC _ nm), h.2.2.1, h.2.2.2⟩)
      (fun w' s h => ⟨findLivingC_inv s h.1, h.2.1.trans (nfle_findLivingC _ s), h.2.2.1, h.2.2.2⟩)
      (w := w) ⟨hw.inv, NFle.refl _, rfl, rfl⟩
    exact ⟨this.1, fun g hg => this.2.1 _ (hw.wf g (by rw [← this.2.2.1]; exact hg)), by show (probe w).initBad = false; rw [this.2.2.2]; exact hw.ghost⟩
  | gc =>
    exact ⟨⟨gc_inv hw.inv, fun g h => by simp [stepCmd] at h, hw.ghost⟩, by simp [topOut]⟩

theorem runCmds_ok (sc : Scripts) (cmds : List Cmd) : ∀ (w : World), WorldOk w → WorldOk (runCmds sc w cmds) := by
  induction cmds with
  | nil => intro w hw; exact hw
  | cons cmd rest ih => intro w hw; exact ih _ (stepCmd_ok sc cmd hw).1

end NV.C08
