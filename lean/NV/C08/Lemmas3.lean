/-
C08 helper lemmas, part 3: enable_commands, the clone counter, remove_destructed_objects, living names.
-/
import NV.C08.Lemmas2

namespace NV.C08

set_option linter.unusedSimpArgs false

theorem setObj_fields (c : Core) (i : Nat) (o : Obj) :
    (setObj c i o).n = c.n ∧ (setObj c i o).ot = c.ot ∧ (setObj c i o).ol = c.ol ∧ (setObj c i o).dl = c.dl ∧
    (setObj c i o).lv = c.lv ∧ (setObj c i o).ctr = c.ctr := by simp [setObj]

/-- enable_commands / disable_commands on a live object -/
theorem setEc_inv {c : Core} {a : Nat} (b : Bool) (hI : Inv c) (hd : (c.objs a).destructed = false) :
    Inv (setObj c a { c.objs a with ec := b }) := by
  obtain ⟨f1, f2, f3, f4, f5, f6⟩ := setObj_fields c a { c.objs a with ec := b }
  have e1 : deadF (setObj c a { c.objs a with ec := b }) = deadF c := by
    funext j; simp only [deadF, setObj]; by_cases h : j = a <;> simp [h]
  have e2 : supF (setObj c a { c.objs a with ec := b }) = supF c := by
    funext j; simp only [supF, setObj]; by_cases h : j = a <;> simp [h]
  have e3 : contF (setObj c a { c.objs a with ec := b }) = contF c := by
    funext j; simp only [contF, setObj]; by_cases h : j = a <;> simp [h]
  have e4 : nameF (setObj c a { c.objs a with ec := b }) = nameF c := by
    funext j; simp only [nameF, setObj]; by_cases h : j = a <;> simp [h]
  have e5 : freedF (setObj c a { c.objs a with ec := b }) = freedF c := by
    funext j; simp only [freedF, setObj]; by_cases h : j = a <;> simp [h]
  have e6 : lnF (setObj c a { c.objs a with ec := b }) = lnF c := by
    funext j; simp only [lnF, setObj]; by_cases h : j = a <;> simp [h]
  constructor
  · rw [f1, e1, e2, e3]; exact hI.links
  · rw [f1, e1, e4, f2, f6]; exact hI.names
  · rw [f1, e1, e5, f3, f4]; exact hI.lists
  · rw [f1, e1, e6, f5]
    exact { mem := hI.living.mem, nodup := hI.living.nodup, blankV := hI.living.blankV,
            deadV := fun i hi => by
              have := hI.living.deadV i hi
              have hia : i ≠ a := fun e => by subst e; simp [deadF, hd] at hi
              simp only [ecF, setObj, hia, if_false]
              exact this }

/-- make_new_name's counter -/
theorem ctr_inv {c : Core} (hI : Inv c) : Inv { c with ctr := c.ctr + 1 } :=
  { links := hI.links, lists := hI.lists, living := hI.living,
    names := { mem := hI.names.mem, nodup := hI.names.nodup, uniq := hI.names.uniq,
               fresh := fun i k hi hk => Nat.lt_succ_of_lt (hI.names.fresh i k hi hk) } }

/-- remove_destructed_objects -/
theorem gc_inv {c : Core} (hI : Inv c) : Inv (gc c) := by
  have e1 : deadF (gc c) = deadF c := by
    funext j; simp only [deadF, gc]; by_cases h : j ∈ c.dl <;> simp [h]
  have e2 : supF (gc c) = supF c := by
    funext j; simp only [supF, gc]; by_cases h : j ∈ c.dl <;> simp [h]
  have e3 : contF (gc c) = contF c := by
    funext j; simp only [contF, gc]; by_cases h : j ∈ c.dl <;> simp [h]
  have e4 : nameF (gc c) = nameF c := by
    funext j; simp only [nameF, gc]; by_cases h : j ∈ c.dl <;> simp [h]
  have e5 : ecF (gc c) = ecF c := by
    funext j; simp only [ecF, gc]; by_cases h : j ∈ c.dl <;> simp [h]
  have e6 : lnF (gc c) = lnF c := by
    funext j; simp only [lnF, gc]; by_cases h : j ∈ c.dl <;> simp [h]
  constructor
  · rw [e1, e2, e3]; exact hI.links
  · rw [e1, e4]; exact hI.names
  · rw [e1]
    exact { olMem := hI.lists.olMem, olNodup := hI.lists.olNodup, dlMem := by intro i hi; simp [gc] at hi,
            freedDead := by
              intro i hi
              simp only [freedF, gc] at hi
              by_cases h : i ∈ c.dl
              · exact (hI.lists.dlMem i h).2
              · simp [h] at hi; exact hI.lists.freedDead i hi }
  · rw [e1, e5, e6]; exact hI.living

theorem living_remove {n : Nat} {dead ec : Nat → Bool} {ln : Nat → Option String} {lv : Nat → List Nat} {ob : Nat}
    (hV : Living n dead ec ln lv) :
    Living n dead ec (fun j => if j = ob then none else ln j)
      (fun k => match ln ob with
        | none => lv k
        | some s => if k = lhash s then (lv k).erase ob else lv k) where
  mem := by
    intro h i
    have := hV.mem h i
    cases hs : ln ob with
    | none =>
      simp only
      by_cases hi : i = ob
      · subst hi; simp [this, hs]
      · simp [hi, this]
    | some s =>
      simp only
      by_cases hh : h = lhash s
      · subst hh
        simp only [if_true]
        rw [mem_erase_nodup (hV.nodup _)]
        by_cases hi : i = ob
        · simp [hi]
        · simp [hi, this]
      · simp only [hh, if_false]
        by_cases hi : i = ob
        · subst hi; simp [this, hs]; intro _ _ e; exact hh e.symm
        · simp [hi, this]
  nodup := by
    intro h
    cases hs : ln ob with
    | none => exact hV.nodup h
    | some s =>
      simp only
      by_cases hh : h = lhash s
      · simp only [hh, if_true]; exact (hV.nodup _).erase _
      · simp only [hh, if_false]; exact hV.nodup h
  deadV := by
    intro i hdi
    have := hV.deadV i hdi
    by_cases h1 : i = ob
    · subst h1; simp [this]
    · simp [h1]; exact this
  blankV := by
    intro i hi
    by_cases h1 : i = ob
    · simp [h1]
    · simp [h1]; exact hV.blankV i hi

theorem living_add {n : Nat} {dead ec : Nat → Bool} {ln : Nat → Option String} {lv : Nat → List Nat} {ob : Nat} {s : String}
    (hV : Living n dead ec ln lv) (ho : ob < n) (hd : dead ob = false) (hnone : ln ob = none) :
    Living n dead ec (fun j => if j = ob then some s else ln j)
      (fun k => if k = lhash s then ob :: lv k else lv k) where
  mem := by
    intro h i
    have := hV.mem h i
    have hnot : ∀ h, ob ∉ lv h := fun h hm => by
      have := (hV.mem h ob).mp hm; simp [hnone] at this
    by_cases hi : i = ob
    · subst hi
      by_cases hh : h = lhash s
      · subst hh; simp [ho, hd]
      · simp [hh, hnot h, ho, hd]; exact fun e => hh e.symm
    · by_cases hh : h = lhash s
      · subst hh; simp [hi, this]
      · simp [hh, hi, this]
  nodup := by
    intro h
    have hnot : ob ∉ lv h := fun hm => by
      have := (hV.mem h ob).mp hm; simp [hnone] at this
    by_cases hh : h = lhash s
    · simp only [hh, if_true]; rw [List.nodup_cons]; exact ⟨by rw [← hh]; exact hnot, hV.nodup _⟩
    · simp only [hh, if_false]; exact hV.nodup h
  deadV := by
    intro i hdi
    have := hV.deadV i hdi
    have h1 : i ≠ ob := fun e => by subst e; simp [hd] at hdi
    simp [h1]; exact this
  blankV := by
    intro i hi
    have h1 : i ≠ ob := by omega
    simp [h1]; exact hV.blankV i hi

theorem living_mtf {n : Nat} {dead ec : Nat → Bool} {ln : Nat → Option String} {lv : Nat → List Nat} {h0 i : Nat}
    (hV : Living n dead ec ln lv) (hi : i ∈ lv h0) :
    Living n dead ec ln (fun k => if k = h0 then i :: (lv h0).erase i else lv k) where
  mem := by
    intro h j
    by_cases hh : h = h0
    · subst hh; simp only [if_true]; rw [mtf_mem hi]; exact hV.mem h j
    · simp only [hh, if_false]; exact hV.mem h j
  nodup := by
    intro h
    by_cases hh : h = h0
    · subst hh; simp only [if_true]; exact mtf_nodup (hV.nodup h)
    · simp only [hh, if_false]; exact hV.nodup h
  deadV := hV.deadV
  blankV := hV.blankV

theorem findLivingC_eq (c : Core) (s : String) :
    findLivingC c s = match (c.lv (lhash s)).find? (fun i => (c.objs i).ec && decide ((c.objs i).living = some s)) with
      | none => (c, none)
      | some i => (setLv c (lhash s) (i :: (c.lv (lhash s)).erase i), some i) := rfl

theorem findLivingC_inv {c : Core} (s : String) (hI : Inv c) : Inv (findLivingC c s).1 := by
  rw [findLivingC_eq]
  split
  · exact hI
  · rename_i j hj
    have hm := List.mem_of_find?_eq_some hj
    exact { links := hI.links, names := hI.names, lists := hI.lists, living := living_mtf hI.living hm }

/-- find_living_object returns only live, command-enabled objects carrying the living name -/
theorem findLivingC_some {c : Core} {s : String} {i : Nat} (hI : Inv c) (h : (findLivingC c s).2 = some i) :
    i < c.n ∧ (c.objs i).destructed = false ∧ (c.objs i).ec = true ∧ (c.objs i).living = some s := by
  rw [findLivingC_eq] at h
  split at h
  · simp at h
  · rename_i j hj
    simp at h
    subst h
    have hm := List.mem_of_find?_eq_some hj
    have hp := List.find?_some hj
    have := (hI.living.mem _ _).mp hm
    simp at hp
    exact ⟨this.1, this.2.1, hp.1, hp.2⟩

/-- the closed form of set_living_name on a live object -/
def livingSet (c : Core) (i : Nat) (s : String) : Core :=
  { c with
    objs := fun j => if j = i then { c.objs i with living := some s } else c.objs j,
    lv := fun k => if k = lhash s then i :: (match (c.objs i).living with
                                              | none => c.lv k
                                              | some s0 => if k = lhash s0 then (c.lv k).erase i else c.lv k)
                   else (match (c.objs i).living with
                          | none => c.lv k
                          | some s0 => if k = lhash s0 then (c.lv k).erase i else c.lv k) }

theorem setLiving_eq {c : Core} {i : Nat} {s : String} (hd : (c.objs i).destructed = false) :
    setLiving c i s = livingSet c i s := by
  unfold setLiving
  simp only [hd, Bool.false_eq_true, if_false]
  unfold removeLiving
  cases hl : (c.objs i).living with
  | none =>
    simp only [livingSet, setLv, setObj, hl]
    congr 1
    funext k; by_cases h : k = lhash s
    · subst h; simp
    · simp [h]
  | some s0 =>
    simp only [livingSet, setLv, setObj, hl]
    congr 1
    · funext j; by_cases h : j = i <;> simp [h]
    · funext k
      by_cases h2 : k = lhash s0
      · subst h2; by_cases h : lhash s0 = lhash s <;> simp [h]
      · by_cases h : k = lhash s
        · subst h; simp [h2]
        · simp [h, h2]

theorem setLiving_inv {c : Core} {i : Nat} (s : String) (hI : Inv c) (hi : i < c.n)
    (hd : (c.objs i).destructed = false) : Inv (setLiving c i s) := by
  rw [setLiving_eq hd]
  have e1 : deadF (livingSet c i s) = deadF c := by
    funext j; simp only [deadF, livingSet]; by_cases h : j = i <;> simp [h]
  have e2 : supF (livingSet c i s) = supF c := by
    funext j; simp only [supF, livingSet]; by_cases h : j = i <;> simp [h]
  have e3 : contF (livingSet c i s) = contF c := by
    funext j; simp only [contF, livingSet]; by_cases h : j = i <;> simp [h]
  have e4 : nameF (livingSet c i s) = nameF c := by
    funext j; simp only [nameF, livingSet]; by_cases h : j = i <;> simp [h]
  have e5 : freedF (livingSet c i s) = freedF c := by
    funext j; simp only [freedF, livingSet]; by_cases h : j = i <;> simp [h]
  have e6 : ecF (livingSet c i s) = ecF c := by
    funext j; simp only [ecF, livingSet]; by_cases h : j = i <;> simp [h]
  have e7 : lnF (livingSet c i s) = fun j => if j = i then some s else (fun j => if j = i then none else lnF c j) j := by
    funext j; simp only [lnF, livingSet]; by_cases h : j = i <;> simp [h]
  constructor
  · rw [e1, e2, e3]; exact hI.links
  · rw [e1, e4]; exact hI.names
  · rw [e1, e5]; exact hI.lists
  · rw [e1, e6, e7]
    have h1 := living_remove (ob := i) hI.living
    have h2 := living_add (s := s) h1 hi hd (by simp)
    exact h2



/-! ## sentences: add_action / remove_sent touch nothing the invariant reads -/

/-- `c'` differs from `c` at most in the sentence lists -/
def SentOnly (c c' : Core) : Prop := c' = c ∨ ∃ f, c' = mapSent c f

theorem sentOnly_proj {c c' : Core} (h : SentOnly c c') :
    c'.n = c.n ∧ c'.ot = c.ot ∧ c'.ol = c.ol ∧ c'.dl = c.dl ∧ c'.lv = c.lv ∧ c'.ctr = c.ctr ∧
    deadF c' = deadF c ∧ supF c' = supF c ∧ contF c' = contF c ∧ nameF c' = nameF c ∧ freedF c' = freedF c ∧
    ecF c' = ecF c ∧ lnF c' = lnF c := by
  rcases h with h | ⟨f, h⟩ <;> subst h
  · exact ⟨rfl, rfl, rfl, rfl, rfl, rfl, rfl, rfl, rfl, rfl, rfl, rfl, rfl⟩
  · exact ⟨rfl, rfl, rfl, rfl, rfl, rfl, rfl, rfl, rfl, rfl, rfl, rfl, rfl⟩

theorem sentOnly_inv {c c' : Core} (h : SentOnly c c') (hI : Inv c) : Inv c' := by
  obtain ⟨a1, a2, a3, a4, a5, a6, b1, b2, b3, b4, b5, b6, b7⟩ := sentOnly_proj h
  constructor
  · rw [a1, b1, b2, b3]; exact hI.links
  · rw [a1, b1, b4, a2, a6]; exact hI.names
  · rw [a1, b1, b5, a3, a4]; exact hI.lists
  · rw [a1, b1, b6, b7, a5]; exact hI.living

theorem unsentMove_sentOnly (c : Core) (item : Nat) : SentOnly c (unsentMove c item) := by
  unfold unsentMove
  split
  · exact Or.inl rfl
  · exact Or.inr ⟨_, rfl⟩

theorem unsentDestruct_sentOnly (c : Core) (ob : Nat) : SentOnly c (unsentDestruct c ob) := by
  unfold unsentDestruct
  split
  · exact Or.inl rfl
  · exact Or.inr ⟨_, rfl⟩

theorem addSent_sentOnly (c : Core) (g : Nat) (v : String) (ob : Nat) : SentOnly c (addSent c g v ob) :=
  Or.inr ⟨_, rfl⟩

theorem eraseSent_sentOnly (c : Core) (g : Nat) (p : String × Nat → Bool) :
    SentOnly c (mapSent c (fun u o => if u = g then eraseFirst p o.sent else o.sent)) :=
  Or.inr ⟨_, rfl⟩

/-- pointwise view of `sentOnly_proj` -/
theorem sentOnly_obj {c c' : Core} (h : SentOnly c c') (i : Nat) :
    (c'.objs i).destructed = (c.objs i).destructed ∧ (c'.objs i).super = (c.objs i).super ∧
    (c'.objs i).contains = (c.objs i).contains ∧ (c'.objs i).freed = (c.objs i).freed ∧
    (c'.objs i).ec = (c.objs i).ec ∧ (c'.objs i).name = (c.objs i).name ∧ (c'.objs i).living = (c.objs i).living := by
  rcases h with h | ⟨f, h⟩ <;> subst h <;> exact ⟨rfl, rfl, rfl, rfl, rfl, rfl, rfl⟩

/-! ## the heart-beat list is not part of the structures the invariant talks about -/

@[simp] theorem hbRemove_c (w : World) (ob : Nat) : (hbRemove w ob).c = w.c := by
  unfold hbRemove; split <;> rfl
@[simp] theorem hbRemove_cg (w : World) (ob : Nat) : (hbRemove w ob).cg = w.cg := by
  unfold hbRemove; split <;> rfl
@[simp] theorem hbRemove_initBad (w : World) (ob : Nat) : (hbRemove w ob).initBad = w.initBad := by
  unfold hbRemove; split <;> rfl
@[simp] theorem hbAdd_c (w : World) (ob : Nat) : (hbAdd w ob).c = w.c := by
  unfold hbAdd; split <;> rfl
@[simp] theorem hbAdd_cg (w : World) (ob : Nat) : (hbAdd w ob).cg = w.cg := by
  unfold hbAdd; split <;> rfl
@[simp] theorem hbAdd_initBad (w : World) (ob : Nat) : (hbAdd w ob).initBad = w.initBad := by
  unfold hbAdd; split <;> rfl

@[simp] theorem hbOff_c (w : World) : (hbOff w).c = w.c := by
  unfold hbOff; split
  · rfl
  · split
    · rfl
    · simp
@[simp] theorem hbOff_cg (w : World) : (hbOff w).cg = w.cg := by
  unfold hbOff; split
  · rfl
  · split
    · rfl
    · simp
@[simp] theorem hbOff_initBad (w : World) : (hbOff w).initBad = w.initBad := by
  unfold hbOff; split
  · rfl
  · split
    · rfl
    · simp
@[simp] theorem hbOffU_c (w : World) : (hbOffU w).c = w.c := by unfold hbOffU; split <;> simp
@[simp] theorem hbOffU_cg (w : World) : (hbOffU w).cg = w.cg := by unfold hbOffU; split <;> simp
@[simp] theorem hbOffU_initBad (w : World) : (hbOffU w).initBad = w.initBad := by unfold hbOffU; split <;> simp
@[simp] theorem raise_c (w : World) (m : String) : (raise w m).w.c = w.c := by simp [raise, emit]
@[simp] theorem raise_cg (w : World) (m : String) : (raise w m).w.cg = w.cg := by simp [raise, emit]
@[simp] theorem raise_initBad (w : World) (m : String) : (raise w m).w.initBad = w.initBad := by simp [raise, emit]

/-! ## the initial state -/

def Core.empty : Core :=
  { n := 0, objs := fun _ => { name := { base := .nofile, num := none } },
    ot := fun _ => [], ol := [], dl := [], lv := fun _ => [], ctr := 1 }

theorem empty_inv : Inv Core.empty where
  links := { blank := fun i _ => ⟨rfl, rfl, rfl⟩,
             inv := fun x y => by simp [Core.empty, contF, supF],
             nodup := fun y => by simp [Core.empty, contF],
             deadL := fun i h => by simp [Core.empty, deadF] at h,
             acyc := fun x h => by cases h <;> simp_all [Core.empty, supF] }
  names := { mem := fun h i => by simp [Core.empty],
             nodup := fun h => by simp [Core.empty],
             uniq := fun i j hi => by simp [Core.empty] at hi,
             fresh := fun i k hi => by simp [Core.empty] at hi }
  lists := { olMem := fun i => by simp [Core.empty],
             olNodup := by simp [Core.empty],
             dlMem := fun i hi => by simp [Core.empty] at hi,
             freedDead := fun i hi => by simp [Core.empty, freedF] at hi }
  living := { mem := fun h i => by simp [Core.empty],
              nodup := fun h => by simp [Core.empty],
              deadV := fun i hi => by simp [Core.empty, deadF] at hi,
              blankV := fun i _ => rfl }

theorem init_inv : Inv Core.init := by
  have h0 : Core.init = (alloc (alloc Core.empty { base := .simul, num := none } false).1 { base := .master, num := none } false).1 := rfl
  rw [h0]
  have hfree0 : ∀ i, i < Core.empty.n → (Core.empty.objs i).destructed = false →
      (Core.empty.objs i).name ≠ { base := .simul, num := none } := fun i hi => by simp [Core.empty] at hi
  have h1 := alloc_inv (cl := false) empty_inv hfree0 (by simp)
  apply alloc_inv h1
  · rw [alloc_eq empty_inv hfree0]
    intro i hi _
    simp only [allocCore, Core.empty] at hi ⊢
    have : i = 0 := by omega
    subst this
    simp
  · simp

end NV.C08
