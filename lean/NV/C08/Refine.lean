/-
C08 — the object name hash table (lib/lpc/otable.c) as a modelled data structure, refined to a finite map.

Concrete side (Model.lean): bucket chains `Core.ot` in `next_hash` order; `lookupC` = find_obj_n with its move-to-front;
`enterHash` = enter_object_hash (refuses a name that is present); `removeHash` = remove_object_hash
(`obj_table[h] = ob->next_hash` whatever was found).
Abstract side: `absMap c : Name → Option Nat`, the partial map "name ↦ the object registered under it".

Under the invariant the table IS that map (`absMap_spec`), and the operations refine the map operations:
  find_obj_n              = read, and leaves the map unchanged although it reorders the chain   (`lookup_refines_read`)
  alloc + enter of a free name = insert                                                        (`enter_refines_insert`)
  enter of a present name = nothing (the new object is NOT registered)                         (`enter_refused_when_present`)
  the unlink block on a live object = delete of exactly its name                               (`remove_refines_delete`)
and outside its precondition `remove_object_hash` is not a delete at all (Props: `remove_hash_absent_drops_chain`).
-/
import NV.C08.Lemmas4

namespace NV.C08

/-- the name table read as a finite map -/
def absMap (c : Core) (nm : Name) : Option Nat := (lookupC c nm).2

theorem opt_ext {a b : Option Nat} (h : ∀ i, a = some i ↔ b = some i) : a = b := by
  cases a with
  | none =>
    cases b with
    | none => rfl
    | some j => exact absurd ((h j).mpr rfl) (by simp)
  | some i => exact ((h i).mp rfl).symm

/-- **absMap_spec.**  The table is the map "name ↦ the unique live object carrying it". -/
theorem absMap_spec {c : Core} (hI : Inv c) (nm : Name) (i : Nat) :
    absMap c nm = some i ↔ (i < c.n ∧ (c.objs i).destructed = false ∧ (c.objs i).name = nm) :=
  lookupC_spec hI nm i

/-- two states satisfying the invariant whose live objects carry the same names have the same map -/
theorem absMap_congr {c c' : Core} (hI : Inv c) (hI' : Inv c')
    (h : ∀ nm i, (i < c'.n ∧ (c'.objs i).destructed = false ∧ (c'.objs i).name = nm) ↔
                 (i < c.n ∧ (c.objs i).destructed = false ∧ (c.objs i).name = nm)) :
    absMap c' = absMap c := by
  funext nm
  apply opt_ext
  intro i
  rw [absMap_spec hI', absMap_spec hI, h]

/-- **lookup_refines_read.**  find_obj_n moves the found object to the front of its chain; the map does not change. -/
theorem lookup_refines_read {c : Core} (hI : Inv c) (nm : Name) : absMap (lookupC c nm).1 = absMap c := by
  refine absMap_congr hI (lookupC_inv nm hI) ?_
  intro x i
  rw [(lookupC_n c nm).1, (lookupC_n c nm).2]

/-- **enter_refines_insert.**  Allocating an object under a name no live object carries registers it: the new map is
    the old one with `nm ↦ new object`. -/
theorem enter_refines_insert {c : Core} {nm : Name} {cl : Bool} (hI : Inv c)
    (hfree : ∀ i, i < c.n → (c.objs i).destructed = false → (c.objs i).name ≠ nm)
    (hfr : ∀ k, nm.num = some k → k < c.ctr) :
    absMap (alloc c nm cl).1 = fun x => if x = nm then some c.n else absMap c x := by
  have hI' := alloc_inv (cl := cl) hI hfree hfr
  funext x
  apply opt_ext
  intro i
  rw [absMap_spec hI']
  rw [alloc_eq hI hfree]
  simp only [allocCore]
  by_cases hx : x = nm
  · subst hx
    simp only [if_true]
    constructor
    · rintro ⟨hi, hd, hn⟩
      by_cases hic : i = c.n
      · rw [hic]
      · simp only [hic, if_false] at hd hn
        exact absurd hn (hfree i (by omega) hd)
    · intro h
      cases h
      simp
  · simp only [hx, if_false]
    rw [absMap_spec hI]
    constructor
    · rintro ⟨hi, hd, hn⟩
      by_cases hic : i = c.n
      · simp only [hic, if_true] at hn
        exact absurd hn.symm hx
      · simp only [hic, if_false] at hd hn
        exact ⟨by omega, hd, hn⟩
    · rintro ⟨hi, hd, hn⟩
      have hic : i ≠ c.n := by omega
      simp only [hic, if_false]
      exact ⟨by omega, hd, hn⟩

/-- **enter_refused_when_present.**  enter_object_hash of an object whose name is already in the table does nothing
    but the move-to-front of the object found: the new object stays unregistered (this is how a second object under one
    name - the seeded re-lookup change, the virtual-object path - ends up on obj_list but not in the table). -/
theorem enter_refused_when_present (c : Core) (i j : Nat) (h : (lookupC c (c.objs i).name).2 = some j) :
    enterHash c i = (lookupC c (c.objs i).name).1 := by
  simp [enterHash, h]

/-- **remove_refines_delete.**  The unlink block of destruct_object, run on a live object with an empty inventory (the
    only way the interpreter reaches it: `exec_good`), deletes exactly that object's name from the map. -/
theorem remove_refines_delete {c : Core} {ob : Nat} (hI : Inv c) (ho : ob < c.n)
    (hd : (c.objs ob).destructed = false) (he : (c.objs ob).contains = []) :
    absMap (finishDestruct c ob) = fun x => if x = (c.objs ob).name then none else absMap c x := by
  have hI' := finishDestruct_inv hI ho hd he
  funext x
  apply opt_ext
  intro i
  rw [absMap_spec hI']
  rw [finishDestruct_eq hI.names ho hd]
  obtain ⟨u1, _⟩ := unlinkC_fields c ob
  obtain ⟨v1, v2, _⟩ := unlinkC_same c ob
  obtain ⟨p1, _, _, p4, _⟩ := destroyed_proj (unlinkC c ob) ob (hashN (c.objs ob).name) (c.objs ob).living
  have hn : (destroyed (unlinkC c ob) ob (hashN (c.objs ob).name) (c.objs ob).living).n = c.n := u1
  have hdead : ∀ j, ((destroyed (unlinkC c ob) ob (hashN (c.objs ob).name) (c.objs ob).living).objs j).destructed =
      if j = ob then true else (c.objs j).destructed := by
    intro j
    have := congrFun p1 j
    simp only [deadF] at this
    rw [this]
    have h2 := congrFun v1 j
    simp only [deadF] at h2
    rw [h2]
  have hname : ∀ j, ((destroyed (unlinkC c ob) ob (hashN (c.objs ob).name) (c.objs ob).living).objs j).name = (c.objs j).name := by
    intro j
    have := congrFun p4 j
    simp only [nameF] at this
    rw [this]
    have h2 := congrFun v2 j
    simpa only [nameF] using h2
  rw [hn, hdead, hname]
  by_cases hx : x = (c.objs ob).name
  · simp only [hx, if_true]
    constructor
    · rintro ⟨hi, hdd, hnn⟩
      by_cases hio : i = ob
      · simp [hio] at hdd
      · simp only [hio, if_false] at hdd
        exact absurd (hI.names.uniq i ob hi hdd ho hd (by simp [nameF, hnn])) hio
    · intro h; cases h
  · simp only [hx, if_false]
    rw [absMap_spec hI]
    constructor
    · rintro ⟨hi, hdd, hnn⟩
      by_cases hio : i = ob
      · simp [hio] at hdd
      · simp only [hio, if_false] at hdd
        exact ⟨hi, hdd, hnn⟩
    · rintro ⟨hi, hdd, hnn⟩
      have hio : i ≠ ob := by
        intro e; subst e; exact hx hnn.symm
      simp only [hio, if_false]
      exact ⟨hi, hdd, hnn⟩

/-- the refinement over histories: in every reachable state the table is the map of live names (`absMap_spec`) -/
theorem table_is_map_reachable (sc : Scripts) (cmds : List Cmd) (nm : Name) (i : Nat) :
    absMap (runCmds sc World.init cmds).c nm = some i ↔
      (i < (runCmds sc World.init cmds).c.n ∧ ((runCmds sc World.init cmds).c.objs i).destructed = false ∧
       ((runCmds sc World.init cmds).c.objs i).name = nm) :=
  absMap_spec (runCmds_inv sc cmds World.init init_inv) nm i

end NV.C08
