/-
C08 helper lemmas, part 5: crash freedom.  `NF c i`: `i` is a valid pointer (allocated, structure not released).
Within one task no structure is released (only remove_destructed_objects does that, at top level), so validity is
monotone (`NFle`).  A task is well-formed (`TaskWf`) when the pointers it holds are valid - plus, for the fan-out, that
the moved object is in the destination, and for the unlink loop of destruct_object, that the object is still live (the
precondition `remove_object_hash` relies on).  `exec_good`: a well-formed task never reaches the `crash` outcome, keeps
`command_giver` valid, returns valid objects, and never calls init() between objects that are not adjacent.
-/
import NV.C08.Lemmas4

namespace NV.C08

set_option linter.unusedSimpArgs false
set_option linter.unusedVariables false

def NF (c : Core) (i : Nat) : Prop := i < c.n ∧ (c.objs i).freed = false

/-- what never changes inside one task: valid pointers stay valid (`nf`), no object is un-allocated (`le`), an allocated
    object keeps its name (`name`) and a destructed object stays destructed (`dead`) -/
structure NFle (c c' : Core) : Prop where
  nf : ∀ i, NF c i → NF c' i
  le : c.n ≤ c'.n
  name : ∀ i, i < c.n → (c'.objs i).name = (c.objs i).name
  dead : ∀ i, i < c.n → (c.objs i).destructed = true → (c'.objs i).destructed = true

instance {c c' : Core} : CoeFun (NFle c c') (fun _ => ∀ i, NF c i → NF c' i) := ⟨fun h => h.nf⟩

theorem NFle.refl (c : Core) : NFle c c := ⟨fun _ h => h, Nat.le_refl _, fun _ _ => rfl, fun _ _ h => h⟩
theorem NFle.trans {a b c : Core} (h1 : NFle a b) (h2 : NFle b c) : NFle a c :=
  ⟨fun i h => h2.nf i (h1.nf i h), Nat.le_trans h1.le h2.le,
   fun i hi => by rw [h2.name i (Nat.lt_of_lt_of_le hi h1.le), h1.name i hi],
   fun i hi hd => h2.dead i (Nat.lt_of_lt_of_le hi h1.le) (h1.dead i hi hd)⟩

theorem nfle_of {c c' : Core} (hn : c.n ≤ c'.n) (hf : ∀ i, i < c.n → (c'.objs i).freed = (c.objs i).freed)
    (hnm : ∀ i, i < c.n → (c'.objs i).name = (c.objs i).name)
    (hdd : ∀ i, i < c.n → (c.objs i).destructed = true → (c'.objs i).destructed = true) :
    NFle c c' := ⟨fun i h => ⟨Nat.lt_of_lt_of_le h.1 hn, by rw [hf i h.1]; exact h.2⟩, hn, hnm, hdd⟩

theorem nfle_same {c c' : Core} (hn : c'.n = c.n) (hf : freedF c' = freedF c) (hnm : nameF c' = nameF c)
    (hdd : deadF c' = deadF c) : NFle c c' :=
  nfle_of (by omega) (fun i _ => congrFun hf i) (fun i _ => congrFun hnm i)
    (fun i _ h => by have := congrFun hdd i; simp only [deadF] at this; rw [this]; exact h)

/-- a live object is a valid pointer -/
theorem live_nf {c : Core} (hI : Inv c) {i : Nat} (hi : i < c.n) (hd : (c.objs i).destructed = false) : NF c i := by
  refine ⟨hi, ?_⟩
  cases hf : (c.objs i).freed with
  | false => rfl
  | true => have := hI.lists.freedDead i hf; simp [deadF, hd] at this

theorem nfle_lookupC (c : Core) (nm : Name) : NFle c (lookupC c nm).1 := by
  have := lookupC_n c nm
  exact nfle_of (by omega) (fun i _ => by rw [this.2]) (fun i _ => by rw [this.2]) (fun i _ h => by rw [this.2]; exact h)

theorem findLivingC_n (c : Core) (s : String) : (findLivingC c s).1.n = c.n ∧ (findLivingC c s).1.objs = c.objs := by
  rw [findLivingC_eq]; split <;> simp [setLv]

theorem nfle_findLivingC (c : Core) (s : String) : NFle c (findLivingC c s).1 := by
  have := findLivingC_n c s
  exact nfle_of (by omega) (fun i _ => by rw [this.2]) (fun i _ => by rw [this.2]) (fun i _ h => by rw [this.2]; exact h)

theorem nfle_setEc (c : Core) (a : Nat) (b : Bool) : NFle c (setObj c a { c.objs a with ec := b }) :=
  nfle_of (by simp [setObj]) (fun i _ => by simp only [setObj]; by_cases h : i = a <;> simp [h])
    (fun i _ => by simp only [setObj]; by_cases h : i = a <;> simp [h])
    (fun i _ hd => by simp only [setObj]; by_cases h : i = a <;> simp_all)

theorem nfle_setLiving {c : Core} {a : Nat} (s : String) (hd : (c.objs a).destructed = false) : NFle c (setLiving c a s) := by
  rw [setLiving_eq hd]
  exact nfle_of (by simp [livingSet]) (fun i _ => by simp only [livingSet]; by_cases h : i = a <;> simp [h])
    (fun i _ => by simp only [livingSet]; by_cases h : i = a <;> simp [h])
    (fun i _ hd => by simp only [livingSet]; by_cases h : i = a <;> simp_all)

theorem nfle_sentOnly {c c' : Core} (h : SentOnly c c') : NFle c c' := by
  have := sentOnly_proj h
  exact nfle_same this.1 this.2.2.2.2.2.2.2.2.2.2.1 this.2.2.2.2.2.2.2.2.2.1 this.2.2.2.2.2.2.1

theorem nfle_relink (c : Core) (item dest : Nat) : NFle c (relink c item dest) :=
  nfle_same (relink_fields c item dest).1 (relink_same c item dest).2.2.1 (relink_same c item dest).2.1
    (relink_same c item dest).1

theorem nfle_alloc {c : Core} {nm : Name} {cl : Bool} (hI : Inv c)
    (hfree : ∀ i, i < c.n → (c.objs i).destructed = false → (c.objs i).name ≠ nm) :
    NFle c (alloc c nm cl).1 ∧ NF (alloc c nm cl).1 (alloc c nm cl).2 := by
  rw [alloc_eq hI hfree]
  constructor
  · refine nfle_of (by simp [allocCore]) (fun i hi => ?_) (fun i hi => ?_) (fun i hi hd => ?_)
    · have : i ≠ c.n := by omega
      simp [allocCore, this]
    · have : i ≠ c.n := by omega
      simp [allocCore, this]
    · have : i ≠ c.n := by omega
      simp [allocCore, this, hd]
  · simp [NF, allocCore]

theorem nfle_ctr (c : Core) : NFle c { c with ctr := c.ctr + 1 } :=
  ⟨fun _ h => h, Nat.le_refl _, fun _ _ => rfl, fun _ _ h => h⟩

theorem nfle_finishDestruct {c : Core} {ob : Nat} (hI : Inv c) (ho : ob < c.n) (hd : (c.objs ob).destructed = false) :
    NFle c (finishDestruct c ob) := by
  rw [finishDestruct_eq hI.names ho hd]
  obtain ⟨p1, p2, p3, p4, p5, p6, p7⟩ := destroyed_proj (unlinkC c ob) ob (hashN (c.objs ob).name) (c.objs ob).living
  refine nfle_of ?_ ?_ ?_ ?_
  · exact Nat.le_of_eq (unlinkC_fields c ob).1.symm
  · intro i _
    have h1 := congrFun p5 i
    have h2 := congrFun (unlinkC_same c ob).2.2.1 i
    simp only [freedF] at h1 h2
    rw [h1, h2]
  · intro i _
    have h1 := congrFun p4 i
    have h2 := congrFun (unlinkC_same c ob).2.1 i
    simp only [nameF] at h1 h2
    rw [h1, h2]
  · intro i _ hd0
    have h1 := congrFun p1 i
    have h2 := congrFun (unlinkC_same c ob).1 i
    simp only [deadF] at h1 h2
    rw [h1]
    by_cases hi : i = ob
    · simp [hi]
    · simp only [hi, if_false]; rw [h2]; exact hd0

/-! ## well-formedness -/

def WorldWf (w : World) : Prop := ∀ g, w.cg = some g → NF w.c g

def TaskWf (c : Core) : Task → Prop
  | .ops self _ _ => NF c self
  | .hook x k arg => NF c x ∧ (∀ y, k = .init → arg = some y → adjacent c x y = true)
  | .load _ _ => True
  | .clone _ => True
  | .move item dest => NF c item ∧ NF c dest
  | .moveStr item _ => NF c item
  | .fan item dest cur save => NF c item ∧ NF c dest ∧ (∀ ob, cur = some ob → NF c ob) ∧ (c.objs item).super = some dest ∧
      (∀ g, save = some g → NF c g)
  | .command a _ => NF c a
  | .cmdloop a _ _ _ => NF c a
  | .present _ _ cur => ∀ ob, cur = some ob → NF c ob
  | .destruct ob => NF c ob
  | .dloop ob sup0 _ => NF c ob ∧ (c.objs ob).destructed = false ∧ (∀ s, sup0 = some s → NF c s)
  | .objloop self rest _ => NF c self ∧ (∀ x ∈ rest, NF c x)

/-- what a well-formed task guarantees about its result (relative to the pointers valid in `c0`) -/
structure Good (c0 : Core) (r : R) : Prop where
  le : NFle c0 r.w.c
  nocrash : r.out ≠ .crash
  nohang : r.out ≠ .hang
  ghost : r.w.initBad = false
  wf : WorldWf r.w
  val : ∀ v, r.val = some v → NF r.w.c v

theorem Good.mono {c0 c1 : Core} {r : R} (h : NFle c0 c1) (g : Good c1 r) : Good c0 r :=
  { g with le := h.trans g.le }

theorem good_leaf {c0 : Core} {w : World} (hle : NFle c0 w.c) (hg : w.initBad = false) (hwf : WorldWf w) :
    Good c0 { w := w } :=
  { le := hle, nocrash := by simp, nohang := by simp, ghost := hg, wf := hwf, val := by simp }

theorem good_val {c0 : Core} {w : World} {v : Option Nat} (hle : NFle c0 w.c) (hg : w.initBad = false) (hwf : WorldWf w)
    (hv : ∀ x, v = some x → NF w.c x) : Good c0 { w := w, val := v } :=
  { le := hle, nocrash := by simp, nohang := by simp, ghost := hg, wf := hwf, val := hv }

theorem good_raise {c0 : Core} {w : World} {m : String} (hle : NFle c0 w.c) (hg : w.initBad = false) (hwf : WorldWf w) :
    Good c0 (raise w m) :=
  { le := by rw [raise_c]; exact hle, nocrash := by simp [raise], nohang := by simp [raise], ghost := by rw [raise_initBad]; exact hg,
    wf := fun g hgg => by rw [raise_c]; rw [raise_cg] at hgg; exact hwf g hgg, val := by simp [raise] }

theorem good_ite {c0 : Core} {p : Prop} [Decidable p] {a b : R} (ha : p → Good c0 a) (hb : ¬ p → Good c0 b) :
    Good c0 (if p then a else b) := by
  split
  · exact ha ‹_›
  · exact hb ‹_›

/-- `anyFreed` over live objects is false -/
theorem anyFreed_live {c : Core} (hI : Inv c) (l : List Nat) (hl : ∀ i ∈ l, i < c.n ∧ (c.objs i).destructed = false) :
    anyFreed c l = false := by
  simp only [anyFreed, List.any_eq_false]
  intro i hi
  have := live_nf hI (hl i hi).1 (hl i hi).2
  simp [this.2]

theorem anyFreed_ot {c : Core} (hI : Inv c) (h : Nat) : anyFreed c (c.ot h) = false :=
  anyFreed_live hI _ (fun i hi => by have := (hI.names.mem h i).mp hi; exact ⟨this.1, this.2.1⟩)

theorem anyFreed_ol {c : Core} (hI : Inv c) : anyFreed c c.ol = false :=
  anyFreed_live hI _ (fun i hi => (hI.lists.olMem i).mp hi)

theorem anyFreed_lv {c : Core} (hI : Inv c) (h : Nat) : anyFreed c (c.lv h) = false :=
  anyFreed_live hI _ (fun i hi => by have := (hI.living.mem h i).mp hi; exact ⟨this.1, this.2.1⟩)

/-- members of an inventory are live -/
theorem cont_live {c : Core} (hI : Inv c) {x y : Nat} (hm : x ∈ (c.objs y).contains) :
    x < c.n ∧ (c.objs x).destructed = false := by
  have hs : (c.objs x).super = some y := (hI.links.inv x y).mp hm
  constructor
  · apply Classical.byContradiction; intro hge
    have := (hI.links.blank x (by omega)).2.1
    simp [supF] at this; rw [this] at hs; simp at hs
  · cases hd : (c.objs x).destructed with
    | false => rfl
    | true => have := (hI.links.deadL x hd).1; simp [supF] at this; rw [this] at hs; simp at hs

/-- the environment of an object is live -/
theorem super_live {c : Core} (hI : Inv c) {x y : Nat} (hs : (c.objs x).super = some y) :
    y < c.n ∧ (c.objs y).destructed = false := by
  have hm : x ∈ contF c y := (hI.links.inv x y).mpr hs
  constructor
  · apply Classical.byContradiction; intro hge
    have := (hI.links.blank y (by omega)).2.2
    rw [this] at hm; simp at hm
  · cases hd : (c.objs y).destructed with
    | false => rfl
    | true => have := (hI.links.deadL y hd).2; rw [this] at hm; simp at hm

theorem anyFreed_env {c : Core} (hI : Inv c) (x : Nat) :
    anyFreed c (match (c.objs x).super with | none => [] | some s => s :: (c.objs s).contains) = false := by
  apply anyFreed_live hI
  intro i hi
  split at hi
  · simp at hi
  · rename_i s hs
    simp at hi
    rcases hi with e | hm
    · subst e; exact super_live hI hs
    · exact cont_live hI hm

theorem anyFreed_env_cons {c : Core} (hI : Inv c) {x s : Nat} (hs : (c.objs x).super = some s) :
    anyFreed c (s :: (c.objs s).contains) = false := by
  apply anyFreed_live hI
  intro i hi
  simp at hi
  rcases hi with e | hm
  · subst e; exact super_live hI hs
  · exact cont_live hI hm

/-- the super walk never steps on a released structure when it starts at a valid pointer -/
theorem superWalk_not_freed {c : Core} (hI : Inv c) (item : Nat) : ∀ (f : Nat) (d : Nat), NF c d →
    superWalk c item f (some d) ≠ .freed := by
  intro f
  induction f with
  | zero => intro d _; simp [superWalk]
  | succ f ih =>
    intro d hd
    simp only [superWalk, hd.2]
    simp only [Bool.false_eq_true, if_false]
    split
    · simp
    · cases hs : (c.objs d).super with
      | none => cases f <;> simp [superWalk]
      | some p =>
        have hp := super_live hI hs
        exact ih p (live_nf hI hp.1 hp.2)

/-- pigeonhole: a duplicate-free list of numbers below `n` has at most `n` entries -/
theorem nodup_bound : ∀ (n : Nat) (l : List Nat), l.Nodup → (∀ x ∈ l, x < n) → l.length ≤ n
  | 0, l, _, h => by
    cases l with
    | nil => simp
    | cons a t => exact absurd (h a (by simp)) (by omega)
  | n + 1, l, hnd, h => by
    have h1 : (l.erase n).length ≤ n := nodup_bound n (l.erase n) (hnd.erase n) (fun x hx => by
      have hm := (List.Nodup.mem_erase_iff hnd).mp hx
      have := h x hm.2
      omega)
    have h2 : l.length ≤ (l.erase n).length + 1 := by
      rw [List.length_erase]; split <;> omega
    omega

/-- the cycle walk of move_object terminates: the objects it has visited (`vis`) are pairwise different allocated
    objects, each of them a descendant of the cursor (forest: `Links.acyc`), so there are at most `n` of them -/
theorem superWalk_not_loop_aux {c : Core} (hI : Inv c) (item : Nat) : ∀ (f : Nat) (vis : List Nat) (cur : Option Nat),
    vis.Nodup → (∀ v ∈ vis, v < c.n) →
    (∀ d, cur = some d → d < c.n ∧ d ∉ vis ∧ ∀ v ∈ vis, Anc (supF c) v d) →
    c.n + 1 ≤ f + vis.length → superWalk c item f cur ≠ .loop := by
  intro f
  induction f with
  | zero =>
    intro vis cur hnd hlt _ hlen
    have := nodup_bound c.n vis hnd hlt
    omega
  | succ f ih =>
    intro vis cur hnd hlt hcur hlen
    cases cur with
    | none => simp [superWalk]
    | some d =>
      obtain ⟨hd, hdv, hanc⟩ := hcur d rfl
      simp only [superWalk]
      split
      · simp
      · split
        · simp
        · refine ih (d :: vis) (c.objs d).super (List.nodup_cons.mpr ⟨hdv, hnd⟩) ?_ ?_ (by simp; omega)
          · intro v hv
            rcases List.mem_cons.mp hv with e | hv
            · subst e; exact hd
            · exact hlt v hv
          · intro p hp
            have hstep : supF c d = some p := hp
            refine ⟨(super_live hI hp).1, ?_, ?_⟩
            · intro hm
              rcases List.mem_cons.mp hm with e | hm
              · subst e; exact hI.links.acyc p (Anc.base hstep)
              · exact hI.links.acyc d (Anc.step hstep (hanc p hm))
            · intro v hv
              rcases List.mem_cons.mp hv with e | hv
              · subst e; exact Anc.base hstep
              · exact Anc.trans (hanc v hv) (Anc.base hstep)

/-- **termination of move_object's `for (ob = dest; ob; ob = ob->super)` walk**: in a state satisfying the invariant
    the walk from any allocated object reaches the top within `n` steps (outcome `loop` = `hang` is impossible) -/
theorem superWalk_not_loop {c : Core} (hI : Inv c) (item d : Nat) (hd : d < c.n) :
    superWalk c item (c.n + 1) (some d) ≠ .loop :=
  superWalk_not_loop_aux hI item (c.n + 1) [] (some d) List.nodup_nil (by simp)
    (by intro d' h; cases h; exact ⟨hd, by simp, by simp⟩) (by simp)

/-- `next_inv` of an object is a live member of the same inventory -/
theorem nextInv_live {c : Core} (hI : Inv c) {ob nx : Nat} (h : nextInv c ob = some nx) :
    nx < c.n ∧ (c.objs nx).destructed = false := by
  unfold nextInv at h
  split at h
  · simp at h
  · rename_i s hs
    have hm : nx ∈ ((c.objs s).contains.dropWhile (· ≠ ob)).drop 1 := List.mem_of_mem_head? h
    have hm2 : nx ∈ (c.objs s).contains := by
      have := List.mem_of_mem_drop hm
      exact (List.dropWhile_sublist _).subset this
    exact cont_live hI hm2

end NV.C08
