import NV.Common.Proto
namespace NV.C08
open NV.Proto
def judge (trace : List String) : List String :=
  trace.filter (fun l => l.startsWith "crash" || l.startsWith "sanitizer" || l.startsWith "W " || l.startsWith "hang")
end NV.C08
