/-
C08 — specification oracle ("judge"): decides, for a trace of observable events (the canonical output lines of either
the model or the real driver), whether property C08 held on it:

  looking up a name yields exactly the live object carrying it; every object is in at most one inventory and the
  inventories form a forest that agrees with each object's environment; a destructed object is never found, listed,
  called, moved into or given commands; every reference to a destructed object reads as 0.

The judge knows nothing about hash chains, cursors or the order of unlinking.  It keeps
  * the set of objects that are *definitely* destructed (`r de .. ok`, or shown destructed by a snapshot/probe),
  * the environment each object was last moved into (every relocation by move_object is announced by `mvb`),
  * the stack of open move / destruct / hook frames (an LPC error unwinds all of them: the scripts never catch),
  * the last snapshot (`S` lines = the walker's view of the real structures), against which the LPC-visible probe
    (`P` lines) is checked when no step happened in between.
Violations start with a kind word (used for shrinking).
-/
import NV.Common.Proto

namespace NV.C08

open NV.Proto

def jOid (s : String) : Option Nat :=
  if s.startsWith "o" then (s.drop 1).toString.toNat? else none

/-- comma separated oid list ("" = empty); unknown tokens become 0 (never a valid harness id) -/
def jIds (s : String) : List Nat :=
  if s == "" then [] else (s.splitOn ",").map (fun t => (jOid t).getD 0)

/-- value of `key=` in a token list -/
def kv (ts : List String) (key : String) : Option String :=
  (ts.find? (fun t => t.startsWith (key ++ "="))).map (fun t => (t.drop (key.length + 1)).toString)

/-- one live object as shown by a snapshot -/
structure SObj where
  id : Nat
  name : String
  env : Option Nat
  inv : List Nat
  ec : Bool
  ln : Option String
  deriving Repr

inductive Frame where
  | move (a d : Nat)
  | moveS (a : Nat)        -- move_object(string): the destination object is not known before the move reports back
  | hook (x : Nat)
  | dest (a : Nat)
  | catch                  -- an open catch(): a caught error unwinds the frames above it
  | obf (before : List Nat) -- a running objects(filter); `before` = objects() just before the call
  deriving Repr, BEq

structure JState where
  dead : List Nat := []                    -- definitely destructed
  envOf : List (Nat × Option Nat) := []    -- last relocation announced for an object (newest first)
  frames : List Frame := []
  pending : Option (Nat × Nat) := none     -- `mvb a d` seen, outcome not yet known
  -- snapshot being collected / last complete snapshot
  sLive : List SObj := []
  sDead : List Nat := []
  sOt : List Nat := []
  sOl : List Nat := []
  sDl : List Nat := []
  sLv : List Nat := []
  sOpen : Bool := false                    -- S lines are arriving
  sFresh : Bool := false                   -- a complete snapshot describes the current state
  bad : List String := []                  -- newest first

def JState.flag (s : JState) (v : String) : JState := { s with bad := v :: s.bad }

def isDead (s : JState) (i : Nat) : Bool := s.dead.contains i

def markDead (s : JState) (i : Nat) : JState := if isDead s i then s else { s with dead := i :: s.dead }

def envKnown (s : JState) (i : Nat) : Option (Option Nat) := (s.envOf.find? (fun p => p.1 == i)).map (·.2)

/-- sentinel: the object was moved to a destination named by a string; which object that is, is only known when the
    move reports back -/
def unkEnv : Nat := 1000000000

/-- `i` is known (or possibly, when unknown) to be in `d` -/
def envIs (s : JState) (i d : Nat) : Bool :=
  match envKnown s i with
  | some (some e) => e == d || e == unkEnv
  | _ => false

/-- somewhere up the announced environments of `d` there is an unknown one -/
def envUnknownAbove (s : JState) : Nat → Nat → Bool
  | 0, _ => false
  | f + 1, d =>
    d == unkEnv || (match envKnown s d with
      | some (some e) => envUnknownAbove s f e
      | _ => false)

/-- `d` is `a` or lies inside `a` according to the announced relocations -/
def insideKnown (s : JState) (a : Nat) : Nat → Nat → Bool
  | 0, _ => false
  | f + 1, d =>
    d == a || (match envKnown s d with
      | some (some e) => insideKnown s a f e
      | _ => false)

def count (l : List Nat) (x : Nat) : Nat := (l.filter (· == x)).length

def hasDup (l : List Nat) : Bool := l.any (fun x => count l x > 1)

def sFind (s : JState) (i : Nat) : Option SObj := s.sLive.find? (fun o => o.id == i)

/-- no environment cycle through `i` in the snapshot -/
def envAcyclic (s : JState) : Nat → Nat → Bool
  | 0, _ => false
  | f + 1, i =>
    match sFind s i with
    | none => true
    | some o => match o.env with
      | none => true
      | some e => envAcyclic s f e

/-- checks on a complete snapshot (the spec-level reading of the real structures) -/
def checkSnapshot (s : JState) : JState :=
  let live := s.sLive.map (·.id)
  let s := s.sLive.foldl (fun s o =>
    let s := if isDead s o.id then s.flag s!"resurrected {o.id} destructed earlier, live in snapshot" else s
    let s := if (s.sLive.filter (fun p => p.name == o.name)).length > 1 then s.flag s!"name-not-unique {o.name}" else s
    let s := match o.env with
      | none => s
      | some e =>
        match sFind s e with
        | none => s.flag s!"env-not-live o{o.id} env=o{e}"
        | some eo => if count eo.inv o.id == 1 then s else s.flag s!"env-inventory-disagree o{o.id} env=o{e} not listed once in its inventory"
    let s := if hasDup o.inv then s.flag s!"inventory-duplicate o{o.id}" else s
    let s := o.inv.foldl (fun s m =>
      match sFind s m with
      | none => s.flag s!"inventory-has-non-live o{o.id} member=o{m}"
      | some mo => if mo.env == some o.id then s else s.flag s!"env-inventory-disagree o{m} listed in o{o.id} but its environment differs") s
    let s := if (s.sLive.filter (fun p => p.inv.contains o.id)).length > 1 then s.flag s!"in-two-inventories o{o.id}" else s
    let s := if envAcyclic s (s.sLive.length + 1) o.id then s else s.flag s!"env-cycle o{o.id}"
    let s := if count s.sOt o.id == 1 then s else s.flag s!"name-table-miss o{o.id} listed {count s.sOt o.id} times"
    let s := if count s.sOl o.id == 1 then s else s.flag s!"object-list-miss o{o.id} listed {count s.sOl o.id} times"
    let s := match o.ln with
      | none => if count s.sLv o.id == 0 then s else s.flag s!"living-table-extra o{o.id}"
      | some _ => if count s.sLv o.id == 1 then s else s.flag s!"living-table-miss o{o.id}"
    s) s
  let s := (s.sOt ++ s.sOl ++ s.sLv).foldl (fun s i =>
    if live.contains i then s else s.flag s!"destructed-registered o{i} in a registry but not live") s
  let s := s.sDl.foldl (fun s i => if live.contains i then s.flag s!"live-on-destruct-list o{i}" else s) s
  let s := if hasDup s.sDl then s.flag "destruct-list-duplicate" else s
  s.sDead.foldl markDead s

def closeSnapshot (s : JState) : JState :=
  if s.sOpen then { checkSnapshot s with sOpen := false, sFresh := true } else s

/-- an object value that must not be a destructed object -/
def useLive (s : JState) (what line : String) (i : Option Nat) : JState :=
  match i with
  | some i => if isDead s i then s.flag s!"destructed-visible {what} o{i}: {line}" else s
  | none => s

def optOid (t : String) : Option Nat := jOid t

/-- resolve a pending `mvb`: the move took place -/
def commitMove (s : JState) : JState :=
  match s.pending with
  | none => s
  | some (a, d) =>
    let s := { s with pending := none }
    let s := if isDead s a then s.flag s!"destructed-moved o{a}" else s
    let s := if isDead s d then s.flag s!"moved-into-destructed o{a} into o{d}" else s
    let s := if insideKnown s a 10000 d then s.flag s!"move-into-own-inventory-accepted o{a} into o{d}" else s
    { s with envOf := (a, some d) :: s.envOf, frames := Frame.move a d :: s.frames }

def stepEvent (s : JState) : JState := { s with sFresh := false }

def isCatch : Frame → Bool
  | .catch => true
  | _ => false

/-- id list printed by the harness: `-` = empty -/
def jIdsDash (s : String) : List Nat := if s == "-" then [] else jIds s

def judgeLine (s0 : JState) (line : String) : JState :=
  let ts := toks line
  -- snapshot lines are collected; anything else closes an open snapshot
  match ts with
  | "S" :: rest =>
    let s := if s0.sOpen then s0 else
      { s0 with sOpen := true, sFresh := false, sLive := [], sDead := [], sOt := [], sOl := [], sDl := [], sLv := [] }
    match rest with
    | ["ot", _, l] => { s with sOt := s.sOt ++ jIds l }
    | ["lv", _, l] => { s with sLv := s.sLv ++ jIds l }
    | ["ol", l] => { s with sOl := jIds l }
    | ["ol"] => s
    | ["dl", l] => { s with sDl := jIds l }
    | ["dl"] => s
    | o :: "D" :: extra =>
      match jOid o with
      | none => s.flag s!"unexpected-line {line}"
      | some i =>
        let s := { s with sDead := i :: s.sDead }
        if extra.isEmpty then s else s.flag s!"destructed-still-linked o{i}: {line}"
    | o :: name :: more =>
      match jOid o, kv more "env", kv more "inv", kv more "ec", kv more "ln" with
      | some i, some env, some inv, some ec, some ln =>
        { s with sLive := s.sLive ++ [{ id := i, name := name, env := jOid env, inv := jIds inv, ec := ec == "1",
                                         ln := if ln == "0" then none else some ln }] }
      | _, _, _, _, _ => s.flag s!"unexpected-line {line}"
    | _ => s.flag s!"unexpected-line {line}"
  | _ =>
    let s := closeSnapshot s0
    -- a pending move is decided by the next event
    let s := match ts with
      | "caught" :: _ =>
        match s.pending with
        | some (a, d) =>
          let s := { s with pending := none }
          if insideKnown s a 10000 d || envUnknownAbove s 10000 d then s else s.flag s!"move-refused o{a} into o{d}: {line}"
        | none => s
      | "err" :: _ =>
        match s.pending with
        | some (a, d) =>
          let s := { s with pending := none }
          if insideKnown s a 10000 d || envUnknownAbove s 10000 d then s else s.flag s!"move-refused o{a} into o{d}: {line}"
        | none => s
      | _ => commitMove s
    match ts with
    | [] => s
    | ["new", o, _name] =>
      match jOid o with
      | some i =>
        let s := stepEvent s
        let s := if isDead s i || (envKnown s i).isSome then s.flag s!"id-reused o{i}" else s
        { s with envOf := (i, none) :: s.envOf, frames := Frame.hook i :: s.frames }
      | none => s.flag s!"unexpected-line {line}"
    | ["he", o, _k] =>
      match jOid o with
      | some i =>
        match s.frames with
        | Frame.hook j :: rest => if i == j then { s with frames := rest } else s.flag s!"frame-mismatch {line}"
        | _ => s.flag s!"frame-mismatch {line}"
      | none => s.flag s!"unexpected-line {line}"
    | ["hb", o, k, arg] =>
      match jOid o with
      | some x =>
        let s := stepEvent s
        let y := jOid arg
        let s := if isDead s x then s.flag s!"destructed-called o{x}: {line}" else s
        let s := useLive s "hook-argument" line y
        let s :=
          if k == "init" then
            match s.frames, y with
            | Frame.moveS a :: _, some y =>
              let s := if isDead s a then s.flag s!"init-after-item-left string move of o{a}: {line}" else s
              if x == a || y == a then s else s.flag s!"init-without-moved-object string move of o{a}: {line}"
            | Frame.move a d :: _, some y =>
              let s := if envIs s a d && !isDead s a then s
                       else s.flag s!"init-after-item-left move o{a} into o{d}: {line}"
              if x == a || y == a then
                let other := if x == a then y else x
                if other == d || envIs s other d then s
                else s.flag s!"init-with-object-outside-destination move o{a} into o{d}, other o{other}: {line}"
              else s.flag s!"init-without-moved-object move o{a} into o{d}: {line}"
            | _, _ => s.flag s!"init-outside-move {line}"
          else if k == "mod" then
            if s.frames.any (fun f => match f with | Frame.dest _ => true | _ => false) then s
            else s.flag s!"move_or_destruct-outside-destruct {line}"
          else if k == "act" then s   -- a command reached the action of a live object (checked above)
          else if k == "id" then s    -- present() asks a live object
          else if k == "hbeat" then s -- the backend tick calls a live object (checked above: called-while-destructed)
          else if k == "ofilt" then
            -- objects(filter) hands every listed object to the filter: never a destructed one (it would read as 0)
            if y.isSome then s else s.flag s!"destructed-listed objects(filter) called its filter with a destructed object: {line}"
          else s.flag s!"unexpected-line {line}"
        { s with frames := Frame.hook x :: s.frames }
      | none => s.flag s!"unexpected-line {line}"
    | ["mvb", a, d] =>
      match jOid a, jOid d with
      | some a, some d => { stepEvent s with pending := some (a, d) }
      | _, _ => s.flag s!"unexpected-line {line}"
    | ["r", "mv", a, d, res] =>
      match jOid a, jOid d with
      | some a, some d =>
        if res == "ok" then
          match s.frames with
          | Frame.move a' d' :: rest =>
            if a == a' && d == d' then { s with frames := rest } else s.flag s!"frame-mismatch {line}"
          | _ => s.flag s!"frame-mismatch {line}"
        else s
      | _, _ => s.flag s!"unexpected-line {line}"
    | ["r", "mvarg", _, _] => s
    | ["mvsb", a, _name] =>
      match jOid a with
      | some a =>
        let s := stepEvent s
        let s := if isDead s a then s.flag s!"destructed-reference-used move o{a}" else s
        -- from here on the environment of a is unknown until the move reports back (or an error unwinds)
        { s with frames := Frame.moveS a :: s.frames, envOf := (a, some unkEnv) :: s.envOf }
      | none => s.flag s!"unexpected-line {line}"
    | ["r", "mvs", a, _name, res, env] =>
      match jOid a with
      | some a =>
        if res == "ok" then
          match s.frames with
          | Frame.moveS a' :: rest =>
            if a == a' then
              let s := { s with frames := rest }
              let s := useLive s "environment" line (jOid env)
              -- a destructed object must not have been linked into the room
              let s := if isDead s a && (jOid env).isSome then s.flag s!"destructed-moved o{a}: {line}" else s
              -- `?`: the executing object was destructed and could not name the room; relocations announced while
              -- the string move was running are older than the move itself: the environment is unknown again
              if env == "?" then { s with envOf := (a, some unkEnv) :: s.envOf } else { s with envOf := (a, jOid env) :: s.envOf }
            else s.flag s!"frame-mismatch {line}"
          | _ => s.flag s!"frame-mismatch {line}"
        else s
      | none => s.flag s!"unexpected-line {line}"
    | ["r", "mvs", _a, _name, _res] => s
    | ["r", "pr", e, t, v] =>
      let s := stepEvent s
      let s := useLive s "present" line (jOid v)
      match jOid e, jOid v with
      | some e, some r =>
        let s := if jOid t == some r then s else s.flag s!"present-wrong-object {line}"
        if envIs s r e then s else s.flag s!"present-outside-environment o{r} is not in o{e}: {line}"
      | _, _ => s
    | ["r", "fis", _name, v] => useLive (stepEvent s) "first_inventory" line (jOid v)
    | ["deb", a] =>
      match jOid a with
      | some a =>
        let s := stepEvent s
        let s := if isDead s a then s.flag s!"destructed-reference-used destruct o{a}" else s
        { s with frames := Frame.dest a :: s.frames }
      | none => s.flag s!"unexpected-line {line}"
    | ["r", "de", a, res] =>
      match jOid a with
      | some a =>
        if res == "ok" then
          match s.frames with
          | Frame.dest a' :: rest =>
            if a == a' then { markDead s a with frames := rest, envOf := (a, none) :: s.envOf }
            else s.flag s!"frame-mismatch {line}"
          | _ => s.flag s!"frame-mismatch {line}"
        else s
      | none => s.flag s!"unexpected-line {line}"
    | ["r", "ln", a, _n, res] =>
      let s := stepEvent s
      if res == "ok" then useLive s "living-name" line (jOid a) else s
    | ["r", "kp", _x, a, res] => if res == "ok" then useLive s "reference" line (jOid a) else s
    | ["r", "rd", _x, v, va, vm] =>
      -- global variable, array element, mapping value: all three read the same
      let s := useLive (useLive (useLive s "reference-read" line (jOid v)) "reference-read" line (jOid va)) "reference-read" line (jOid vm)
      if v == va && v == vm then s else s.flag s!"reference-reads-differ {line}"
    | ["r", "aa", a, _v, res] => if res == "ok" then useLive (stepEvent s) "add_action" line (jOid a) else s
    | ["r", "cmd", _a, _v, _res] => stepEvent s
    | ["r", "gh", _a, _k] => stepEvent s
    | ["r", "ra", a, _v, res] => if res == "!gone" then s else useLive (stepEvent s) "remove_action" line (jOid a)   -- the issuer may have been destructed by the action it triggered
    | ["r", "ld", _n, v, k, lv] =>
      let s := stepEvent s
      let s := useLive s "loaded" line (jOid v)
      let s := useLive s "loaded" line (jOid lv)
      -- the object load_object() returns is the one find_object() finds under that name
      let s := if v != "?" && lv != "?" && (jOid lv).isSome && jOid lv != jOid v then
                 s.flag s!"load-find-disagree load_object returned o{(jOid lv).getD 0}, find_object finds {v}: {line}" else s
      -- typeof() of the efun result (k) against the value LPC reads from it (lv): "object" that reads as 0 = load_object
      -- handed back a destructed object.  (k is compared with the LOAD result, not with what find_object finds: when the
      -- object under construction is destructed inside its own create() chain and another object is created under the
      -- name meanwhile, find_or_load_object rightly returns 0 although the name is findable.)
      if lv == "?" then s   -- the executing object was destructed meanwhile and could not name the result
      else if (k == "1") != (jOid lv).isSome then s.flag s!"found-destructed load returned an object that is not live: {line}" else s
    | ["r", "cl", _n, v] => useLive (stepEvent s) "cloned" line (jOid v)
    | ["r", "fo", _n, v, k] =>
      let s := stepEvent s
      let s := useLive s "found" line (jOid v)
      if (k == "1") != (jOid v).isSome then s.flag s!"found-destructed find_object returned an object that is not live: {line}" else s
    | ["r", "fl", _n, v, k] =>
      let s := stepEvent s
      let s := useLive s "found-living" line (jOid v)
      if (k == "1") != (jOid v).isSome then s.flag s!"found-destructed find_living returned an object that is not live: {line}" else s
    | ["ctb", _o] => { s with frames := Frame.catch :: s.frames }
    | ["r", "ct", _o, _res] =>
      match s.frames with
      | Frame.catch :: rest => { s with frames := rest }
      | _ => s.flag s!"frame-mismatch {line}"
    | "caught" :: rest =>
      -- a caught error unwinds to the innermost catch(); the destruct restriction is judged as for `err`
      let nDest := (s.frames.filter (fun f => match f with | Frame.dest _ => true | _ => false)).length
      let s := if rest.headD "" == "*Only" && nDest < 2 then s.flag s!"destruct-refused outside move_or_destruct: {line}" else s
      { stepEvent s with frames := s.frames.dropWhile (fun f => !isCatch f) }
    | ["obfb", _o, ids] => { stepEvent s with frames := Frame.obf (jIdsDash ids) :: s.frames }
    | ["r", "obf", _o, lst, now] =>
      let s := stepEvent s
      let (before, s) := match s.frames with
        | Frame.obf b :: rest => (b, { s with frames := rest })
        | _ => ([], s.flag s!"frame-mismatch {line}")
      if lst == "?" then s   -- the executing object was destructed meanwhile
      else if lst == "!0" then s.flag s!"objects-filter-mismatch objects(filter) returned 0: {line}"
      else
        let toks := if lst == "-" then [] else lst.splitOn ","
        let s := if toks.any (fun t => (jOid t).isNone) then
                   s.flag s!"destructed-listed objects(filter) lists an object that reads as 0: {line}" else s
        let l := toks.filterMap jOid
        let s := l.foldl (fun s i => useLive s "objects(filter)" line (some i)) s
        let s := if hasDup l then s.flag s!"objects-filter-mismatch listed twice: {line}" else s
        let nowL := jIdsDash now
        let s := if (l.filter (· ≥ 2)).all nowL.contains then s
                 else s.flag s!"destructed-listed objects(filter) lists an object that objects() does not: {line}"
        if (before.filter nowL.contains).all l.contains then s
        else s.flag s!"objects-filter-missed an object alive before and after the call is not listed: {line}"
    | ["r", op, a, res] =>
      -- ec / dc
      if op == "ec" || op == "dc" || op == "hbe" || op == "hbd" then
        let s := stepEvent s
        if res == "ok" then useLive s "command-enable" line (jOid a) else s
      else s.flag s!"unexpected-line {line}"
    | "err" :: rest =>
      -- "Only this_object() can be destructed from move_or_destruct": legitimate only while an outer destruct is
      -- running its move_or_destruct hooks (a stale restriction after an error would refuse ordinary destructs)
      let nDest := (s.frames.filter (fun f => match f with | Frame.dest _ => true | _ => false)).length
      let s := if rest.headD "" == "*Only" && nDest < 2 then s.flag s!"destruct-refused outside move_or_destruct: {line}" else s
      { stepEvent s with frames := [] }
    | ["r", "top", "!err"] => s
    | ["r", "tick", "!err"] => s
    | "hb-stale-slot" :: _ => s.flag s!"called-while-destructed {line}"
    | "hb-stale-object" :: _ => s.flag s!"called-while-destructed {line}"
    | ["r", "probe", "!err"] => s.flag s!"probe-error {line}"
    | "P" :: "objects" :: rest =>
      let l := jIds (rest.headD "")
      let s := l.foldl (fun s i => useLive s "objects()" line (some i)) s
      if s.sFresh then
        let want := (s.sLive.map (·.id)).filter (· ≥ 2)
        if want.all l.contains && l.all want.contains && !hasDup l then s else s.flag s!"objects-mismatch {line}"
      else s
    | "P" :: "heartbeats" :: rest =>
      let l := jIds (rest.headD "")
      let s := l.foldl (fun s i => useLive s "heart_beats()" line (some i)) s
      if s.sFresh then
        if l.all (fun i => (s.sLive.map (·.id)).contains i) && !hasDup l then s else s.flag s!"heartbeats-mismatch {line}"
      else s
    | "P" :: "livings" :: rest =>
      let l := jIds (rest.headD "")
      let s := l.foldl (fun s i => useLive s "livings()" line (some i)) s
      if s.sFresh then
        let want := ((s.sLive.filter (·.ec)).map (·.id)).filter (· ≥ 2)
        if want.all l.contains && l.all want.contains && !hasDup l then s else s.flag s!"livings-mismatch {line}"
      else s
    | "P" :: o :: more =>
      match jOid o, kv more "ref", kv more "find" with
      | some i, some ref, some find =>
        let fparts := find.splitOn "/"
        let fv := jOid (fparts.headD "")
        let fk := fparts.getD 1 "0"
        let s := useLive s "found" line fv
        let s := useLive s "reference-read" line (jOid ref)
        let s := if (fk == "1") != fv.isSome then s.flag s!"found-destructed find_object returned an object that is not live: {line}" else s
        let s := (jIds ((kv more "inv").getD "") ++ jIds ((kv more "walk").getD "")).foldl
                   (fun s m => useLive s "inventory" line (some m)) s
        let s := useLive s "environment" line ((kv more "env").bind jOid)
        let s := useLive s "found-living" line ((kv more "fl").bind jOid)
        if s.sFresh then
          match sFind s i with
          | none =>
            -- destructed (or never seen): reads as 0; its name finds nothing unless a live object carries it now
            let s := if ref == "0" then s else s.flag s!"destructed-reference-nonzero {line}"
            s
          | some so =>
            let s := if jOid ref == some i then s else s.flag s!"live-reference-lost {line}"
            let s := if fv == some i then s else s.flag s!"lookup-wrong find_object(name of o{i}) gave {find}: {line}"
            let s := if (kv more "env").bind jOid == so.env then s else s.flag s!"environment-mismatch {line}"
            let s := if jIds ((kv more "inv").getD "") == so.inv then s else s.flag s!"all_inventory-mismatch {line}"
            let s := if jIds ((kv more "walk").getD "") == so.inv then s else s.flag s!"first-next-inventory-mismatch {line}"
            match so.ln, (kv more "fl") with
            | some ln, some fl =>
              match jOid fl with
              | some r =>
                match sFind s r with
                | some ro => if ro.ec && ro.ln == some ln then s else s.flag s!"find_living-wrong {line}"
                | none => s.flag s!"find_living-wrong {line}"
              | none => if s.sLive.any (fun p => p.ec && p.ln == some ln) then s.flag s!"find_living-missed {line}" else s
            | _, _ => s
        else s
      | _, _, _ => s.flag s!"unexpected-line {line}"
    | "W" :: _ => s.flag s!"walker {line}"
    | "crash" :: _ => s.flag s!"crash {line}"
    | "sanitizer" :: _ => s.flag s!"memory-error {line}"
    | "hang" :: _ => s.flag s!"hang {line}"
    | ["fuel"] => s.flag s!"fuel {line}"
    | _ => s.flag s!"unexpected-line {line}"

/-- violations found on a trace, oldest first; `[]` = property held on this trace -/
def judge (trace : List String) : List String :=
  (closeSnapshot (trace.foldl judgeLine {})).bad.reverse

end NV.C08
