/-
C09 — backend_total: the invariant holds at the head of every loop iteration, for every history of external events,
every script oracle (incl. tasks that raise, disconnect themselves or others, destruct) and both modes.
-/
import NV.C09.TickLemmas

namespace NV.C09

theorem applyAction_same (w : W) (a : Action) : Same w (applyAction w a).1 := by
  cases a with
  | tick dt => exact ⟨rfl, rfl, rfl, rfl, rfl, rfl, rfl, rfl, rfl, by trx⟩
  | conn c => exact ⟨rfl, rfl, rfl, rfl, rfl, rfl, rfl, rfl, rfl, by trx⟩
  | send c t => simp only [applyAction]; split <;> exact Same.refl w
  | close c => simp only [applyAction]; split <;> exact ⟨rfl, rfl, rfl, rfl, rfl, rfl, rfl, rfl, rfl, by trx⟩
  | reset c => simp only [applyAction]; split <;> exact ⟨rfl, rfl, rfl, rfl, rfl, rfl, rfl, rfl, rfl, by trx⟩
  | cin t => simp only [applyAction]; split <;> exact Same.refl w
  | idle => exact Same.refl w

theorem applyAction_console (w : W) (a : Action) (t : String) (h : IoEv.console t ∈ (applyAction w a).2) :
    w.mode = .console := by
  cases a with
  | tick dt => simp [applyAction] at h
  | conn c => simp [applyAction] at h
  | send c t' => simp only [applyAction] at h; split at h <;> simp at h
  | close c => simp only [applyAction] at h; split at h <;> simp at h
  | reset c => simp only [applyAction] at h; split at h <;> simp at h
  | cin t' =>
    simp only [applyAction] at h
    split at h
    · assumption
    · simp at h
  | idle => simp [applyAction] at h

theorem applyActions_same : ∀ (as : List Action) (w : W), Same w (applyActions as w).1 := by
  intro as
  induction as with
  | nil => intro w; exact Same.refl w
  | cons a as ih => intro w; exact Same.trans (applyAction_same w a) (ih _)

theorem applyActions_console : ∀ (as : List Action) (w : W) (t : String),
    IoEv.console t ∈ (applyActions as w).2 → w.mode = .console := by
  intro as
  induction as with
  | nil => intro w t h; simp [applyActions] at h
  | cons a as ih =>
    intro w t h
    simp only [applyActions, List.mem_append] at h
    cases h with
    | inl h => exact applyAction_console w a t h
    | inr h =>
      have := ih _ t h
      rw [(applyAction_same w a).mode] at this
      exact this

/-- the loop is at its head: the invariant holds, in console mode the connection table exists, and the
    error-context chain is at its base (only backend()'s own context) -/
structure Good (w : W) : Prop where
  inv : Inv w
  console : w.mode = .console → w.users.isSome = true
  base : w.ctxDepth = 1

theorem Good.cstep {w w' : W} (g : Good w) (h : CStep w w') : Good w' := by
  obtain ⟨i, r⟩ := h g.inv
  exact ⟨i, fun hm => r.alloc (g.console (by rw [← r.mode]; exact hm)), by rw [r.ctx]; exact g.base⟩

theorem Good.recover {w : W} (g : Good w) : Good (recover w) :=
  ⟨g.inv.ctx_irrel 1, g.console, rfl⟩

/-- good at the end, and the trace grew by a well-formed block -/
def GT (w w' : W) : Prop := Good w' ∧ TrExt w w'

theorem GT.refl {w : W} (g : Good w) : GT w w := ⟨g, TrExt.refl w⟩
theorem GT.of_cstep {w w' : W} (g : Good w) (h : CStep w w') : GT w w' := ⟨g.cstep h, (h g.inv).2.tr⟩
theorem GT.then {a b c : W} (h1 : GT a b) (h2 : CStep b c) : GT a c :=
  ⟨h1.1.cstep h2, h1.2.trans (h2 h1.1.inv).2.tr⟩
theorem GT.trans {a b c : W} (h1 : GT a b) (h2 : GT b c) : GT a c := ⟨h2.1, h1.2.trans h2.2⟩
theorem GT.recover {a b : W} (h : GT a b) : GT a (recover b) := ⟨h.1.recover, h.2.trans (TrExt.of_eq rfl)⟩

theorem applyAction_trace (w : W) (a : Action) : (applyAction w a).1.trace = w.trace := by
  cases a with
  | tick dt => rfl
  | conn c => rfl
  | send c t => simp only [applyAction]; split <;> rfl
  | close c => simp only [applyAction]; split <;> rfl
  | reset c => simp only [applyAction]; split <;> rfl
  | cin t => simp only [applyAction]; split <;> rfl
  | idle => rfl

theorem applyActions_trace : ∀ (as : List Action) (w : W), (applyActions as w).1.trace = w.trace := by
  intro as
  induction as with
  | nil => intro w; rfl
  | cons a as ih => intro w; show (applyActions as (applyAction w a).1).1.trace = _; rw [ih, applyAction_trace]

theorem Good.emit {w : W} (g : Good w) (e : Ev) : Good (emit w e) :=
  ⟨⟨g.inv.crashed, g.inv.inError, g.inv.inMeh, g.inv.live, g.inv.inj, g.inv.len, g.inv.cur, g.inv.cur0, g.inv.bound⟩,
   g.console, g.base⟩

/-- the head of an iteration: turns granted, the marker `cycle n` is the one event, the outside world has acted -/
theorem cycleHead_good (n : Nat) (acts : List Action) (w : W) (g : Good w) :
    Good (cycleHead n acts w).1 ∧ (cycleHead n acts w).1.trace = Ev.cycle n :: w.trace ∧
    (∀ t, IoEv.console t ∈ (cycleHead n acts w).2 → w.mode = .console) ∧
    (cycleHead n acts w).1.mode = w.mode := by
  unfold cycleHead
  have s1 := mapAll_step w (fun c => { c with turn := true }) (fun _ => rfl) (fun _ h => h)
  have g1 : Good { w with users := w.users.map (fun l => l.map (fun s => s.map (fun c => { c with turn := true }))) } :=
    g.cstep s1.toC
  have g2 := g1.emit (.cycle n)
  have s3 := (applyActions_same acts (emit { w with users := w.users.map (fun l => l.map (fun s => s.map
      (fun c => { c with turn := true }))) } (.cycle n))).step
  refine ⟨g2.cstep s3.toC, ?_, ?_, ?_⟩
  · rw [applyActions_trace]; rfl
  · intro t ht
    have := applyActions_console acts _ t ht
    exact this
  · exact (s3 g2.inv).2.mode

theorem clearBacklog_same (w : W) : Same w (clearBacklog w) := ⟨rfl, rfl, rfl, rfl, rfl, rfl, rfl, rfl, rfl, by trx⟩
theorem setBacklog_same (w : W) (l : List IoEv) : Same w (setBacklog w l) :=
  ⟨rfl, rfl, rfl, rfl, rfl, rfl, rfl, rfl, rfl, by trx⟩

theorem pendingEvents_noConsole (w : W) (t : String) : IoEv.console t ∉ pendingEvents w := by
  unfold pendingEvents
  intro h
  have := (List.mem_filter.mp h).2
  simp [isConnEv] at this

theorem cycleBody_good (S : Scripts) (rh : HookFn) (hrh : HookOK rh) (k : Nat) (w : W) (evs : List IoEv)
    (g : Good w) (hc : ∀ t, IoEv.console t ∈ evs → w.mode = .console) :
    GT w (cycleBody S rh k w evs).1 := by
  unfold cycleBody
  have gc : GT w (clearBacklog w) := GT.of_cstep g (clearBacklog_same w).step.toC
  have g1 : GT w (if evs.isEmpty = true then (clearBacklog w, false) else processIo S rh (clearBacklog w) evs).1 := by
    split
    · exact gc
    · exact gc.then (processIo_cstep S rh hrh (clearBacklog w) evs (fun t ht => gc.1.console (hc t ht)))
  revert g1
  generalize (if evs.isEmpty = true then (clearBacklog w, false) else processIo S rh (clearBacklog w) evs) = r1
  intro g1
  simp only []
  split
  · exact (g1.then (setBacklog_same r1.1 _).step.toC).recover
  · have g2 : GT w (commandLoop rh k r1.1).1 := g1.then (commandLoop_step rh hrh k r1.1).toC
    split
    · exact g2.recover
    · split
      · have g3 : GT w (callHeartBeat rh (commandLoop rh k r1.1).1).1 :=
          g2.then (callHeartBeat_step rh hrh _).toC
        split
        · exact g3.recover
        · exact g3
      · exact g2

/-- blocks at the level of whole iterations: as `BlockOK`, but cycle markers may occur -/
structure BlockC (es : List Ev) : Prop where
  noCrash : ∀ e ∈ es, isCrash e = false
  report : reportOk es.reverse = true
  closed : ∀ who, es.head? ≠ some (.xErr who)

theorem BlockOK.toC {es : List Ev} (b : BlockOK es) : BlockC es := ⟨b.noCrash, b.report, b.closed⟩

theorem BlockC.append {a b : List Ev} (ha : BlockC a) (hb : BlockC b) : BlockC (b ++ a) := by
  refine ⟨?_, ?_, ?_⟩
  · intro e he
    rcases List.mem_append.mp he with h | h
    · exact hb.noCrash e h
    · exact ha.noCrash e h
  · rw [List.reverse_append]
    apply reportOk_append _ _ ha.report _ hb.report
    intro who
    rw [List.getLast?_reverse]
    exact ha.closed who
  · intro who
    cases b with
    | nil => exact ha.closed who
    | cons x xs => exact hb.closed who

/-- chronological list of the cycle markers of a (newest-first) trace -/
def markers (t : List Ev) : List Nat :=
  t.reverse.filterMap (fun e => match e with | .cycle k => some k | _ => none)

theorem markers_append (a b : List Ev) : markers (a ++ b) = markers b ++ markers a := by
  unfold markers; rw [List.reverse_append, List.filterMap_append]

theorem markers_noCycle (es : List Ev) (h : ∀ e ∈ es, isCycleEv e = false) : markers es = [] := by
  unfold markers
  rw [List.filterMap_eq_nil_iff]
  intro e he
  have := h e (List.mem_reverse.mp he)
  cases e <;> first | rfl | (simp [isCycleEv] at this)

/-- good at the end; the trace grew by a block that is well-formed up to cycle markers, and exactly the markers
    `ms` were added -/
def GTC (w w' : W) (ms : List Nat) : Prop :=
  Good w' ∧ ∃ es, w'.trace = es ++ w.trace ∧ BlockC es ∧ markers es = ms

theorem GT.toC {w w' : W} (h : GT w w') : GTC w w' [] := by
  obtain ⟨es, he, hb⟩ := h.2
  exact ⟨h.1, es, he, hb.toC, markers_noCycle es hb.noCycle⟩

theorem GTC.trans {a b c : W} {m1 m2 : List Nat} (h1 : GTC a b m1) (h2 : GTC b c m2) : GTC a c (m1 ++ m2) := by
  obtain ⟨_, e1, t1, b1, k1⟩ := h1
  obtain ⟨g2, e2, t2, b2, k2⟩ := h2
  exact ⟨g2, e2 ++ e1, by rw [t2, t1, List.append_assoc], b1.append b2, by rw [markers_append, k1, k2]⟩

theorem cycle_good (S : Scripts) (rh : HookFn) (hrh : HookOK rh) (n : Nat) (acts : List Action) (w : W)
    (g : Good w) : GTC w (cycle S rh n acts w).1 (if w.shutdown then [] else [n]) := by
  unfold cycle
  split
  · exact (GT.refl g).toC
  · obtain ⟨g1, ht, hc, hm⟩ := cycleHead_good n acts w g
    have hb := cycleBody_good S rh hrh ((slots w).filter Option.isSome).length _ _ g1
      (fun t ht' => by
        rw [hm]
        rcases List.mem_append.mp ht' with h | h
        · exact absurd h (pendingEvents_noConsole w t)
        · exact hc t h)
    have h1 : GTC w (cycleHead n acts w).1 [n] :=
      ⟨g1, [Ev.cycle n], ht, ⟨by simp [isCrash], rfl, by simp⟩, rfl⟩
    have := h1.trans hb.toC
    simpa using this

/-- the run of the scripted cycles appends consecutive markers `n, n+1, ...` (none any more once the driver has been
    shut down) -/
theorem runCycles_good (S : Scripts) (rh : HookFn) (hrh : HookOK rh) :
    ∀ (h : List (List Action)) (n : Nat) (w : W), Good w →
      ∃ m, GTC w (runCycles S rh n h w) (List.range' n m) := by
  intro h
  induction h with
  | nil => intro n w g; exact ⟨0, (GT.refl g).toC⟩
  | cons a as ih =>
    intro n w g
    have g1 := cycle_good S rh hrh n a w g
    obtain ⟨m, g2⟩ := ih (n + 1) _ g1.1
    by_cases hs : w.shutdown = true
    · -- shut down: this and every later iteration is left at once, the state does not change any more
      have e : (cycle S rh n a w).1 = w := by unfold cycle; simp [hs]
      have hstay : ∀ (as : List (List Action)) (k : Nat), runCycles S rh k as w = w := by
        intro as
        induction as with
        | nil => intro k; rfl
        | cons b bs ihb =>
          intro k
          show runCycles S rh (k + 1) bs (cycle S rh k b w).1 = w
          have : (cycle S rh k b w).1 = w := by unfold cycle; simp [hs]
          rw [this]; exact ihb (k + 1)
      refine ⟨0, ?_⟩
      show GTC w (runCycles S rh (n + 1) as (cycle S rh n a w).1) _
      rw [e, hstay]
      exact (GT.refl g).toC
    · simp only [hs, if_false] at g1
      refine ⟨m + 1, ?_⟩
      have := g1.trans g2
      have e : (if false = true then [] else [n]) ++ List.range' (n + 1) m = List.range' n (m + 1) := by
        simp [List.range'_succ]
      rw [e] at this
      exact this

/-- the idle driver: no connection at all (all_users == NULL), nothing in flight -/
structure Fresh (w : W) : Prop where
  users : w.users = none
  inter : ∀ o, w.inter o = none
  inError : w.inError = false
  inMeh : w.inMeh = false
  crashed : w.crashed = none
  nextUser : w.nextUser = 0

theorem Fresh.inv {w : W} (f : Fresh w) : Inv w := by
  refine ⟨f.crashed, f.inError, f.inMeh, ?_, ?_, ?_, ?_, fun _ => f.nextUser, ?_⟩
  · intro o id h; rw [f.inter o] at h; simp at h
  · intro o o' id h; rw [f.inter o] at h; simp at h
  · intro l h; rw [f.users] at h; simp at h
  · intro l h; rw [f.users] at h; simp at h
  · intro id _; unfold findConn slots; rw [f.users]; rfl

theorem initConsoleUser_users (S : Scripts) (rh : HookFn) (hrh : HookOK rh) (w : W) (inv : Inv w)
    (h : (slots w).headD none = none) : (initConsoleUser S rh w).1.users.isSome = true := by
  unfold initConsoleUser
  simp only []
  have hi := newInteractive_console_inter w 0 h
  have hu : (newInteractive w true 0).1.users.isSome = true := by
    have h' : ((slots w).headD none).isSome = false := by rw [h]; rfl
    unfold newInteractive
    simp only [Bool.true_and, h', Bool.false_eq_true, if_false]
    rfl
  obtain ⟨i1, _⟩ := newInteractive_cstep w true 0 inv
  split
  · rename_i hn; rw [hn] at hi; simp at hi
  · exact ((afterConnect_cstep S rh hrh _) i1).2.alloc hu

/-- backend() up to the loop, seen from the moment `start` has been logged: the state is good and everything else the
    start-up steps log comes AFTER that event -/
theorem startup_good_start (S : Scripts) (rh : HookFn) (hrh : HookOK rh) (w : W) (f : Fresh w) :
    GT (emit w .start) (startup S rh w) := by
  unfold startup
  simp only []
  -- save_context; the initial tick
  have i0 : Inv ({ (emit w .start) with ctxDepth := 1 } : W) := ((emit_same w .start).step f.inv).1.ctx_irrel 1
  obtain ⟨i1, r1⟩ := callHeartBeat_step rh hrh _ i0
  have hu1 : (callHeartBeat rh { (emit w .start) with ctxDepth := 1 }).1.users = none := by
    have := r1.ulen
    have e : ({ (emit w .start) with ctxDepth := 1 } : W).users = none := f.users
    rw [e] at this
    cases h : (callHeartBeat rh { (emit w .start) with ctxDepth := 1 }).1.users with
    | none => rfl
    | some l => rw [h] at this; simp at this
  have hm1 : (callHeartBeat rh { (emit w .start) with ctxDepth := 1 }).1.mode = w.mode := r1.mode
  have t1 : TrExt (emit w .start) (callHeartBeat rh { (emit w .start) with ctxDepth := 1 }).1 := r1.tr
  -- whether or not the initial tick left through the recovery point
  have g2 : ∀ v : W, (v = recover (callHeartBeat rh { (emit w .start) with ctxDepth := 1 }).1 ∨
      v = (callHeartBeat rh { (emit w .start) with ctxDepth := 1 }).1) →
      Inv v ∧ v.users = none ∧ v.ctxDepth = 1 ∧ TrExt (emit w .start) v := by
    intro v hv
    cases hv with
    | inl e => rw [e]; exact ⟨i1.ctx_irrel 1, hu1, rfl, t1.trans (TrExt.of_eq rfl)⟩
    | inr e => rw [e]; exact ⟨i1, hu1, by rw [r1.ctx], t1⟩
  generalize hv : (if (callHeartBeat rh { (emit w .start) with ctxDepth := 1 }).2 = true
      then recover (callHeartBeat rh { (emit w .start) with ctxDepth := 1 }).1
      else (callHeartBeat rh { (emit w .start) with ctxDepth := 1 }).1) = v
  have hv' : v = recover (callHeartBeat rh { (emit w .start) with ctxDepth := 1 }).1 ∨
      v = (callHeartBeat rh { (emit w .start) with ctxDepth := 1 }).1 := by
    rw [← hv]; split
    · exact Or.inl rfl
    · exact Or.inr rfl
  obtain ⟨iv, uv, cv, tv⟩ := g2 v hv'
  split
  · rename_i hcons
    have hs : (slots v).headD none = none := by unfold slots; rw [uv]; rfl
    obtain ⟨i3, r3⟩ := initConsoleUser_cstep S rh hrh v hs iv
    have u3 := initConsoleUser_users S rh hrh v iv hs
    split
    · exact ⟨⟨i3.ctx_irrel 1, fun _ => u3, rfl⟩, (tv.trans r3.tr).trans (TrExt.of_eq rfl)⟩
    · exact ⟨⟨i3, fun _ => u3, by rw [r3.ctx]; exact cv⟩, tv.trans r3.tr⟩
  · rename_i hnet
    exact ⟨⟨iv, fun hm => absurd hm hnet, cv⟩, tv⟩

theorem startup_good (S : Scripts) (rh : HookFn) (hrh : HookOK rh) (w : W) (f : Fresh w) :
    GT w (startup S rh w) :=
  let g := startup_good_start S rh hrh w f
  ⟨g.1, (TrExt.one (e := .start) rfl rfl).trans g.2⟩

theorem run_gt (S : Scripts) (w0 : W) (h : List (List Action)) (f : Fresh w0) :
    ∃ m, GTC w0 (run S w0 h) (List.range' 1 m) := by
  have g0 := startup_good S _ (runHook_ok S hookFuel) w0 f
  obtain ⟨m, g1⟩ := runCycles_good S _ (runHook_ok S hookFuel) h 1 _ g0.1
  have := g0.toC.trans g1
  rw [List.nil_append] at this
  exact ⟨m, this⟩

/-- **backend_total.**  Starting from the idle driver (no connection at all), for every script oracle `S` (what every
    command, process_input, logon, net_dead, heart_beat, call_out, reset hook does - succeed, raise, raise inside a
    catch, destruct/disconnect itself or others - and what the master's connect() and error handler do: ok / raises /
    raises recursively, switchable at any time), for both modes and for EVERY finite history `h` of external events
    (ticks, connections, partial / complete input, disconnections, console input), the run never reaches `crash`
    (no NULL `all_users` / `master_ob->interactive` dereference, no use of a freed connection record, cursor inside
    the table), and the loop is back at its head with in_error = in_mudlib_error_handler = false and the error-context
    chain at its base.  Since this holds for every `h`, it holds after every cycle (every prefix of a history). -/
theorem backend_total (S : Scripts) (w0 : W) (h : List (List Action)) (f : Fresh w0) :
    (run S w0 h).crashed = none ∧ (run S w0 h).inError = false ∧ (run S w0 h).inMeh = false ∧
    (run S w0 h).ctxDepth = 1 := by
  have g : Good (run S w0 h) := (run_gt S w0 h f).choose_spec.1
  exact ⟨g.inv.crashed, g.inv.inError, g.inv.inMeh, g.base⟩

/-- the same after every cycle, spelled out: for every prefix of the history -/
theorem backend_total_prefix (S : Scripts) (w0 : W) (h : List (List Action)) (k : Nat) (f : Fresh w0) :
    (run S w0 (h.take k)).crashed = none ∧ (run S w0 (h.take k)).inError = false ∧
    (run S w0 (h.take k)).inMeh = false ∧ (run S w0 (h.take k)).ctxDepth = 1 :=
  backend_total S w0 (h.take k) f

/-- a record that an object points to is never freed behind its back: at the head of every cycle every interactive
    pointer refers to a live record, and no two objects share one - so every `ip` that passes VALIDATE_IP is live -/
theorem freed_conn_never_used_run (S : Scripts) (w0 : W) (h : List (List Action)) (f : Fresh w0) (o : Oid) (id : Nat)
    (hi : (run S w0 h).inter o = some id) : (findConn (run S w0 h) id).isSome = true ∧
      useConn (run S w0 h) id = run S w0 h := by
  have g : Good (run S w0 h) := (run_gt S w0 h f).choose_spec.1
  exact ⟨g.inv.live o id hi, useConn_live _ id (g.inv.live o id hi)⟩

end NV.C09
