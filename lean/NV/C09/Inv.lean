/-
C09 — the invariant of the backend model and the step relations used to thread it through every function.
-/
import NV.C09.Model
import NV.C09.Spec

namespace NV.C09

/-! ## slot-table lemmas -/

theorem findIn_nil (id : Nat) : findIn [] id = none := rfl
theorem findIn_none (l : List (Option Conn)) (id : Nat) : findIn (none :: l) id = findIn l id := rfl
theorem findIn_eq (c : Conn) (l : List (Option Conn)) (id : Nat) (h : c.id = id) :
    findIn (some c :: l) id = some c := by simp [findIn, h]
theorem findIn_ne (c : Conn) (l : List (Option Conn)) (id : Nat) (h : c.id ≠ id) :
    findIn (some c :: l) id = findIn l id := by simp [findIn, h]
theorem mapSlot_eq (id0 : Nat) (f : Conn → Conn) (c : Conn) (h : c.id = id0) :
    mapSlot id0 f (some c) = some (f c) := by simp [mapSlot, h]
theorem mapSlot_ne (id0 : Nat) (f : Conn → Conn) (c : Conn) (h : c.id ≠ id0) :
    mapSlot id0 f (some c) = some c := by simp [mapSlot, h]
theorem freeSlot_cons (x : Option Conn) (xs : List (Option Conn)) (id0 : Nat) :
    freeSlot (x :: xs) id0 = (if hasId id0 x then none else x) :: freeSlot xs id0 := rfl
theorem hasId_some (id0 : Nat) (c : Conn) : hasId id0 (some c) = decide (c.id = id0) := by
  simp only [hasId]
  by_cases h : c.id = id0
  · simp [h]
  · simp [h]
theorem hasId_none (id0 : Nat) : hasId id0 none = false := rfl

theorem findIn_map (id0 : Nat) (f : Conn → Conn) (hf : ∀ c, (f c).id = c.id) :
    ∀ (l : List (Option Conn)) (id : Nat),
      findIn (l.map (mapSlot id0 f)) id = (findIn l id).map (fun c => if c.id = id0 then f c else c) := by
  intro l id
  induction l with
  | nil => rfl
  | cons x xs ih =>
    cases x with
    | none => rw [List.map_cons]; show findIn (none :: _) id = _; rw [findIn_none, findIn_none, ih]
    | some c =>
      rw [List.map_cons]
      by_cases h0 : c.id = id0
      · rw [mapSlot_eq _ _ _ h0]
        by_cases h : c.id = id
        · rw [findIn_eq _ _ _ (by rw [hf]; exact h), findIn_eq _ _ _ h]; simp [h0]
        · rw [findIn_ne _ _ _ (by rw [hf]; exact h), findIn_ne _ _ _ h, ih]
      · rw [mapSlot_ne _ _ _ h0]
        by_cases h : c.id = id
        · rw [findIn_eq _ _ _ h, findIn_eq _ _ _ h]; simp [h0]
        · rw [findIn_ne _ _ _ h, findIn_ne _ _ _ h, ih]

theorem findIn_free (id0 : Nat) : ∀ (l : List (Option Conn)) (id : Nat), id ≠ id0 →
    findIn (freeSlot l id0) id = findIn l id := by
  intro l id hne
  induction l with
  | nil => rfl
  | cons x xs ih =>
    rw [freeSlot_cons]
    cases x with
    | none => rw [hasId_none]; simp only [Bool.false_eq_true, if_false]; rw [findIn_none, findIn_none, ih]
    | some c =>
      rw [hasId_some]
      by_cases h0 : c.id = id0
      · have hc : c.id ≠ id := by rw [h0]; exact fun h => hne h.symm
        simp only [h0, decide_true, if_true]
        rw [findIn_none, findIn_ne _ _ _ hc, ih]
      · simp only [h0, decide_false, Bool.false_eq_true, if_false]
        by_cases h : c.id = id
        · rw [findIn_eq _ _ _ h, findIn_eq _ _ _ h]
        · rw [findIn_ne _ _ _ h, findIn_ne _ _ _ h, ih]

theorem findIn_append_none (n : Nat) : ∀ (l : List (Option Conn)) (id : Nat),
    findIn (l ++ List.replicate n none) id = findIn l id := by
  intro l id
  induction l with
  | nil =>
    induction n with
    | zero => rfl
    | succ n ih => simpa [List.replicate, findIn] using ih
  | cons x xs ih =>
    cases x with
    | none => simpa [findIn] using ih
    | some c => by_cases h : c.id = id <;> simp [findIn, h, ih]

theorem findIn_set_other (cn : Conn) : ∀ (l : List (Option Conn)) (i id : Nat), l[i]? = some none → id ≠ cn.id →
    findIn (l.set i (some cn)) id = findIn l id := by
  intro l
  induction l with
  | nil => intro i id h; simp at h
  | cons x xs ih =>
    intro i id h hne
    cases i with
    | zero =>
      simp at h
      subst h
      have : cn.id ≠ id := fun h => hne h.symm
      simp [findIn, this]
    | succ i =>
      simp at h
      cases x with
      | none => simpa [findIn] using ih i id h hne
      | some c => by_cases hc : c.id = id <;> simp [findIn, hc, ih i id h hne]

theorem findIn_set_new (cn : Conn) : ∀ (l : List (Option Conn)) (i : Nat), l[i]? = some none →
    findIn l cn.id = none → findIn (l.set i (some cn)) cn.id = some cn := by
  intro l
  induction l with
  | nil => intro i h; simp at h
  | cons x xs ih =>
    intro i h hn
    cases i with
    | zero => simp [findIn]
    | succ i =>
      simp at h
      cases x with
      | none => simpa [findIn] using ih i h (by simpa [findIn] using hn)
      | some c =>
        by_cases hc : c.id = cn.id
        · simp [findIn, hc] at hn
        · simp [findIn, hc] at hn ⊢
          exact ih i h hn

theorem firstNone_spec : ∀ (l : List (Option Conn)) (i : Nat),
    i ≤ firstNone l i ∧ firstNone l i - i ≤ l.length ∧
    (firstNone l i - i < l.length → l[firstNone l i - i]? = some none) := by
  intro l
  induction l with
  | nil => intro i; simp [firstNone]
  | cons x xs ih =>
    intro i
    cases x with
    | none => simp [firstNone]
    | some c =>
      obtain ⟨h1, h2, h3⟩ := ih (i + 1)
      simp only [firstNone]
      refine ⟨by omega, by simp; omega, ?_⟩
      intro hlt
      have e : firstNone xs (i + 1) - i = (firstNone xs (i + 1) - (i + 1)) + 1 := by omega
      rw [e]
      simp only [List.getElem?_cons_succ]
      apply h3
      simp at hlt; omega

/-- the slot picked by new_interactive() is empty after the table has been grown -/
theorem firstFree_slot_empty (l : List (Option Conn)) (n : Nat) (hn : 2 ≤ n) :
    (if firstFree l ≥ l.length then l ++ List.replicate n none else l)[firstFree l]? = some none := by
  cases l with
  | nil =>
    simp only [firstFree, List.length_nil, ge_iff_le, Nat.zero_le, if_true, List.nil_append]
    rw [List.getElem?_replicate]; simp; omega
  | cons x xs =>
    obtain ⟨h1, h2, h3⟩ := firstNone_spec xs 1
    simp only [firstFree]
    by_cases hge : firstNone xs 1 ≥ (x :: xs).length
    · simp only [hge, if_true]
      have e : firstNone xs 1 = (x :: xs).length := by simp at hge ⊢; omega
      rw [e, List.getElem?_append_right (Nat.le_refl _)]
      rw [List.getElem?_replicate]; simp; omega
    · simp only [hge, if_false]
      have e : firstNone xs 1 = (firstNone xs 1 - 1) + 1 := by omega
      rw [e]
      simp only [List.getElem?_cons_succ]
      apply h3
      simp at hge; omega


/-! ## trace blocks -/

/-- an event that is neither a crash nor the announcement of an uncaught error -/
def quiet : Ev → Bool
  | .crash _ => false
  | .xErr _ => false
  | .cycle _ => false
  | _ => true

def isCycleEv : Ev → Bool
  | .cycle _ => true
  | _ => false

/-- a block of events (newest first) appended by a step: no crash event; chronologically every `x err who` is
    directly followed by its report `meh 0 boom who` (the judge's `reportOk`), in particular none is left dangling -/
structure BlockOK (es : List Ev) : Prop where
  noCrash : ∀ e ∈ es, isCrash e = false
  report : reportOk es.reverse = true
  closed : ∀ who, es.head? ≠ some (.xErr who)
  noCycle : ∀ e ∈ es, isCycleEv e = false

theorem reportOk_append : ∀ (a b : List Ev), reportOk a = true → (∀ who, a.getLast? ≠ some (.xErr who)) →
    reportOk b = true → reportOk (a ++ b) = true := by
  intro a
  induction a with
  | nil => intro b _ _ hb; exact hb
  | cons e rest ih =>
    intro b ha hl hb
    have hl' : rest ≠ [] → ∀ who, rest.getLast? ≠ some (.xErr who) := by
      intro hne who
      have := hl who
      rwa [List.getLast?_cons_of_ne_nil hne] at this
    cases e with
    | xErr who =>
      cases rest with
      | nil => simp [reportOk] at ha
      | cons m r =>
        simp only [reportOk, Bool.and_eq_true] at ha
        simp only [List.cons_append, reportOk, Bool.and_eq_true]
        refine ⟨?_, ih b ha.2 (hl' (by simp)) hb⟩
        have h1 := ha.1
        cases m with
        | meh c msg => cases c <;> exact h1
        | _ => exact h1
    | _ =>
      all_goals
        simp only [reportOk] at ha
        simp only [List.cons_append, reportOk]
        cases rest with
        | nil => exact hb
        | cons m r => exact ih b ha (hl' (by simp)) hb

theorem BlockOK.nil : BlockOK [] := ⟨by simp, rfl, by simp, by simp⟩

theorem BlockOK.single (e : Ev) (q : quiet e = true) : BlockOK [e] := by
  cases e <;> first
    | (simp [quiet] at q; done)
    | exact ⟨by simp [isCrash], rfl, by simp, by simp [isCycleEv]⟩

/-- block `b` appended after block `a` (newest first: `b ++ a`) -/
theorem BlockOK.append {a b : List Ev} (ha : BlockOK a) (hb : BlockOK b) : BlockOK (b ++ a) := by
  refine ⟨?_, ?_, ?_, ?_⟩
  rotate_left 3
  · intro e he
    rcases List.mem_append.mp he with h | h
    · exact hb.noCycle e h
    · exact ha.noCycle e h
  · intro e he
    rcases List.mem_append.mp he with h | h
    · exact hb.noCrash e h
    · exact ha.noCrash e h
  · rw [List.reverse_append]
    apply reportOk_append _ _ ha.report _ hb.report
    intro who
    rw [List.getLast?_reverse]
    exact ha.closed who
  · intro who
    cases b with
    | nil => exact ha.closed who
    | cons x xs => exact hb.closed who

/-- the trace of `w'` extends the trace of `w` by a well-formed block -/
def TrExt (w w' : W) : Prop := ∃ es, w'.trace = es ++ w.trace ∧ BlockOK es

theorem TrExt.of_eq {w w' : W} (h : w'.trace = w.trace) : TrExt w w' := ⟨[], by simpa using h, BlockOK.nil⟩
theorem TrExt.refl (w : W) : TrExt w w := TrExt.of_eq rfl
theorem TrExt.one {w w' : W} {e : Ev} (h : w'.trace = e :: w.trace) (q : quiet e = true) : TrExt w w' :=
  ⟨[e], h, BlockOK.single e q⟩
theorem TrExt.trans {a b c : W} (h1 : TrExt a b) (h2 : TrExt b c) : TrExt a c := by
  obtain ⟨e1, t1, b1⟩ := h1
  obtain ⟨e2, t2, b2⟩ := h2
  exact ⟨e2 ++ e1, by rw [t2, t1, List.append_assoc], b1.append b2⟩

/-- trace part of a frame step: unchanged, or one quiet event -/
macro "trx" : tactic => `(tactic| first | exact TrExt.of_eq rfl | exact TrExt.one rfl rfl)

/-! ## the invariant -/

/-- What holds at every point where LPC code may run or the loop is at its head:
    no crash so far; error_handler's flags clear; every interactive pointer of an object points to a live record,
    and no two objects share one; the table, once allocated, is non-empty and the rotating cursor is inside it;
    serials at or above `nextConnId` are unused. -/
structure Inv (w : W) : Prop where
  crashed : w.crashed = none
  inError : w.inError = false
  inMeh : w.inMeh = false
  live : ∀ o id, w.inter o = some id → (findConn w id).isSome = true
  inj : ∀ o o' id, w.inter o = some id → w.inter o' = some id → o = o'
  len : ∀ l, w.users = some l → 0 < l.length
  cur : ∀ l, w.users = some l → w.nextUser < l.length
  cur0 : w.users = none → w.nextUser = 0
  bound : ∀ id, w.nextConnId ≤ id → findConn w id = none

/-- what a callback (hook) may do to the state, as far as its caller relies on it: records marked CLOSING stay
    (only their own remove_interactive frees them), the table is neither allocated nor grown, mode and the
    error-context depth are as before -/
structure Rel (w w' : W) : Prop where
  closing : ∀ id c, findConn w id = some c → c.closing = true →
      ∃ c', findConn w' id = some c' ∧ c'.closing = true
  owner : ∀ id c o, findConn w id = some c → c.closing = true → w.inter o = some id → w'.inter o = some id
  ulen : w'.users.map List.length = w.users.map List.length
  mode : w'.mode = w.mode
  ctx : w'.ctxDepth = w.ctxDepth
  tr : TrExt w w'

/-- the weaker relation of the steps that may accept connections -/
structure CRel (w w' : W) : Prop where
  alloc : w.users.isSome = true → w'.users.isSome = true
  mode : w'.mode = w.mode
  ctx : w'.ctxDepth = w.ctxDepth
  tr : TrExt w w'

def Step (w w' : W) : Prop := Inv w → Inv w' ∧ Rel w w'
def CStep (w w' : W) : Prop := Inv w → Inv w' ∧ CRel w w'

theorem Rel.refl (w : W) : Rel w w := ⟨fun _ c h hc => ⟨c, h, hc⟩, fun _ _ _ _ _ h => h, rfl, rfl, rfl, TrExt.refl w⟩

theorem Rel.trans {a b c : W} (h1 : Rel a b) (h2 : Rel b c) : Rel a c := by
  refine ⟨?_, ?_, by rw [h2.ulen, h1.ulen], by rw [h2.mode, h1.mode], by rw [h2.ctx, h1.ctx], h1.tr.trans h2.tr⟩
  · intro id x hx hc
    obtain ⟨y, hy, hyc⟩ := h1.closing id x hx hc
    exact h2.closing id y hy hyc
  · intro id x o hx hc ho
    obtain ⟨y, hy, hyc⟩ := h1.closing id x hx hc
    exact h2.owner id y o hy hyc (h1.owner id x o hx hc ho)

theorem CRel.refl (w : W) : CRel w w := ⟨id, rfl, rfl, TrExt.refl w⟩

theorem CRel.trans {a b c : W} (h1 : CRel a b) (h2 : CRel b c) : CRel a c :=
  ⟨fun h => h2.alloc (h1.alloc h), by rw [h2.mode, h1.mode], by rw [h2.ctx, h1.ctx], h1.tr.trans h2.tr⟩

theorem Rel.toCRel {a b : W} (h : Rel a b) : CRel a b := by
  refine ⟨?_, h.mode, h.ctx, h.tr⟩
  intro hs
  have := h.ulen
  cases ha : a.users with
  | none => simp [ha] at hs
  | some l =>
    rw [ha] at this
    cases hb : b.users with
    | none => simp [hb] at this
    | some _ => rfl

theorem Step.refl (w : W) : Step w w := fun h => ⟨h, Rel.refl w⟩
theorem Step.trans {a b c : W} (h1 : Step a b) (h2 : Step b c) : Step a c := fun h =>
  let ⟨i1, r1⟩ := h1 h
  let ⟨i2, r2⟩ := h2 i1
  ⟨i2, r1.trans r2⟩
theorem CStep.refl (w : W) : CStep w w := fun h => ⟨h, CRel.refl w⟩
theorem CStep.trans {a b c : W} (h1 : CStep a b) (h2 : CStep b c) : CStep a c := fun h =>
  let ⟨i1, r1⟩ := h1 h
  let ⟨i2, r2⟩ := h2 i1
  ⟨i2, r1.trans r2⟩
theorem Step.toC {a b : W} (h : Step a b) : CStep a b := fun i => ⟨(h i).1, (h i).2.toCRel⟩

/-- the fields the invariant and the relations look at are unchanged -/
structure Same (w w' : W) : Prop where
  users : w'.users = w.users
  inter : w'.inter = w.inter
  nextUser : w'.nextUser = w.nextUser
  nextConnId : w'.nextConnId = w.nextConnId
  crashed : w'.crashed = w.crashed
  inError : w'.inError = w.inError
  inMeh : w'.inMeh = w.inMeh
  mode : w'.mode = w.mode
  ctx : w'.ctxDepth = w.ctxDepth
  tr : TrExt w w'

theorem Same.refl (w : W) : Same w w := ⟨rfl, rfl, rfl, rfl, rfl, rfl, rfl, rfl, rfl, TrExt.refl w⟩
theorem Same.trans {a b c : W} (h1 : Same a b) (h2 : Same b c) : Same a c :=
  ⟨by rw [h2.users, h1.users], by rw [h2.inter, h1.inter], by rw [h2.nextUser, h1.nextUser],
   by rw [h2.nextConnId, h1.nextConnId], by rw [h2.crashed, h1.crashed], by rw [h2.inError, h1.inError],
   by rw [h2.inMeh, h1.inMeh], by rw [h2.mode, h1.mode], by rw [h2.ctx, h1.ctx], h1.tr.trans h2.tr⟩

theorem findConn_congr {w w' : W} (h : w'.users = w.users) (id : Nat) : findConn w' id = findConn w id := by
  unfold findConn slots; rw [h]

theorem Same.step {w w' : W} (h : Same w w') : Step w w' := by
  intro i
  refine ⟨⟨by rw [h.crashed]; exact i.crashed, by rw [h.inError]; exact i.inError, by rw [h.inMeh]; exact i.inMeh,
      ?_, ?_, ?_, ?_, ?_, ?_⟩, ?_, ?_, by rw [h.users], h.mode, h.ctx, h.tr⟩
  · intro o id ho; rw [findConn_congr h.users]; rw [h.inter] at ho; exact i.live o id ho
  · intro o o' id h1 h2; rw [h.inter] at h1 h2; exact i.inj o o' id h1 h2
  · intro l hl; rw [h.users] at hl; exact i.len l hl
  · intro l hl; rw [h.users] at hl; rw [h.nextUser]; exact i.cur l hl
  · intro hn; rw [h.users] at hn; rw [h.nextUser]; exact i.cur0 hn
  · intro id hid; rw [findConn_congr h.users]; rw [h.nextConnId] at hid; exact i.bound id hid
  · intro id c hc hcl; exact ⟨c, by rw [findConn_congr h.users]; exact hc, hcl⟩
  · intro id c o _ _ ho; rw [h.inter]; exact ho

/-- the invariant does not look at the context depth -/
theorem Inv.ctx_irrel {w : W} (i : Inv w) (n : Nat) : Inv { w with ctxDepth := n } :=
  ⟨i.crashed, i.inError, i.inMeh, i.live, i.inj, i.len, i.cur, i.cur0, i.bound⟩

/-- push / pop of an error context around a step -/
theorem Step.bracket {w w2 : W} (h : Step (pushCtx w) w2) : Step w (popCtx w2) := by
  intro i
  obtain ⟨i2, r⟩ := h (i.ctx_irrel _)
  refine ⟨i2.ctx_irrel _, ?_, ?_, r.ulen, r.mode, ?_, ?_⟩
  · intro id c hc hcl
    exact r.closing id c hc hcl
  · intro id c o hc hcl ho
    exact r.owner id c o hc hcl ho
  rotate_left
  · obtain ⟨es, t, b⟩ := r.tr
    exact ⟨es, t, b⟩
  · show w2.ctxDepth - 1 = w.ctxDepth
    have := r.ctx
    have e : (pushCtx w).ctxDepth = w.ctxDepth + 1 := rfl
    omega

end NV.C09
