import NV.C09.Model
import NV.C09.Spec
namespace NV.C09
end NV.C09
