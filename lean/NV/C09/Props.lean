/-
C09 — property theorems over the model `Backend` (NV/C09/Model.lean).  PARTIAL.

Proved here (all for every state / script / message, no bounds):
  * the heart-beat shut-off of error_handler() removes exactly current_heart_beat (`only_failing_hb_removed`,
    `error_keeps_other_heart_beats`) and nothing when no heart beat is running;
  * the master handler step of error_handler() (behaviours ok / raise) leaves with the flag protocol intact and touches
    no pending task (`flags_clear_after_error`, `pending_tasks_preserved`);
  * the recovery point of backend() keeps every pending task and puts the context chain at its base
    (`recover_preserves_pending`);
  * the call_out sweep continues after a failing call_out (`callout_sweep_continues_after_error`);
  * a connection record that passed the re-validation is live, so the uses after VALIDATE_IP cannot touch a freed
    record (`freed_conn_never_used`);
  * the repaired defect 1 at model level: a timer wake-up with all_users == NULL is harmless (`idle_tick_no_crash`).

NOT closed in the time budget (kept as `def ... : Prop`, see notes/C09.md): `Backend_total_Full` - the global invariant
over all histories (run h never crashes, flags clear and context chain at base after every cycle).  Its runtime
counterpart is checked on every generated history: the model's `crash` event would appear in the model trace and
differ from the implementation trace.
-/
import NV.C09.Model
import NV.C09.Spec
import NV.C09.Lemmas

namespace NV.C09

/-- idle driver: no connection at all, flags clear -/
def Fresh (w : W) : Prop :=
  w.users = none ∧ (∀ o, w.inter o = none) ∧ w.inError = false ∧ w.inMeh = false ∧ w.crashed = none ∧
  w.curHb = none ∧ w.nextUser = 0

/-- FULL statement of `backend_total` (not proved; see the header) -/
def Backend_total_Full : Prop :=
  ∀ (S : Scripts) (w0 : W) (h : List (List Action)), Fresh w0 →
    (run S w0 h).crashed = none ∧ (run S w0 h).inError = false ∧ (run S w0 h).inMeh = false ∧
    (run S w0 h).ctxDepth = 1

/-- An error in a heart_beat switches off exactly that object's heart beat: the shut-off step of error_handler()
    erases current_heart_beat from the table and clears it. -/
theorem only_failing_hb_removed (w : W) (o : Oid) (hc : w.curHb = some o) (hd : w.dead o = false) :
    (hbOff w).hbs = w.hbs.erase o ∧ (hbOff w).curHb = none := by
  refine ⟨?_, hbOff_curHb w⟩
  rw [hbOff_hbs]; simp [hbsAfterOff, hc, hd]

example : (hbOff { hbs := [.obj 1, .obj 2, .user 1], curHb := some (.obj 2) }).hbs = [.obj 1, .user 1] := by
  decide

/-- ... and every other object's heart beat stays switched on (or off) as it was; with no heart beat running
    (error in a command, call_out, reset, logon ...) the table is untouched. -/
theorem error_keeps_other_heart_beats (w : W) (x : Oid) :
    (w.curHb = none → (hbOff w).hbs = w.hbs) ∧
    (∀ o, w.curHb = some o → x ≠ o → (x ∈ (hbOff w).hbs ↔ x ∈ w.hbs)) := by
  constructor
  · intro h; rw [hbOff_hbs]; simp [hbsAfterOff, h]
  · intro o hc hne
    rw [hbOff_hbs]
    simp only [hbsAfterOff, hc]
    split
    · exact Iff.rfl
    · exact List.mem_erase_of_ne hne

example : Oid.obj 1 ∈ (hbOff { hbs := [.obj 1, .obj 2], curHb := some (.obj 2) }).hbs := by decide

/-- error_handler()'s flag protocol (handler behaviours ok / raise): entered with in_error = 0, the master-handler
    step either returns with nothing changed but the report, or leaves through the nested error with both flags clear
    and the shut-off done. -/
theorem flags_clear_after_error (fuel : Nat) (w : W) (msg : String) (h : w.inError = false) (hm : w.meh ≠ .recurse) :
    (callMasterHandler fuel w msg).1.inError = false ∧
    ((callMasterHandler fuel w msg).2 = true → (callMasterHandler fuel w msg).1.inMeh = false) := by
  have hc := callMasterHandler_core fuel w msg h hm
  cases hr : (callMasterHandler fuel w msg).2 with
  | true =>
    have j := hc.2 hr
    simp only [core, Core.mk.injEq] at j
    exact ⟨j.1, fun _ => j.2.1⟩
  | false =>
    have j := (hc.1 hr).1
    simp only [core, Core.mk.injEq] at j
    exact ⟨by rw [j.1, h], fun h' => by simp at h'⟩

example : (callMasterHandler 3 { meh := .raise, inMeh := true } "boom").2 = true := by decide

/-- Pending tasks of everybody else survive the error path: the master-handler step of error_handler() leaves the
    connection table with all buffered commands, the pending call_outs and the error-context depth untouched, and the
    heart-beat table changes only by the shut-off of current_heart_beat. -/
theorem pending_tasks_preserved (fuel : Nat) (w : W) (msg : String) (h : w.inError = false) (hm : w.meh ≠ .recurse) :
    (callMasterHandler fuel w msg).1.users = w.users ∧
    (callMasterHandler fuel w msg).1.callouts = w.callouts ∧
    (callMasterHandler fuel w msg).1.ctxDepth = w.ctxDepth ∧
    ((callMasterHandler fuel w msg).1.hbs = w.hbs ∨ (callMasterHandler fuel w msg).1.hbs = hbsAfterOff w) := by
  have hc := callMasterHandler_core fuel w msg h hm
  cases hr : (callMasterHandler fuel w msg).2 with
  | true =>
    have j := hc.2 hr
    simp only [core, Core.mk.injEq] at j
    exact ⟨j.2.2.2.2.1, j.2.2.2.2.2.1, j.2.2.2.2.2.2.1, Or.inr j.2.2.2.1⟩
  | false =>
    have j := (hc.1 hr).1
    simp only [core, Core.mk.injEq] at j
    exact ⟨j.2.2.2.2.1, j.2.2.2.2.2.1, j.2.2.2.2.2.2.1, Or.inl j.2.2.2.1⟩

/-- the recovery point of backend() (restore_context at the setjmp): nothing pending is lost, nothing is re-run,
    the context chain is at its base -/
theorem recover_preserves_pending (w : W) :
    (recover w).users = w.users ∧ (recover w).callouts = w.callouts ∧ (recover w).hbs = w.hbs ∧
    (recover w).hbFlag = w.hbFlag ∧ (recover w).inter = w.inter ∧ (recover w).ctxDepth = 1 ∧
    (recover w).trace = w.trace := ⟨rfl, rfl, rfl, rfl, rfl, rfl, rfl⟩

/-- call_out(): an error in one call_out does not end the sweep - the sweep is the same function of the states the
    callbacks leave behind whether or not they raised (each call_out runs under call_out()'s own recovery point). -/
theorem callout_sweep_continues_after_error (rh : HookFn) : ∀ (n : Nat) (w : W),
    sweepCallOuts rh n w = sweepCallOuts (fun w o k => ((rh w o k).1, false)) n w := by
  intro n
  induction n with
  | zero => intro w; rfl
  | succ n ih =>
    intro w
    unfold sweepCallOuts
    split
    · rfl
    · split
      · split <;> (simp only []; split <;> first | exact ih _ | (simp only []; exact ih _))
      · rfl

/-- Re-validation makes the later uses safe: if every interactive pointer of an object points to a live record
    (invariant I_a), then after `VALIDATE_IP (ip, command_giver)` succeeded the uses of `ip` do not touch a freed
    record. -/
theorem freed_conn_never_used (w : W) (o : Oid) (id : Nat)
    (inv : ∀ o id, w.inter o = some id → (findConn w id).isSome = true)
    (hvalid : w.inter o = some id) : (useConn w id).crashed = w.crashed := by
  unfold useConn
  have := inv o id hvalid
  cases h : findConn w id with
  | some c => rfl
  | none => simp [h] at this

/-- repaired defect 1 at model level: the first timer wake-up of an idle driver (all_users == NULL) -/
theorem idle_tick_no_crash (S : Scripts) (rh : HookFn) (w : W) (h : w.users = none) :
    (processIo S rh w [.wakeup]).1.crashed = w.crashed := by
  simp [processIo, processIoEvents, ioEvent, h]

end NV.C09
