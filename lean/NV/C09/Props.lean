/-
C09 — property theorems over the model `Backend` (NV/C09/Model.lean).  PARTIAL only in the sense of the property
label: the theorems are about the control-flow / bookkeeping model; memory errors inside arbitrary failing tasks, real
signal delivery and the OS are observed by the sanitizer runs of the correspondence harness.

  backend_total, backend_total_prefix   (NV/C09/Total.lean)  no crash, flags clear, context chain at base - every
                                        history x every oracle x both modes x every master-handler behaviour
  freed_conn_never_used_run             (NV/C09/Total.lean)  interactive pointers are live at every loop head
  only_failing_hb_removed, error_keeps_other_heart_beats     the shut-off step removes exactly current_heart_beat
  flags_clear_after_error               error_handler() restores (in_error, in_mudlib_error_handler) = (0, 0)
  pending_tasks_preserved               error_handler() leaves buffered commands, call_outs, connections untouched
  recover_preserves_pending             backend()'s recovery point loses nothing and re-runs nothing
  callout_sweep_continues_after_error   the call_out sweep does not depend on whether callbacks raised
  freed_conn_never_used                 re-validation makes the uses after VALIDATE_IP safe
  idle_tick_no_crash                    repaired defect 1 at model level
  hooks_keep_invariant                  whatever a task does (any nesting), the invariant survives it
-/
import NV.C09.TraceThms
import NV.C09.Lemmas
import NV.C09.Spec

namespace NV.C09

example : Fresh ({} : W) := ⟨rfl, fun _ => rfl, rfl, rfl, rfl, rfl⟩

/-- non-vacuity of the trace-level clauses: they apply to a run in which errors are raised in three task kinds
    under a recursively failing master handler -/
example :
    let S : Scripts := { hook := fun o k => match o, k with
                            | .obj _, .hb => [.err]
                            | .user _, .cmd "boom" => [.cerr, .err]
                            | .user _, .netdead => [.err]
                            | _, _ => [.ok],
                         connect := fun _ => .ok }
    clauseCrash (events S { meh := .recurse, hbs := [.obj 1] } [[.tick 2], [.conn 1], [.send 1 "boom/"], [.close 1]]) = [] ∧
    clauseReport (events S { meh := .recurse, hbs := [.obj 1] } [[.tick 2], [.conn 1], [.send 1 "boom/"], [.close 1]]) = [] :=
  ⟨judge_crash_clause _ _ _ ⟨rfl, fun _ => rfl, rfl, rfl, rfl, rfl⟩ rfl,
   judge_report_clause _ _ _ ⟨rfl, fun _ => rfl, rfl, rfl, rfl, rfl⟩ rfl⟩
example : Fresh ({ mode := .console, meh := .recurse, hbs := [.obj 1, .obj 2],
                   callouts := [{ owner := .obj 1, tag := "p", due := T0 + 3 }] } : W) :=
  ⟨rfl, fun _ => rfl, rfl, rfl, rfl, rfl⟩

/-- non-vacuity of `backend_total`: a console-mode driver with a recursively failing master handler, two heart
    beats that raise, a failing call_out, a user whose command destructs itself and a history with ticks before any
    connection, connects, partial input and disconnects - the theorem applies and gives crash-freedom -/
example :
    let S : Scripts := { hook := fun o k => match o, k with
                            | .obj _, .hb => [.err]
                            | .obj _, .co _ => [.cerr, .err]
                            | .user _, .cmd "quit" => [.destMe]
                            | .user _, .netdead => [.err]
                            | _, _ => [.ok],
                         connect := fun k => if k = 2 then .err else .ok }
    (run S { mode := .console, meh := .recurse, hbs := [.obj 1, .obj 2],
             callouts := [{ owner := .obj 1, tag := "p", due := T0 + 3 }] }
      [[.tick 2], [.conn 1], [.send 1 "a/qu"], [.send 1 "it/", .tick 2], [.conn 2], [.close 1], [.cin "x/"]]).crashed = none :=
  (backend_total _ _ _ ⟨rfl, fun _ => rfl, rfl, rfl, rfl, rfl⟩).1

/-- the crash outcome is not totalised away: outside the invariant the model does crash (use of a freed record) -/
example : (useConn ({} : W) 7).crashed ≠ none := by decide

/-- whatever a task does - at any nesting depth of hooks calling hooks - the invariant survives it -/
theorem hooks_keep_invariant (S : Scripts) (fuel : Nat) (w : W) (o : Oid) (k : Kind) (i : Inv w) :
    Inv (runHook S fuel w o k).1 := (runHook_ok S fuel w o k i).1

/-- An error in a heart_beat switches off exactly that object's heart beat: the shut-off step of error_handler()
    erases current_heart_beat from the table and clears it. -/
theorem only_failing_hb_removed (w : W) (o : Oid) (hc : w.curHb = some o) (hd : w.dead o = false) :
    (hbOff w).hbs = w.hbs.erase o ∧ (hbOff w).curHb = none := by
  refine ⟨?_, hbOff_curHb w⟩
  rw [hbOff_hbs]; simp [hbsAfterOff, hc, hd]

example : (hbOff { hbs := [.obj 1, .obj 2, .user 1], curHb := some (.obj 2) }).hbs = [.obj 1, .user 1] := by
  decide

/-- ... and every other object's heart beat stays switched on (or off) as it was; with no heart beat running
    (error in a command, call_out, reset, logon ...) the table is untouched. -/
theorem error_keeps_other_heart_beats (w : W) (x : Oid) :
    (w.curHb = none → (hbOff w).hbs = w.hbs) ∧
    (∀ o, w.curHb = some o → x ≠ o → (x ∈ (hbOff w).hbs ↔ x ∈ w.hbs)) := by
  constructor
  · intro h; rw [hbOff_hbs]; simp [hbsAfterOff, h]
  · intro o hc hne
    rw [hbOff_hbs]
    simp only [hbsAfterOff, hc]
    split
    · exact Iff.rfl
    · exact List.mem_erase_of_ne hne

example : Oid.obj 1 ∈ (hbOff { hbs := [.obj 1, .obj 2], curHb := some (.obj 2) }).hbs := by decide

/-- error_handler()'s flag protocol, for EVERY master-handler behaviour (ok / raises / raises recursively): entered
    with both flags clear it leaves with both flags clear. -/
theorem flags_clear_after_error (w : W) (msg : String) (h1 : w.inError = false) (h2 : w.inMeh = false) :
    (errorHandler w msg).inError = false ∧ (errorHandler w msg).inMeh = false := by
  have s := errorHandler_same w msg h1 h2
  exact ⟨by rw [s.inError, h1], by rw [s.inMeh, h2]⟩

example : (errorHandler { meh := .recurse } "boom").inError = false :=
  (flags_clear_after_error _ _ rfl rfl).1

/-- Pending tasks of everybody else survive the error path: error_handler() leaves the connection table with all
    buffered commands, every object's connection, the pending call_outs, the set of destructed objects and the
    error-context depth untouched (the heart-beat table changes only by the shut-off of current_heart_beat, see
    `only_failing_hb_removed`). -/
theorem pending_tasks_preserved (w : W) (msg : String) (h1 : w.inError = false) (h2 : w.inMeh = false) :
    (errorHandler w msg).users = w.users ∧ (errorHandler w msg).inter = w.inter ∧
    (errorHandler w msg).callouts = w.callouts ∧ (errorHandler w msg).dead = w.dead ∧
    (errorHandler w msg).ctxDepth = w.ctxDepth ∧ (errorHandler w msg).crashed = w.crashed := by
  have hp : proj (errorHandler w msg) = proj w := by
    unfold errorHandler
    simp only [h1, h2, Bool.false_eq_true, if_false]
    have hp := cmh_proj 3 (setErr (setMeh (setErr w true) true) false) msg
    split
    · exact hp
    · rw [proj_errExit, hp]; rfl
  simp only [proj, Prod.mk.injEq] at hp
  obtain ⟨a, b, _, _, e, _, g, c, d⟩ := hp
  exact ⟨a, b, c, d, g, e⟩

/-- the recovery point of backend() (restore_context at the setjmp): nothing pending is lost, nothing is re-run,
    the context chain is at its base -/
theorem recover_preserves_pending (w : W) :
    (recover w).users = w.users ∧ (recover w).callouts = w.callouts ∧ (recover w).hbs = w.hbs ∧
    (recover w).hbFlag = w.hbFlag ∧ (recover w).inter = w.inter ∧ (recover w).ctxDepth = 1 ∧
    (recover w).trace = w.trace := ⟨rfl, rfl, rfl, rfl, rfl, rfl, rfl⟩

/-- call_out(): an error in one call_out does not end the sweep - the sweep is the same function of the states the
    callbacks leave behind whether or not they raised (each call_out runs under call_out()'s own recovery point). -/
theorem callout_sweep_continues_after_error (rh : HookFn) : ∀ (n : Nat) (w : W),
    sweepCallOuts rh n w = sweepCallOuts (fun w o k => ((rh w o k).1, false)) n w := by
  intro n
  induction n with
  | zero => intro w; rfl
  | succ n ih =>
    intro w
    unfold sweepCallOuts
    split
    · rfl
    · split
      · simp only []
        split <;> exact ih _
      · rfl

/-- Re-validation makes the later uses safe: under the invariant, after `VALIDATE_IP (ip, command_giver)` succeeded
    the uses of `ip` do not touch a freed record. -/
theorem freed_conn_never_used (w : W) (o : Oid) (id : Nat) (inv : Inv w) (hvalid : w.inter o = some id) :
    useConn w id = w := useConn_valid w o id inv hvalid

/-- repaired defect 1 at model level: the first timer wake-up of an idle driver (all_users == NULL) -/
theorem idle_tick_no_crash (S : Scripts) (rh : HookFn) (w : W) (h : w.users = none) :
    (processIo S rh w [.wakeup]).1.crashed = w.crashed := by
  simp [processIo, processIoEvents, ioEvent, h]

end NV.C09
