/-
C09 — the connection-table primitives keep the invariant.
-/
import NV.C09.ErrLemmas

namespace NV.C09

theorem findConn_mapConn (w : W) (id0 : Nat) (f : Conn → Conn) (hf : ∀ c, (f c).id = c.id) (id : Nat) :
    findConn (mapConn w id0 f) id = (findConn w id).map (fun c => if c.id = id0 then f c else c) := by
  unfold findConn slots mapConn
  cases h : w.users with
  | none => rfl
  | some l => exact findIn_map id0 f hf l id

theorem mapConn_step (w : W) (id0 : Nat) (f : Conn → Conn) (hf : ∀ c, (f c).id = c.id)
    (hc : ∀ c, c.closing = true → (f c).closing = true) : Step w (mapConn w id0 f) := by
  intro i
  have hu : ∀ l', (mapConn w id0 f).users = some l' → ∃ l, w.users = some l ∧ l'.length = l.length := by
    intro l' h
    unfold mapConn at h
    cases hw : w.users with
    | none => simp [hw] at h
    | some l => simp [hw] at h; exact ⟨l, rfl, by rw [← h]; simp⟩
  refine ⟨⟨i.crashed, i.inError, i.inMeh, ?_, i.inj, ?_, ?_, ?_, ?_⟩, ?_, fun _ _ _ _ _ h => h, ?_, rfl, rfl, TrExt.of_eq rfl⟩
  · intro o id ho
    rw [findConn_mapConn w id0 f hf]
    have := i.live o id ho
    cases h : findConn w id with
    | none => simp [h] at this
    | some c => rfl
  · intro l' h
    obtain ⟨l, hl, e⟩ := hu l' h
    rw [e]; exact i.len l hl
  · intro l' h
    obtain ⟨l, hl, e⟩ := hu l' h
    rw [e]; exact i.cur l hl
  · intro h
    apply i.cur0
    unfold mapConn at h
    cases hw : w.users with
    | none => rfl
    | some l => simp [hw] at h
  · intro id hid
    rw [findConn_mapConn w id0 f hf, i.bound id hid]; rfl
  · intro id c hcn hcl
    rw [findConn_mapConn w id0 f hf, hcn]
    refine ⟨_, rfl, ?_⟩
    by_cases h : c.id = id0
    · simp only [h, if_true]; exact hc c hcl
    · simp only [h, if_false]; exact hcl
  · unfold mapConn
    cases hw : w.users with
    | none => rfl
    | some l => simp

theorem addOut_step (w : W) (o : Oid) (s : String) : Step w (addOut w o s) := by
  unfold addOut
  split
  · exact Step.refl w
  · split
    · exact Step.refl w
    · apply mapConn_step
      · intro c; split <;> rfl
      · intro c h; simp [h]

theorem useConn_live (w : W) (id : Nat) (h : (findConn w id).isSome = true) : useConn w id = w := by
  unfold useConn
  cases hc : findConn w id with
  | none => simp [hc] at h
  | some c => rfl

/-- `o->interactive = ip` for a live record nobody else holds -/
theorem setInter_some_step (w : W) (o : Oid) (id : Nat) (hl : (findConn w id).isSome = true)
    (hx : ∀ o', w.inter o' = some id → o' = o) (i : Inv w) : Inv (setInter w o (some id)) := by
  refine ⟨i.crashed, i.inError, i.inMeh, ?_, ?_, i.len, i.cur, i.cur0, i.bound⟩
  · intro o' id' h
    show (findConn w id').isSome = true
    simp only [setInter] at h
    split at h
    · injection h with h; rw [← h]; exact hl
    · exact i.live o' id' h
  · intro a b id' ha hb
    simp only [setInter] at ha hb
    split at ha <;> split at hb
    · rename_i h1 h2; rw [h1, h2]
    · rename_i h1 h2; injection ha with ha; rw [← ha] at hb; rw [h1]; exact (hx b hb).symm
    · rename_i h1 h2; injection hb with hb; rw [← hb] at ha; rw [h2]; exact hx a ha
    · exact i.inj a b id' ha hb

theorem setInter_none_step (w : W) (o : Oid) (i : Inv w) : Inv (setInter w o none) := by
  refine ⟨i.crashed, i.inError, i.inMeh, ?_, ?_, i.len, i.cur, i.cur0, i.bound⟩
  · intro o' id' h
    show (findConn w id').isSome = true
    simp only [setInter] at h
    split at h
    · simp at h
    · exact i.live o' id' h
  · intro a b id' ha hb
    simp only [setInter] at ha hb
    split at ha
    · simp at ha
    · split at hb
      · simp at hb
      · exact i.inj a b id' ha hb

theorem userChunk_ge : 2 ≤ userChunk := by decide

/-- putting a fresh record into an empty slot of the (possibly grown) table and handing it to the master -/
theorem alloc_step (w : W) (i : Nat) (l' : List (Option Conn)) (c : Conn)
    (hslot : l'[i]? = some none) (hfind : ∀ id, findIn l' id = findConn w id)
    (hlen : (slots w).length ≤ l'.length) (hc : c.id = w.nextConnId) :
    CStep w (setInter { w with users := some (l'.set i (some c)), nextConnId := w.nextConnId + 1 } .master (some c.id)) := by
  intro inv
  have hi : i < l'.length := by
    have := List.getElem?_eq_some_iff.mp hslot
    exact this.1
  have hnew : findConn w c.id = none := inv.bound c.id (by rw [hc]; exact Nat.le_refl _)
  let w1 : W := { w with users := some (l'.set i (some c)), nextConnId := w.nextConnId + 1 }
  have f_other : ∀ id, id ≠ c.id → findConn w1 id = findConn w id := by
    intro id hne
    show findIn (l'.set i (some c)) id = _
    rw [findIn_set_other c l' i id hslot hne, hfind]
  have f_new : findConn w1 c.id = some c := by
    show findIn (l'.set i (some c)) c.id = _
    exact findIn_set_new c l' i hslot (by rw [hfind]; exact hnew)
  have inv1 : Inv w1 := by
    refine ⟨inv.crashed, inv.inError, inv.inMeh, ?_, inv.inj, ?_, ?_, ?_, ?_⟩
    · intro o id ho
      have hl := inv.live o id ho
      have hne : id ≠ c.id := by
        intro e; rw [e, hnew] at hl; simp at hl
      rw [f_other id hne]; exact hl
    · intro l hl
      have : l = l'.set i (some c) := by
        have : some (l'.set i (some c)) = some l := hl
        injection this with this; exact this.symm
      rw [this]; simp; omega
    · intro l hl
      have : l = l'.set i (some c) := by
        have : some (l'.set i (some c)) = some l := hl
        injection this with this; exact this.symm
      rw [this]; simp
      show w.nextUser < l'.length
      cases hu : w.users with
      | none => rw [inv.cur0 hu]; omega
      | some l0 =>
        have := inv.cur l0 hu
        have e : slots w = l0 := by unfold slots; rw [hu]; rfl
        rw [e] at hlen; omega
    · intro h; exact absurd h (by simp [w1])
    · intro id hid
      have hid' : w.nextConnId + 1 ≤ id := hid
      have hne : id ≠ c.id := by rw [hc]; omega
      rw [f_other id hne]; exact inv.bound id (by omega)
  have i2 := setInter_some_step w1 .master c.id (by rw [f_new]; rfl) (by
    intro o' ho
    have hl := inv.live o' c.id ho
    rw [hnew] at hl; simp at hl) inv1
  exact ⟨i2, ⟨fun _ => rfl, rfl, rfl, TrExt.of_eq rfl⟩⟩

theorem grow_find (c : Prop) [Decidable c] (l : List (Option Conn)) (n id : Nat) :
    findIn (if c then l ++ List.replicate n none else l) id = findIn l id := by
  split
  · rw [findIn_append_none]
  · rfl

theorem grow_len (c : Prop) [Decidable c] (l : List (Option Conn)) (n : Nat) :
    l.length ≤ (if c then l ++ List.replicate n none else l).length := by
  split
  · simp
  · exact Nat.le_refl _

theorem newInteractive_cstep (w : W) (console : Bool) (client : Nat) :
    CStep w (newInteractive w console client).1 := by
  unfold newInteractive
  simp only []
  split
  · exact CStep.refl w
  · rename_i hrefuse
    apply alloc_step
    · -- the chosen slot is empty
      cases console with
      | true =>
        simp only [if_true]
        simp only [Bool.true_and] at hrefuse
        cases hl : slots w with
        | nil =>
          simp only [List.length_nil, ge_iff_le, Nat.le_refl, if_true, List.nil_append]
          rw [List.getElem?_replicate]
          have := userChunk_ge
          simp; omega
        | cons x xs =>
          rw [hl] at hrefuse
          cases x with
          | none => simp
          | some c => simp at hrefuse
      | false =>
        simp only [Bool.false_eq_true, if_false]
        exact firstFree_slot_empty (slots w) userChunk userChunk_ge
    · intro id
      exact grow_find _ _ _ _
    · exact grow_len _ _ _
    · rfl

theorem newInteractive_inter (w : W) (console : Bool) (client : Nat) (id : Nat)
    (h : (newInteractive w console client).2 = some id) :
    (newInteractive w console client).1.inter .master = some id := by
  unfold newInteractive at h ⊢
  simp only [] at h ⊢
  split at h
  · simp at h
  · rename_i hr
    simp only [hr, if_false]
    simp only [Option.some.injEq] at h
    simp [setInter, h]

/-- the console slot is free: new_interactive() does not refuse -/
theorem newInteractive_console_inter (w : W) (client : Nat) (h : (slots w).headD none = none) :
    ((newInteractive w true client).1.inter .master).isSome = true := by
  have h' : ((slots w).headD none).isSome = false := by rw [h]; rfl
  unfold newInteractive
  simp only [Bool.true_and, h', Bool.false_eq_true, if_false]
  simp [setInter]

theorem findIn_mapAll (g : Conn → Conn) (hg : ∀ c, (g c).id = c.id) : ∀ (l : List (Option Conn)) (id : Nat),
    findIn (l.map (fun s => s.map g)) id = (findIn l id).map g := by
  intro l id
  induction l with
  | nil => rfl
  | cons x xs ih =>
    cases x with
    | none => rw [List.map_cons]; show findIn (none :: _) id = _; rw [findIn_none, findIn_none, ih]
    | some c =>
      rw [List.map_cons]
      show findIn (some (g c) :: _) id = _
      by_cases h : c.id = id
      · rw [findIn_eq _ _ _ (by rw [hg]; exact h), findIn_eq _ _ _ h]; rfl
      · rw [findIn_ne _ _ _ (by rw [hg]; exact h), findIn_ne _ _ _ h, ih]

/-- granting HAS_CMD_TURN to every connection -/
theorem mapAll_step (w : W) (g : Conn → Conn) (hg : ∀ c, (g c).id = c.id)
    (hc : ∀ c, c.closing = true → (g c).closing = true) :
    Step w { w with users := w.users.map (fun l => l.map (fun s => s.map g)) } := by
  intro i
  have hf : ∀ id, findConn { w with users := w.users.map (fun l => l.map (fun s => s.map g)) } id =
      (findConn w id).map g := by
    intro id
    unfold findConn slots
    cases h : w.users with
    | none => rfl
    | some l => exact findIn_mapAll g hg l id
  have hu : ∀ l', (w.users.map (fun l => l.map (fun s => s.map g))) = some l' →
      ∃ l, w.users = some l ∧ l'.length = l.length := by
    intro l' h
    cases hw : w.users with
    | none => simp [hw] at h
    | some l => simp [hw] at h; exact ⟨l, rfl, by rw [← h]; simp⟩
  refine ⟨⟨i.crashed, i.inError, i.inMeh, ?_, i.inj, ?_, ?_, ?_, ?_⟩, ?_, fun _ _ _ _ _ h => h, ?_, rfl, rfl,
    TrExt.of_eq rfl⟩
  · intro o id ho
    rw [hf]
    have := i.live o id ho
    cases h : findConn w id with
    | none => simp [h] at this
    | some c => rfl
  · intro l' h
    obtain ⟨l, hl, e⟩ := hu l' h
    rw [e]; exact i.len l hl
  · intro l' h
    obtain ⟨l, hl, e⟩ := hu l' h
    rw [e]; exact i.cur l hl
  · intro h
    apply i.cur0
    cases hw : w.users with
    | none => rfl
    | some l => simp [hw] at h
  · intro id hid
    rw [hf, i.bound id hid]; rfl
  · intro id c hcn hcl
    rw [hf, hcn]
    exact ⟨_, rfl, hc c hcl⟩
  · show (w.users.map _).map List.length = _
    cases hw : w.users with
    | none => rfl
    | some l => simp

theorem mapAll_step' (w : W) (g : Conn → Conn) (hg : ∀ c, (g c).id = c.id)
    (hc : ∀ c, c.closing = true → (g c).closing = true) : Step w (mapAll w g) := mapAll_step w g hg hc

theorem snoopLink_id (me : Oid) (idy : Nat) (c : Conn) : (snoopLink me idy c).id = c.id := by
  unfold snoopLink; split <;> (try split) <;> rfl
theorem snoopLink_closing (me : Oid) (idy : Nat) (c : Conn) (h : c.closing = true) :
    (snoopLink me idy c).closing = true := by
  unfold snoopLink; split <;> (try split) <;> exact h
theorem snoopUnlink_id (o : Oid) (c : Conn) : (snoopUnlink o c).id = c.id := by
  unfold snoopUnlink; split <;> rfl
theorem snoopUnlink_closing (o : Oid) (c : Conn) (h : c.closing = true) : (snoopUnlink o c).closing = true := by
  unfold snoopUnlink; split <;> exact h

theorem setSnoop_step (w : W) (me you : Oid) : Step w (setSnoop w me you) := by
  unfold setSnoop
  split
  · exact Step.refl w
  · split
    · split
      · exact Step.refl w
      · exact mapAll_step w _ (snoopLink_id _ _) (snoopLink_closing _ _)
    · exact Step.refl w

theorem clearSnoopers_step (w : W) (o : Oid) : Step w (clearSnoopers w o) :=
  mapAll_step w _ (snoopUnlink_id o) (snoopUnlink_closing o)

end NV.C09
