/-
C09 — helper lemmas about the heart-beat shut-off step of error_handler() (`hbOff`, `setHeartBeat`).
-/
import NV.C09.ErrLemmas

namespace NV.C09

theorem setHeartBeat_zero_hbs (w : W) (o : Oid) (hd : w.dead o = false) :
    (setHeartBeat w o 0).hbs = w.hbs.erase o := by
  unfold setHeartBeat
  simp only [hd, Bool.false_eq_true, if_false, if_true]
  split
  · rename_i h
    have : o ∉ w.hbs := by
      intro hm
      have := List.idxOf?_eq_none_iff.mp h
      exact this hm
    simp [List.erase_of_not_mem this]
  · rfl

/-- the heart-beat table after the shut-off step, as a function of the table, current_heart_beat and O_DESTRUCTED -/
def hbsAfterOff (w : W) : List Oid :=
  match w.curHb with
  | some o => if w.dead o then w.hbs else w.hbs.erase o
  | none => w.hbs

theorem hbOff_hbs (w : W) : (hbOff w).hbs = hbsAfterOff w := by
  unfold hbOff hbsAfterOff
  cases h : w.curHb with
  | none => rfl
  | some o =>
    by_cases hd : w.dead o = true
    · simp [hd, setHeartBeat]
    · have hd' : w.dead o = false := by simpa using hd
      simp [hd', setHeartBeat_zero_hbs w o hd']

theorem hbOff_curHb (w : W) : (hbOff w).curHb = none := by
  unfold hbOff
  cases h : w.curHb with
  | none => simpa using h
  | some o => rfl

end NV.C09
