/-
C09 — helper lemmas about error_handler() (`errorHandler`, `callMasterHandler`, `caughtError`) and `setHeartBeat`.
-/
import NV.C09.Model

namespace NV.C09

/-- the fields error_handler() may touch besides the flags: only the heart-beat table, through set_heart_beat(ob, 0) -/
structure SameButHb (w w' : W) : Prop where
  users : w'.users = w.users
  inter : w'.inter = w.inter
  dead : w'.dead = w.dead
  callouts : w'.callouts = w.callouts
  objList : w'.objList = w.objList
  now : w'.now = w.now
  hbFlag : w'.hbFlag = w.hbFlag
  ctxDepth : w'.ctxDepth = w.ctxDepth
  nextUser : w'.nextUser = w.nextUser
  shutdown : w'.shutdown = w.shutdown
  crashed : w'.crashed = w.crashed
  mode : w'.mode = w.mode

theorem SameButHb.refl (w : W) : SameButHb w w := by constructor <;> rfl

theorem SameButHb.trans {a b c : W} (h1 : SameButHb a b) (h2 : SameButHb b c) : SameButHb a c := by
  constructor
  · rw [h2.users, h1.users]
  · rw [h2.inter, h1.inter]
  · rw [h2.dead, h1.dead]
  · rw [h2.callouts, h1.callouts]
  · rw [h2.objList, h1.objList]
  · rw [h2.now, h1.now]
  · rw [h2.hbFlag, h1.hbFlag]
  · rw [h2.ctxDepth, h1.ctxDepth]
  · rw [h2.nextUser, h1.nextUser]
  · rw [h2.shutdown, h1.shutdown]
  · rw [h2.crashed, h1.crashed]
  · rw [h2.mode, h1.mode]

theorem setHeartBeat_same (w : W) (o : Oid) (n : Nat) : SameButHb w (setHeartBeat w o n) := by
  unfold setHeartBeat
  split
  · exact SameButHb.refl w
  · split
    · split
      · exact SameButHb.refl w
      · constructor <;> rfl
    · split
      · exact SameButHb.refl w
      · constructor <;> rfl

theorem hbOff_same (w : W) : SameButHb w (hbOff w) := by
  unfold hbOff
  split
  · have h := setHeartBeat_same w ‹Oid› 0
    constructor
    · exact h.users
    · exact h.inter
    · exact h.dead
    · exact h.callouts
    · exact h.objList
    · exact h.now
    · exact h.hbFlag
    · exact h.ctxDepth
    · exact h.nextUser
    · exact h.shutdown
    · exact h.crashed
    · exact h.mode
  · exact SameButHb.refl w

theorem setHeartBeat_zero_hbs (w : W) (o : Oid) (hd : w.dead o = false) :
    (setHeartBeat w o 0).hbs = w.hbs.erase o := by
  unfold setHeartBeat
  simp only [hd, Bool.false_eq_true, if_false, if_true]
  split
  · rename_i h
    have : o ∉ w.hbs := by
      intro hm
      have := List.idxOf?_eq_none_iff.mp h
      exact this hm
    simp [List.erase_of_not_mem this]
  · rfl

end NV.C09

namespace NV.C09

/-- the heart-beat table after the shut-off step, as a function of the table, current_heart_beat and O_DESTRUCTED -/
def hbsAfterOff (w : W) : List Oid :=
  match w.curHb with
  | some o => if w.dead o then w.hbs else w.hbs.erase o
  | none => w.hbs

theorem hbOff_hbs (w : W) : (hbOff w).hbs = hbsAfterOff w := by
  unfold hbOff hbsAfterOff
  cases h : w.curHb with
  | none => rfl
  | some o =>
    by_cases hd : w.dead o = true
    · simp [hd, setHeartBeat]
    · have hd' : w.dead o = false := by simpa using hd
      simp [hd', setHeartBeat_zero_hbs w o hd']

theorem hbOff_curHb (w : W) : (hbOff w).curHb = none := by
  unfold hbOff
  cases h : w.curHb with
  | none => simpa using h
  | some o => rfl

theorem setHeartBeat_flags (w : W) (o : Oid) (n : Nat) :
    (setHeartBeat w o n).inError = w.inError ∧ (setHeartBeat w o n).inMeh = w.inMeh := by
  unfold setHeartBeat
  split
  · exact ⟨rfl, rfl⟩
  · split
    · split
      · exact ⟨rfl, rfl⟩
      · exact ⟨rfl, rfl⟩
    · split
      · exact ⟨rfl, rfl⟩
      · exact ⟨rfl, rfl⟩

theorem hbOff_flags (w : W) : (hbOff w).inError = w.inError ∧ (hbOff w).inMeh = w.inMeh := by
  unfold hbOff
  cases h : w.curHb with
  | none => exact ⟨rfl, rfl⟩
  | some o => exact setHeartBeat_flags w o 0

@[simp] theorem hbOff_inError (w : W) : (hbOff w).inError = w.inError := (hbOff_flags w).1
@[simp] theorem hbOff_inMeh (w : W) : (hbOff w).inMeh = w.inMeh := (hbOff_flags w).2
@[simp] theorem hbOff_users (w : W) : (hbOff w).users = w.users := (hbOff_same w).users
@[simp] theorem hbOff_callouts (w : W) : (hbOff w).callouts = w.callouts := (hbOff_same w).callouts
@[simp] theorem hbOff_dead (w : W) : (hbOff w).dead = w.dead := (hbOff_same w).dead
@[simp] theorem hbOff_crashed (w : W) : (hbOff w).crashed = w.crashed := (hbOff_same w).crashed
@[simp] theorem hbOff_ctxDepth (w : W) : (hbOff w).ctxDepth = w.ctxDepth := (hbOff_same w).ctxDepth
@[simp] theorem hbOff_inter (w : W) : (hbOff w).inter = w.inter := (hbOff_same w).inter
attribute [simp] hbOff_hbs hbOff_curHb

end NV.C09
