/-
C09 — trace-level theorems: clauses of the specification oracle `judgeEv` that hold for the model's full trace
(`runFull`: start-up, the scripted history, the trailing idle cycles, the final observations) for EVERY history and
oracle, without any settling assumption.
-/
import NV.C09.Total

namespace NV.C09

theorem cycle_shutdown_id (S : Scripts) (rh : HookFn) (n : Nat) (a : List Action) (w : W) (hs : w.shutdown = true) :
    cycle S rh n a w = (w, false) := by unfold cycle; simp [hs]

theorem runScripted_gt (S : Scripts) (rh : HookFn) (hrh : HookOK rh) :
    ∀ (h : List (List Action)) (n : Nat) (w : W) (last : Bool), Good w →
      ∃ m, GTC w (runScripted S rh n h w last).1 (List.range' n m) ∧
        (runScripted S rh n h w last).2.1 = n + h.length ∧
        ((runScripted S rh n h w last).1.shutdown = true ∨ m = h.length) := by
  intro h
  induction h with
  | nil => intro n w last g; exact ⟨0, (GT.refl g).toC, rfl, Or.inr rfl⟩
  | cons a as ih =>
    intro n w last g
    have g1 := cycle_good S rh hrh n a w g
    obtain ⟨m, g2, hn, hm⟩ := ih (n + 1) (cycle S rh n a w).1 (cycle S rh n a w).2 g1.1
    have hn' : (runScripted S rh n (a :: as) w last).2.1 = n + (a :: as).length := by
      show (runScripted S rh (n + 1) as (cycle S rh n a w).1 (cycle S rh n a w).2).2.1 = _
      rw [hn]; simp; omega
    by_cases hs : w.shutdown = true
    · have hstay : ∀ (as : List (List Action)) (k : Nat) (b : Bool), (runScripted S rh k as w b).1 = w := by
        intro as
        induction as with
        | nil => intro k b; rfl
        | cons x xs ihx =>
          intro k b
          show (runScripted S rh (k + 1) xs (cycle S rh k x w).1 (cycle S rh k x w).2).1 = w
          rw [cycle_shutdown_id S rh k x w hs]; exact ihx (k + 1) false
      refine ⟨0, ?_, hn', Or.inl ?_⟩
      · show GTC w (runScripted S rh (n + 1) as (cycle S rh n a w).1 (cycle S rh n a w).2).1 _
        rw [cycle_shutdown_id S rh n a w hs, hstay]
        exact (GT.refl g).toC
      · show (runScripted S rh (n + 1) as (cycle S rh n a w).1 (cycle S rh n a w).2).1.shutdown = true
        rw [cycle_shutdown_id S rh n a w hs, hstay]; exact hs
    · simp only [hs] at g1
      refine ⟨m + 1, ?_, hn', ?_⟩
      · have := g1.trans g2
        have e : (if false = true then [] else [n]) ++ List.range' (n + 1) m = List.range' n (m + 1) := by
          simp [List.range'_succ]
        rw [e] at this
        exact this
      · rcases hm with h1 | h1
        · exact Or.inl h1
        · exact Or.inr (by simp [h1])

theorem trailing_gt (S : Scripts) (rh : HookFn) (hrh : HookOK rh) :
    ∀ (f n trail : Nat) (w : W), Good w →
      ∃ m, GTC w (trailing S rh f n trail w) (List.range' n m) ∧ (w.shutdown = true → m = 0) := by
  intro f
  induction f with
  | zero => intro n trail w g; exact ⟨0, (GT.refl g).toC, fun _ => rfl⟩
  | succ f ih =>
    intro n trail w g
    unfold trailing
    split
    · exact ⟨0, (GT.refl g).toC, fun _ => rfl⟩
    · rename_i hcond
      simp only []
      have hs : w.shutdown = false := by
        cases h : w.shutdown with
        | false => rfl
        | true => simp [h] at hcond
      have g1 := cycle_good S rh hrh n [] w g
      simp only [hs] at g1
      obtain ⟨m, g2, _⟩ := ih (n + 1) (if (cycle S rh n [] w).2 = true then trail + 1 else trail) _ g1.1
      refine ⟨m + 1, ?_, fun h => by rw [hs] at h; simp at h⟩
      have := g1.trans g2
      have e : (if false = true then [] else [n]) ++ List.range' (n + 1) m = List.range' n (m + 1) := by
        simp [List.range'_succ]
      rw [e] at this
      exact this

theorem foldl_out_trace (f : Nat × String → Ev) (hf : ∀ e, quiet (f e) = true) :
    ∀ (l : List (Nat × String)) (w : W),
      ∃ es, (l.foldl (fun w e => emit w (f e)) w).trace = es ++ w.trace ∧ ∀ e ∈ es, quiet e = true := by
  intro l
  induction l with
  | nil => intro w; exact ⟨[], rfl, by simp⟩
  | cons x xs ih =>
    intro w
    obtain ⟨es, he, hq⟩ := ih (emit w (f x))
    refine ⟨es ++ [f x], by simp only [List.foldl_cons]; rw [he]; simp [emit], ?_⟩
    intro e he'
    rcases List.mem_append.mp he' with h | h
    · exact hq e h
    · simp at h; rw [h]; exact hf x

theorem quiet_exitEv (w : W) : quiet (exitEv w) = true := by unfold exitEv; split <;> rfl

/-- the final observations are quiet events; the exit line is among them -/
theorem finish_trace (w : W) : ∃ es, (finish w).trace = es ++ (exitEv w :: w.trace) ∧ ∀ e ∈ es, quiet e = true := by
  unfold finish
  simp only []
  obtain ⟨es, he, hq⟩ := foldl_out_trace outEv (fun _ => rfl)
    (((allOuts w).filter (fun e => e.1 ≠ 0)).foldr insertByKey []) (finishHead w)
  have hh : (finishHead w).trace = [Ev.slotIdx (occupiedIdx (slots w) 0), Ev.slots (liveOuts w).length, Ev.refs w.masterRef 0, Ev.hbs (sortStrings (w.hbs.map Oid.name))] ++
      (exitEv w :: w.trace) := rfl
  split
  · refine ⟨consoleOutEv w :: (es ++ [Ev.slotIdx (occupiedIdx (slots w) 0), Ev.slots (liveOuts w).length, Ev.refs w.masterRef 0, Ev.hbs (sortStrings (w.hbs.map Oid.name))]), ?_, ?_⟩
    · show consoleOutEv w :: _ = _
      rw [he, hh]; simp
    · intro e he'
      simp only [List.mem_cons, List.mem_append, List.mem_nil_iff, or_false] at he'
      rcases he' with h | h | h | h | h | h
      · rw [h]; rfl
      · exact hq e h
      · rw [h]; rfl
      · rw [h]; rfl
      · rw [h]; rfl
      · rw [h]; rfl
  · refine ⟨es ++ [Ev.slotIdx (occupiedIdx (slots w) 0), Ev.slots (liveOuts w).length, Ev.refs w.masterRef 0, Ev.hbs (sortStrings (w.hbs.map Oid.name))], ?_, ?_⟩
    · rw [he, hh]; simp
    · intro e he'
      simp only [List.mem_cons, List.mem_append, List.mem_nil_iff, or_false] at he'
      rcases he' with h | h | h | h | h
      · exact hq e h
      · rw [h]; rfl
      · rw [h]; rfl
      · rw [h]; rfl
      · rw [h]; rfl

theorem finish_trext (w : W) : TrExt w (finish w) := by
  obtain ⟨es, he, hq⟩ := finish_trace w
  refine ⟨es ++ [exitEv w], by rw [he]; simp, BlockOK.of_quiet _ ?_⟩
  intro e he'
  rcases List.mem_append.mp he' with h | h
  · exact hq e h
  · simp at h; rw [h]; exact quiet_exitEv w

/-- the whole run of the harness: the trace is one block (well-formed up to cycle markers) on top of the initial
    trace, and its cycle markers are exactly 1, 2, ..., m -/
theorem runFull_block (S : Scripts) (w0 : W) (h : List (List Action)) (f : Fresh w0) :
    ∃ es m, (runFull S w0 h).trace = es ++ w0.trace ∧ BlockC es ∧ markers es = List.range' 1 m := by
  unfold runFull
  simp only []
  have hrh := runHook_ok S hookFuel
  have g0 := startup_good S _ hrh w0 f
  obtain ⟨m1, g1, hn, hm⟩ := runScripted_gt S _ hrh h 1 _ false g0.1
  obtain ⟨m2, g2, hz⟩ := trailing_gt S _ hrh 256
    (runScripted S (runHook S hookFuel) 1 h (startup S (runHook S hookFuel) w0) false).2.1
    (if (runScripted S (runHook S hookFuel) 1 h (startup S (runHook S hookFuel) w0) false).2.2 = true then 1 else 0)
    _ g1.1
  have g3 := (g0.toC.trans g1).trans g2
  obtain ⟨_, es, he, hb, hk⟩ := g3
  obtain ⟨fs, hf, hfb⟩ := finish_trext (trailing S (runHook S hookFuel) 256
    (runScripted S (runHook S hookFuel) 1 h (startup S (runHook S hookFuel) w0) false).2.1
    (if (runScripted S (runHook S hookFuel) 1 h (startup S (runHook S hookFuel) w0) false).2.2 = true then 1 else 0)
    (runScripted S (runHook S hookFuel) 1 h (startup S (runHook S hookFuel) w0) false).1)
  refine ⟨fs ++ es, m1 + m2, by rw [hf, he, List.append_assoc], hb.append hfb.toC, ?_⟩
  rw [markers_append, markers_noCycle fs hfb.noCycle, List.append_nil, hk, hn]
  simp only [List.nil_append]
  rcases hm with h1 | h1
  · have : m2 = 0 := hz h1
    rw [this]; simp
  · rw [h1]
    have := List.range'_append (s := 1) (m := h.length) (n := m2) (step := 1)
    simp only [Nat.one_mul] at this
    exact this

/-- ... and chronologically that block begins with the `start` event: whatever was logged before backend() was entered
    (the preload phase) is an untouched prefix of the trace -/
theorem runFull_block_start (S : Scripts) (w0 : W) (h : List (List Action)) (f : Fresh w0) :
    ∃ es, (runFull S w0 h).trace = es ++ (Ev.start :: w0.trace) ∧ BlockC es := by
  unfold runFull
  simp only []
  have hrh := runHook_ok S hookFuel
  have g0 := startup_good_start S _ hrh w0 f
  obtain ⟨m1, g1, _, _⟩ := runScripted_gt S _ hrh h 1 _ false g0.1
  obtain ⟨m2, g2, _⟩ := trailing_gt S _ hrh 256
    (runScripted S (runHook S hookFuel) 1 h (startup S (runHook S hookFuel) w0) false).2.1
    (if (runScripted S (runHook S hookFuel) 1 h (startup S (runHook S hookFuel) w0) false).2.2 = true then 1 else 0)
    _ g1.1
  have g3 := (g0.toC.trans g1).trans g2
  obtain ⟨_, es, he, hb, _⟩ := g3
  obtain ⟨fs, hf, hfb⟩ := finish_trext (trailing S (runHook S hookFuel) 256
    (runScripted S (runHook S hookFuel) 1 h (startup S (runHook S hookFuel) w0) false).2.1
    (if (runScripted S (runHook S hookFuel) 1 h (startup S (runHook S hookFuel) w0) false).2.2 = true then 1 else 0)
    (runScripted S (runHook S hookFuel) 1 h (startup S (runHook S hookFuel) w0) false).1)
  refine ⟨fs ++ es, ?_, hb.append hfb.toC⟩
  rw [hf, he, List.append_assoc]
  rfl

theorem runFull_trext (S : Scripts) (w0 : W) (h : List (List Action)) (f : Fresh w0) :
    ∃ es, (runFull S w0 h).trace = es ++ w0.trace ∧ BlockC es := by
  obtain ⟨es, _, he, hb, _⟩ := runFull_block S w0 h f
  exact ⟨es, he, hb⟩

/-- events of the full run in chronological order (what `nvdrive C09 model` prints) -/
def events (S : Scripts) (w0 : W) (h : List (List Action)) : List Ev := (runFull S w0 h).trace.reverse

/-- **clause `crash` of the oracle, all histories, all oracles:** the model's trace never contains a crash event -/
theorem judge_crash_clause (S : Scripts) (w0 : W) (h : List (List Action)) (f : Fresh w0) (ht : w0.trace = []) :
    clauseCrash (events S w0 h) = [] := by
  obtain ⟨es, he, hb⟩ := runFull_trext S w0 h f
  have : (events S w0 h).filter isCrash = [] := by
    unfold events
    rw [he, ht, List.append_nil, List.filter_eq_nil_iff]
    intro e hm
    have := hb.noCrash e (List.mem_reverse.mp hm)
    simp [this]
  unfold clauseCrash
  rw [this]; rfl

/-- **clause `report` of the oracle, all histories, all oracles:** every uncaught error raised by any task (command,
    process_input, logon, net_dead, heart_beat, call_out, reset, the master's connect) is directly followed by its
    report to the master's error handler - whatever that handler then does -/
theorem judge_report_clause (S : Scripts) (w0 : W) (h : List (List Action)) (f : Fresh w0) (ht : w0.trace = []) :
    clauseReport (events S w0 h) = [] := by
  obtain ⟨es, he, hb⟩ := runFull_trext S w0 h f
  have : reportOk (events S w0 h) = true := by
    unfold events
    rw [he, ht, List.append_nil]; exact hb.report
  unfold clauseReport
  simp [this]

theorem cyclesOk_of_markers : ∀ (es : List Ev) (n m : Nat),
    es.filterMap (fun e => match e with | .cycle k => some k | _ => none) = List.range' n m →
    cyclesOk n es = true := by
  intro es
  induction es with
  | nil => intro n m _; rfl
  | cons e rest ih =>
    intro n m h
    cases e with
    | cycle k =>
      simp only [List.filterMap_cons] at h
      cases m with
      | zero => simp at h
      | succ m' =>
        rw [List.range'_succ] at h
        injection h with h1 h2
        simp only [cyclesOk, h1, beq_self_eq_true, Bool.true_and]
        exact ih (n + 1) m' h2
    | _ => all_goals (simp only [List.filterMap_cons] at h; simp only [cyclesOk]; exact ih n m h)

/-- **clause `liveness` (cycle markers), all histories, all oracles:** the loop iterations are numbered 1, 2, 3, ...
    without a gap: after every task failure, disconnect or destruct the loop is entered again -/
theorem judge_cycles_clause (S : Scripts) (w0 : W) (h : List (List Action)) (f : Fresh w0) (ht : w0.trace = []) :
    clauseCycles (events S w0 h) = [] := by
  obtain ⟨es, m, he, _, hk⟩ := runFull_block S w0 h f
  have : cyclesOk 1 (events S w0 h) = true := by
    unfold events
    rw [he, ht, List.append_nil]
    exact cyclesOk_of_markers _ 1 m hk
  unfold clauseCycles
  simp [this]

/-- the loop is always left in an orderly way: the trace has its exit line (never `liveness no-exit`) -/
theorem judge_exit_present (S : Scripts) (w0 : W) (h : List (List Action)) :
    (hasExit (events S w0 h)).isSome = true := by
  have key : ∀ w : W, Ev.exitShutdown ∈ (finish w).trace.reverse ∨ Ev.exitLoop ∈ (finish w).trace.reverse := by
    intro w
    obtain ⟨es, he, _⟩ := finish_trace w
    rw [he]
    unfold exitEv
    split
    · left; simp
    · right; simp
  have := key (trailing S (runHook S hookFuel) 256
      (runScripted S (runHook S hookFuel) 1 h (startup S (runHook S hookFuel) w0) false).2.1
      (if (runScripted S (runHook S hookFuel) 1 h (startup S (runHook S hookFuel) w0) false).2.2 = true then 1 else 0)
      (runScripted S (runHook S hookFuel) 1 h (startup S (runHook S hookFuel) w0) false).1)
  have e : events S w0 h = (finish (trailing S (runHook S hookFuel) 256
      (runScripted S (runHook S hookFuel) 1 h (startup S (runHook S hookFuel) w0) false).2.1
      (if (runScripted S (runHook S hookFuel) 1 h (startup S (runHook S hookFuel) w0) false).2.2 = true then 1 else 0)
      (runScripted S (runHook S hookFuel) 1 h (startup S (runHook S hookFuel) w0) false).1)).trace.reverse := rfl
  rw [e]
  unfold hasExit
  rcases this with h1 | h1
  · simp [h1]
  · by_cases h2 : Ev.exitShutdown ∈ (finish (trailing S (runHook S hookFuel) 256
        (runScripted S (runHook S hookFuel) 1 h (startup S (runHook S hookFuel) w0) false).2.1
        (if (runScripted S (runHook S hookFuel) 1 h (startup S (runHook S hookFuel) w0) false).2.2 = true then 1 else 0)
        (runScripted S (runHook S hookFuel) 1 h (startup S (runHook S hookFuel) w0) false).1)).trace.reverse
    · simp [h2]
    · simp [h2, h1]


/-! ## the full statement and its settling assumption -/

/-- what the oracle is told about a history (the driver `Drive.lean` computes the same from the case lines) -/
def noteAct (x : Expect) : Action → Expect
  | .conn c => { x with conns := x.conns ++ [c] }
  | .send c t => { x with sends := x.sends ++ [(c, t)] }
  | .cin t => { x with sends := x.sends ++ [(0, t)] }
  | .close c => { x with closed := c :: x.closed }
  | .reset c => { x with closed := c :: x.closed }
  | _ => x

def isTickAct : Action → Bool
  | .tick _ => true
  | _ => false

def expectOf (console : Bool) (h : List (List Action)) : Expect :=
  let x := (h.flatten).foldl noteAct { console := console }
  let idx := (List.range h.length).filter (fun i => (h.getD i []).any isTickAct)
  { x with coCutoff := match idx.reverse with | _ :: b :: _ => b + 1 | _ => 0 }

def isIdleStep (s : List Action) : Bool := s.all (fun a => match a with | .idle => true | _ => false)

/-- complete lines in a packet -/
def lineCount (t : String) : Nat := (t.toList.filter (· == '/')).length

/-- the longest backlog a client can have built up -/
def maxBacklog (h : List (List Action)) : Nat :=
  let sends := (h.flatten).filterMap (fun a => match a with
    | .send c t => some (c, lineCount t) | .cin t => some (0, lineCount t) | _ => none)
  (sends.map (fun e => ((sends.filter (fun f => f.1 == e.1)).map (·.2)).sum)).foldl max 0

/-- well-formed history: network clients are numbered from 1 (0 is the console), every client connects at most
    once, nothing is sent to or closed on a client that never connected -/
def WFHist (h : List (List Action)) : Bool :=
  let acts := h.flatten
  let conns := acts.filterMap (fun a => match a with | .conn c => some c | _ => none)
  conns.all (· ≠ 0) && conns.eraseDups.length == conns.length &&
  acts.all (fun a => match a with
    | .send c _ => conns.contains c
    | .close c => conns.contains c
    | .reset c => conns.contains c
    | _ => true)

/-- **the settling assumption, decidable:** the history ends as the generator's histories do - at least
    `max 4 (longest backlog)` idle cycles (one buffered line is served per user and cycle), then two ticks of 40 s (every
    call_out delay is shorter), then two idle cycles - so every buffered command and every call_out scheduled before
    the closing ticks has had its turn when the loop is left -/
def Settled (h : List (List Action)) : Bool :=
  let n := h.length
  let tail := h.drop (n - 4)
  let before := (h.take (n - 4)).reverse
  let idles := (before.takeWhile isIdleStep).length
  let closing := match tail with
    | [[.tick a], [.tick b], [.idle], [.idle]] => a == 40 && b == 40
    | _ => false
  decide (n ≥ 4) && closing && decide (idles ≥ max 4 (maxBacklog h))

/-- FULL top statement (`model_satisfies_spec`).  PROVED so far, unconditionally (no `Settled`, no `WFHist`):
    the clauses crash (`judge_crash_clause`), report (`judge_report_clause`), cycle markers (`judge_cycles_clause`)
    and the presence of the exit line (`judge_exit_present`).  NOT yet proved: unexpected-shutdown, heartbeats,
    commands, callouts, leak - they need ghost relations between the state and the trace (shutdown flag vs. the
    destruct / rejected-connect events, heart-beat table vs. `hbExpected`, slots vs. `liveUsers`) and, for commands
    and callouts, the fairness of the rotating cursor under `Settled`. -/
def Model_satisfies_spec_Full : Prop :=
  ∀ (S : Scripts) (w0 : W) (h : List (List Action)), Fresh w0 → w0.trace = [] → WFHist h = true → Settled h = true →
    judgeEv (expectOf (w0.mode == .console) h) (events S w0 h) = []

/-- non-vacuity of the settling assumption: a history with a backlog of three lines -/
example : Settled [[.conn 1], [.send 1 "a/b/c/"], [.idle], [.idle], [.idle], [.idle],
                   [.tick 40], [.tick 40], [.idle], [.idle]] = true ∧
          WFHist [[.conn 1], [.send 1 "a/b/c/"], [.idle], [.idle], [.idle], [.idle],
                   [.tick 40], [.tick 40], [.idle], [.idle]] = true := by decide

/-- ... and it is a real restriction: without the closing ticks a history is not settled -/
example : Settled [[.conn 1], [.send 1 "a/"], [.idle], [.idle], [.idle], [.idle]] = false := by decide

end NV.C09
