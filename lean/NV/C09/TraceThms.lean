/-
C09 — trace-level theorems: clauses of the specification oracle `judgeEv` that hold for the model's full trace
(`runFull`: start-up, the scripted history, the trailing idle cycles, the final observations) for EVERY history and
oracle, without any settling assumption.
-/
import NV.C09.Total

namespace NV.C09

theorem runScripted_gt (S : Scripts) (rh : HookFn) (hrh : HookOK rh) :
    ∀ (h : List (List Action)) (n : Nat) (w : W) (last : Bool), Good w → GT w (runScripted S rh n h w last).1 := by
  intro h
  induction h with
  | nil => intro n w last g; exact GT.refl g
  | cons a as ih =>
    intro n w last g
    have g1 := cycle_good S rh hrh n a w g
    exact g1.trans (ih (n + 1) _ _ g1.1)

theorem trailing_gt (S : Scripts) (rh : HookFn) (hrh : HookOK rh) :
    ∀ (f n trail : Nat) (w : W), Good w → GT w (trailing S rh f n trail w) := by
  intro f
  induction f with
  | zero => intro n trail w g; exact GT.refl g
  | succ f ih =>
    intro n trail w g
    unfold trailing
    split
    · exact GT.refl g
    · simp only []
      have g1 := cycle_good S rh hrh n [] w g
      exact g1.trans (ih _ _ _ g1.1)

theorem foldl_out_trace (f : Nat × String → Ev) (hf : ∀ e, quiet (f e) = true) :
    ∀ (l : List (Nat × String)) (w : W),
      ∃ es, (l.foldl (fun w e => emit w (f e)) w).trace = es ++ w.trace ∧ ∀ e ∈ es, quiet e = true := by
  intro l
  induction l with
  | nil => intro w; exact ⟨[], rfl, by simp⟩
  | cons x xs ih =>
    intro w
    obtain ⟨es, he, hq⟩ := ih (emit w (f x))
    refine ⟨es ++ [f x], by simp only [List.foldl_cons]; rw [he]; simp [emit], ?_⟩
    intro e he'
    rcases List.mem_append.mp he' with h | h
    · exact hq e h
    · simp at h; rw [h]; exact hf x

theorem quiet_exitEv (w : W) : quiet (exitEv w) = true := by unfold exitEv; split <;> rfl

/-- the final observations are quiet events; the exit line is among them -/
theorem finish_trace (w : W) : ∃ es, (finish w).trace = es ++ (exitEv w :: w.trace) ∧ ∀ e ∈ es, quiet e = true := by
  unfold finish
  simp only []
  obtain ⟨es, he, hq⟩ := foldl_out_trace outEv (fun _ => rfl)
    (((allOuts w).filter (fun e => e.1 ≠ 0)).foldr insertByKey []) (finishHead w)
  have hh : (finishHead w).trace = [Ev.slots (liveOuts w).length, Ev.hbs (sortStrings (w.hbs.map Oid.name))] ++
      (exitEv w :: w.trace) := rfl
  split
  · refine ⟨consoleOutEv w :: (es ++ [Ev.slots (liveOuts w).length, Ev.hbs (sortStrings (w.hbs.map Oid.name))]), ?_, ?_⟩
    · show consoleOutEv w :: _ = _
      rw [he, hh]; simp
    · intro e he'
      simp only [List.mem_cons, List.mem_append, List.mem_nil_iff, or_false] at he'
      rcases he' with h | h | h | h
      · rw [h]; rfl
      · exact hq e h
      · rw [h]; rfl
      · rw [h]; rfl
  · refine ⟨es ++ [Ev.slots (liveOuts w).length, Ev.hbs (sortStrings (w.hbs.map Oid.name))], ?_, ?_⟩
    · rw [he, hh]; simp
    · intro e he'
      simp only [List.mem_cons, List.mem_append, List.mem_nil_iff, or_false] at he'
      rcases he' with h | h | h
      · exact hq e h
      · rw [h]; rfl
      · rw [h]; rfl

theorem finish_trext (w : W) : TrExt w (finish w) := by
  obtain ⟨es, he, hq⟩ := finish_trace w
  refine ⟨es ++ [exitEv w], by rw [he]; simp, BlockOK.of_quiet _ ?_⟩
  intro e he'
  rcases List.mem_append.mp he' with h | h
  · exact hq e h
  · simp at h; rw [h]; exact quiet_exitEv w

/-- the whole run of the harness: good at the end, trace = one well-formed block on top of the initial trace -/
theorem runFull_trext (S : Scripts) (w0 : W) (h : List (List Action)) (f : Fresh w0) :
    TrExt w0 (runFull S w0 h) := by
  unfold runFull
  simp only []
  have hrh := runHook_ok S hookFuel
  have g0 := startup_good S _ hrh w0 f
  have g1 := g0.trans (runScripted_gt S _ hrh h 1 _ false g0.1)
  refine TrExt.trans ?_ (finish_trext _)
  exact (g1.trans (trailing_gt S _ hrh 256 _ _ _ g1.1)).2

/-- events of the full run in chronological order (what `nvdrive C09 model` prints) -/
def events (S : Scripts) (w0 : W) (h : List (List Action)) : List Ev := (runFull S w0 h).trace.reverse

/-- **clause `crash` of the oracle, all histories, all oracles:** the model's trace never contains a crash event -/
theorem judge_crash_clause (S : Scripts) (w0 : W) (h : List (List Action)) (f : Fresh w0) (ht : w0.trace = []) :
    clauseCrash (events S w0 h) = [] := by
  obtain ⟨es, he, hb⟩ := runFull_trext S w0 h f
  have : (events S w0 h).filter isCrash = [] := by
    unfold events
    rw [he, ht, List.append_nil, List.filter_eq_nil_iff]
    intro e hm
    have := hb.noCrash e (List.mem_reverse.mp hm)
    simp [this]
  unfold clauseCrash
  rw [this]; rfl

/-- **clause `report` of the oracle, all histories, all oracles:** every uncaught error raised by any task (command,
    process_input, logon, net_dead, heart_beat, call_out, reset, the master's connect) is directly followed by its
    report to the master's error handler - whatever that handler then does -/
theorem judge_report_clause (S : Scripts) (w0 : W) (h : List (List Action)) (f : Fresh w0) (ht : w0.trace = []) :
    clauseReport (events S w0 h) = [] := by
  obtain ⟨es, he, hb⟩ := runFull_trext S w0 h f
  have : reportOk (events S w0 h) = true := by
    unfold events
    rw [he, ht, List.append_nil]; exact hb.report
  unfold clauseReport
  simp [this]

/-- the loop is always left in an orderly way: the trace has its exit line (never `liveness no-exit`) -/
theorem judge_exit_present (S : Scripts) (w0 : W) (h : List (List Action)) :
    (hasExit (events S w0 h)).isSome = true := by
  have key : ∀ w : W, Ev.exitShutdown ∈ (finish w).trace.reverse ∨ Ev.exitLoop ∈ (finish w).trace.reverse := by
    intro w
    obtain ⟨es, he, _⟩ := finish_trace w
    rw [he]
    unfold exitEv
    split
    · left; simp
    · right; simp
  have := key (trailing S (runHook S hookFuel) 256
      (runScripted S (runHook S hookFuel) 1 h (startup S (runHook S hookFuel) w0) false).2.1
      (if (runScripted S (runHook S hookFuel) 1 h (startup S (runHook S hookFuel) w0) false).2.2 = true then 1 else 0)
      (runScripted S (runHook S hookFuel) 1 h (startup S (runHook S hookFuel) w0) false).1)
  have e : events S w0 h = (finish (trailing S (runHook S hookFuel) 256
      (runScripted S (runHook S hookFuel) 1 h (startup S (runHook S hookFuel) w0) false).2.1
      (if (runScripted S (runHook S hookFuel) 1 h (startup S (runHook S hookFuel) w0) false).2.2 = true then 1 else 0)
      (runScripted S (runHook S hookFuel) 1 h (startup S (runHook S hookFuel) w0) false).1)).trace.reverse := rfl
  rw [e]
  unfold hasExit
  rcases this with h1 | h1
  · simp [h1]
  · by_cases h2 : Ev.exitShutdown ∈ (finish (trailing S (runHook S hookFuel) 256
        (runScripted S (runHook S hookFuel) 1 h (startup S (runHook S hookFuel) w0) false).2.1
        (if (runScripted S (runHook S hookFuel) 1 h (startup S (runHook S hookFuel) w0) false).2.2 = true then 1 else 0)
        (runScripted S (runHook S hookFuel) 1 h (startup S (runHook S hookFuel) w0) false).1)).trace.reverse
    · simp [h2]
    · simp [h2, h1]

end NV.C09
