/-
C09 — NEGATIVE examples for the specification oracle: traces the judge must reject, clause by clause (theorem/oracle
audit).  Each example is checked by evaluation.
-/
import NV.C09.Spec

namespace NV.C09

def okTail : List Ev := [.exitLoop, .hbs [], .refs 0 0, .slots 0]

-- clause crash
example : judgeEv {} ([.start, .cycle 1, .crash "sanitizer heap-use-after-free"] ++ okTail) ≠ [] := by decide
example : clauseCrash [.start, .crash "exit 1"] ≠ [] := by decide
example : clauseCrash [.start, .cycle 1, .exitLoop] = [] := by decide

-- clause liveness: no exit line, gap in the cycle numbering, numbering not starting at 1, unexpected shutdown
example : clauseExit {} [.start, .cycle 1, .cycle 2] ≠ [] := by decide
example : clauseCycles [.start, .cycle 1, .cycle 3, .exitLoop] ≠ [] := by decide
example : clauseCycles [.start, .cycle 2, .exitLoop] ≠ [] := by decide
example : clauseCycles [.start, .cycle 1, .cycle 1, .exitLoop] ≠ [] := by decide
example : clauseExit {} [.start, .cycle 1, .exitShutdown] ≠ [] := by decide                       -- network mode
example : clauseExit { console := true } [.start, .tConnect 1, .tLogon (.user 1), .cycle 1, .exitShutdown] ≠ [] := by
  decide                                                                                          -- nobody destructed
example : clauseExit { console := true }
    [.start, .tConnect 1, .tLogon (.user 1), .cycle 1, .xDest (.user 1) (.user 1), .exitShutdown] = [] := by decide

-- clause report: error not reported, reported with the wrong text, report only after another event
example : clauseReport [.tHb (.obj 1), .xErr "o1", .cycle 2] ≠ [] := by decide
example : clauseReport [.tHb (.obj 1), .xErr "o1", .meh false "boom o2"] ≠ [] := by decide
example : clauseReport [.tHb (.obj 1), .xErr "o1", .tHb (.obj 2), .meh false "boom o1"] ≠ [] := by decide
example : clauseReport [.tHb (.obj 1), .xErr "o1", .meh true "boom o1"] ≠ [] := by decide         -- reported as caught
example : clauseReport [.tHb (.obj 1), .xErr "o1"] ≠ [] := by decide                              -- dangling at the end
example : clauseReport [.tHb (.obj 1), .xErr "o1", .meh false "boom o1", .meh false "mehagain"] = [] := by decide

-- clause refs
example : clauseRefs [.exitLoop, .refs 1 0] ≠ [] := by decide
example : clauseRefs [.exitLoop, .refs (-1) 0] ≠ [] := by decide
example : clauseRefs [.exitLoop, .refs 0 2] ≠ [] := by decide

-- clause heartbeats: the failing object still on; a healthy object switched off; nothing observed
example : judgeEv {} [.start, .xHb (.obj 1) 1, .xHb (.obj 2) 1, .cycle 1, .tHb (.obj 1), .xErr "o1",
    .meh false "boom o1", .exitLoop, .hbs ["o1", "o2"], .refs 0 0, .slots 0] ≠ [] := by decide
example : judgeEv {} [.start, .xHb (.obj 1) 1, .xHb (.obj 2) 1, .cycle 1, .tHb (.obj 1), .xErr "o1",
    .meh false "boom o1", .exitLoop, .hbs [], .refs 0 0, .slots 0] ≠ [] := by decide
example : judgeEv {} [.start, .xHb (.obj 1) 1, .cycle 1, .exitLoop, .refs 0 0, .slots 0] ≠ [] := by decide
example : judgeEv {} [.start, .xHb (.obj 1) 1, .xHb (.obj 2) 1, .cycle 1, .tHb (.obj 1), .xErr "o1",
    .meh false "boom o1", .exitLoop, .hbs ["o2"], .refs 0 0, .slots 0] = [] := by decide

-- clause commands: `linesOf` uses String.splitOn (not kernel-reducible); its negative examples are run through the
-- compiled judge on every check (props/c09.py extra_checks: "oracle self-test")

-- clause callouts: scheduled before the closing ticks and never fired
example : judgeEv { coCutoff := 3 } [.start, .cycle 1, .xCo (.obj 1) "p", .cycle 2, .cycle 3, .cycle 4,
    .exitLoop, .hbs [], .refs 0 0, .slots 0] ≠ [] := by decide
example : judgeEv { coCutoff := 3 } [.start, .cycle 1, .xCo (.obj 1) "p", .cycle 2, .tCo (.obj 1) "p", .cycle 3,
    .exitLoop, .hbs [], .refs 0 0, .slots 0] = [] := by decide

-- clause leak: more records than users; a `dest` aimed at a user that does not exist yet must not excuse it
example : judgeEv { conns := [1] } [.start, .cycle 1, .tConnect 1, .xErr "k1", .meh false "boom k1", .cycle 2,
    .exitLoop, .hbs [], .refs 0 0, .slots 1] ≠ [] := by decide
example : judgeEv { conns := [1] } [.start, .xDest (.obj 1) (.user 1), .cycle 1, .tConnect 1, .tLogon (.user 1), .cycle 2,
    .exitLoop, .hbs [], .refs 0 0, .slots 2] ≠ [] := by decide

-- clause disconnect: net_dead for a user whose client never hung up (the stale event of another connection reached
-- it); accepted when that client did close or reset
example : clauseDisconnect { conns := [1, 2] } [.start, .cycle 1, .tConnect 1, .tLogon (.user 1), .cycle 2, .tConnect 2,
    .tLogon (.user 2), .tNetdead (.user 2), .cycle 3, .exitLoop] ≠ [] := by decide
example : judgeEv { conns := [1, 2], closed := [1] } [.start, .cycle 1, .tConnect 1, .tLogon (.user 1), .cycle 2,
    .tNetdead (.user 1), .tConnect 2, .tLogon (.user 2), .tNetdead (.user 2), .cycle 3,
    .exitLoop, .hbs [], .refs 0 0, .slots 0] ≠ [] := by decide
example : clauseDisconnect { conns := [1, 2], closed := [2] } [.start, .cycle 1, .tConnect 1, .tLogon (.user 1), .cycle 2,
    .tConnect 2, .tLogon (.user 2), .tNetdead (.user 2), .cycle 3, .exitLoop] = [] := by decide

-- clause hb-schedule: two beats of one object in one tick; a beat of a destructed object; one beat per tick is fine
example : clauseHbSchedule [.start, .cycle 1, .tHb (.obj 1), .tHb (.obj 2), .tHb (.obj 1), .cycle 2] ≠ [] := by decide
example : clauseHbSchedule [.start, .cycle 1, .tHb (.obj 1), .xDest (.obj 1) (.obj 2), .tHb (.obj 2)] ≠ [] := by decide
example : clauseHbSchedule [.start, .tHb (.obj 1), .cycle 1, .tHb (.obj 1), .tHb (.obj 2), .cycle 2, .tHb (.obj 1)] = [] := by
  decide

-- clause turns: a second command of the same user in one iteration
example : clauseTurns [.start, .cycle 1, .tInput (.user 1) "a", .tCmd (.user 1) "a", .tInput (.user 2) "x", .tCmd (.user 2) "x",
    .tInput (.user 1) "b", .cycle 2] ≠ [] := by decide
example : clauseTurns [.start, .cycle 1, .tInput (.user 1) "a", .tCmd (.user 1) "a", .tInput (.user 2) "x", .tCmd (.user 2) "x",
    .cycle 2, .tInput (.user 1) "b", .tCmd (.user 1) "b"] = [] := by decide

-- clause preload: the file after a failing one was skipped
example : clausePreload { preloads := ["p1", "p2", "p3"] } [.tEpilog, .tPreload "p1", .tPreload "p2", .xErr "p2",
    .meh false "boom p2", .start, .cycle 1, .exitLoop] ≠ [] := by decide
example : clausePreload { preloads := ["p1", "p2", "p3"] } [.tEpilog, .tPreload "p1", .tPreload "p2", .xErr "p2",
    .meh false "boom p2", .tPreload "p3", .start, .cycle 1, .exitLoop] = [] := by decide
-- ... and a file loaded only after backend() was entered does not count
example : clausePreload { preloads := ["p1"] } [.tEpilog, .start, .tPreload "p1", .cycle 1, .exitLoop] ≠ [] := by decide

-- clause isolation (the string-level examples are in the plugin's oracle self-test): a line delivered in iteration 3
-- and served in iteration 10 is late for bound 4; served in iteration 4 it is not; waiting behind the user's OWN
-- earlier lines does not count
example : lateLine 4 1 0 [3] [10] = some (1, 7) := by decide
example : lateLine 4 1 0 [3] [4] = none := by decide
example : lateLine 4 1 0 [3, 3, 3, 3, 3, 3, 3, 3] [3, 4, 5, 6, 7, 8, 9, 10] = none := by decide
example : servedCycles (.user 2) 0 [.start, .cycle 1, .tInput (.user 1) "a", .cycle 2, .tInput (.user 2) "x",
    .tIt (.user 2) "s" "y"] = [2, 2] := by decide

-- clause sweep: the same object's reset() twice in one tick (the sweep spins); once per tick is fine, also together with
-- its clean_up(); the verdict survives a cut-off trace
example : clauseSweep [.start, .cycle 1, .tReset (.obj 1), .xErr "o1", .meh false "boom o1", .tReset (.obj 1)] ≠ [] := by decide
example : clauseSweep [.start, .tReset (.obj 1), .cycle 1, .tReset (.obj 1), .tCleanup (.obj 1), .tReset (.obj 2), .cycle 2,
    .tReset (.obj 1)] = [] := by decide
example : (judgeEv {} [.start, .cycle 1, .tReset (.obj 1), .xErr "o1", .meh false "boom o1", .tReset (.obj 1),
    .crash "trace-truncated"]).length = 2 := by decide

end NV.C09
