/-
C09 — the command loop and the timer tick keep the invariant.
-/
import NV.C09.CycleLemmas

namespace NV.C09

/-- first a step that changes none of the fields the invariant looks at, then `t` -/
macro "same_then " t:term : tactic =>
  `(tactic| (refine Step.trans ?_ $t; exact Same.step ⟨rfl, rfl, rfl, rfl, rfl, rfl, rfl, rfl, rfl, by trx⟩))

/-- moving the rotating cursor inside the table -/
theorem setCursor_step (w : W) (n : Nat) (h : ∀ l, w.users = some l → n < l.length)
    (h0 : w.users = none → n = 0) : Step w { w with nextUser := n } := by
  intro i
  exact ⟨⟨i.crashed, i.inError, i.inMeh, i.live, i.inj, i.len, h, h0, i.bound⟩,
    ⟨fun _ c hc hcl => ⟨c, hc, hcl⟩, fun _ _ _ _ _ ho => ho, rfl, rfl, rfl, TrExt.of_eq rfl⟩⟩

theorem scanUsers_step : ∀ (n : Nat) (w : W), Step w (scanUsers n w).1 := by
  intro n
  induction n with
  | zero => intro w; exact Step.refl w
  | succ n ih =>
    intro w
    unfold scanUsers
    split
    · exact Step.refl w
    · rename_i l hl
      simp only []
      intro inv
      have hcur := inv.cur l hl
      have hlen := inv.len l hl
      split
      · rename_i hn
        have : l[w.nextUser]? ≠ none := by
          intro e; have := List.getElem?_eq_none_iff.mp e; omega
        exact absurd hn this
      · -- the cursor step
        have decStep : ∀ v : W, (∀ l', v.users = some l' → l'.length = l.length) → (v.users = none → False) →
            Step v { v with nextUser := if v.nextUser = 0 then l.length - 1 else v.nextUser - 1 } := by
          intro v hv hv0 iv
          refine setCursor_step v _ ?_ ?_ iv
          · intro l' hl'
            have hc := iv.cur l' hl'
            rw [hv l' hl'] at hc ⊢
            split <;> omega
          · intro hnone; exact absurd hnone hv0
        split
        · split
          · -- found: consume the turn and the command, move the cursor
            rename_i c _ _
            have s1 := mapConn_step w c.id (fun c => { c with turn := false, cmds := c.cmds.drop 1 })
              (fun _ => rfl) (fun _ h => h)
            have s2 := decStep (mapConn w c.id (fun c => { c with turn := false, cmds := c.cmds.drop 1 }))
              (by intro l' hl'
                  unfold mapConn at hl'
                  simp [hl] at hl'
                  rw [← hl']; simp)
              (by intro hnone; unfold mapConn at hnone; simp [hl] at hnone)
            exact (Step.trans s1 s2) inv
          · exact (Step.trans (decStep w (by intro l' hl'; rw [hl] at hl'; injection hl' with e; rw [e])
              (by intro hnone; rw [hl] at hnone; simp at hnone)) (ih _)) inv
        · exact (Step.trans (decStep w (by intro l' hl'; rw [hl] at hl'; injection hl' with e; rw [e])
            (by intro hnone; rw [hl] at hnone; simp at hnone)) (ih _)) inv


theorem inputStage_step (rh : HookFn) (hrh : HookOK rh) (w : W) (cg : Oid) (line : String) (b : Bool) :
    Step w (inputStage rh w cg line b).1 := by
  unfold inputStage
  split
  · exact Step.trans (emit_same _ _).step (hrh _ _ _)
  · exact Step.refl w

theorem commandStage_step (rh : HookFn) (hrh : HookOK rh) (w : W) (cg : Oid) (line : String) :
    Step w (commandStage rh w cg line).1 := by
  unfold commandStage
  split
  · exact Step.refl w
  · split
    · exact Step.refl w
    · simp only []
      have h := Step.trans (emit_same w (.tCmd cg (line.take (maxVerbBuff - 1)).toString)).step
        (hrh _ cg (.cmd (line.take (maxVerbBuff - 1)).toString))
      split
      · exact h
      · exact Step.trans h (addOut_step _ _ _)

/-- `ip` passed VALIDATE_IP: the uses that follow touch a live record -/
theorem useConn_valid (w : W) (o : Oid) (id : Nat) (inv : Inv w) (h : w.inter o = some id) : useConn w id = w :=
  useConn_live w id (inv.live o id h)

theorem promptStage_step (rh : HookFn) (hrh : HookOK rh) (w : W) (cg : Oid) (id : Nat) :
    Step w (promptStage rh w cg id).1 := by
  unfold promptStage
  simp only []
  split
  · exact Step.refl w
  · split
    · exact Step.refl w
    · have s1 : Step w (rh (emit w (.tPrompt cg)) cg .prompt).1 := Step.trans (emit_same _ _).step (hrh _ _ _)
      split
      · exact s1
      · split
        · exact s1
        · rename_i hv
          intro inv
          obtain ⟨inv2, r2⟩ := s1 inv
          have hval : (rh (emit w (.tPrompt cg)) cg .prompt).1.inter cg = some id := by simpa using hv
          rw [useConn_valid _ cg id inv2 hval]
          obtain ⟨inv3, r3⟩ := addOut_step _ cg ">_" inv2
          exact ⟨inv3, r2.trans r3⟩

theorem plainCommand_step (rh : HookFn) (hrh : HookOK rh) (w : W) (cg : Oid) (id : Nat) (line : String) :
    Step w (plainCommand rh w cg id line).1 := by
  unfold plainCommand
  simp only []
  intro inv
  generalize hasPIOf w id = b
  have s1 := inputStage_step rh hrh w cg line b
  split
  · exact s1 inv
  · split
    · exact s1 inv
    · have s2 := Step.trans s1 (commandStage_step rh hrh _ cg line)
      split
      · exact s2 inv
      · split
        · exact s2 inv
        · rename_i hv2
          obtain ⟨inv2, r2⟩ := s2 inv
          have hval : (commandStage rh (inputStage rh w cg line b).1 cg line).1.inter cg = some id := by
            simpa using hv2
          rw [useConn_valid _ cg id inv2 hval]
          obtain ⟨inv3, r3⟩ := promptStage_step rh hrh _ cg id inv2
          exact ⟨inv3, r2.trans r3⟩

theorem inputToCommand_step (rh : HookFn) (hrh : HookOK rh) (w : W) (cg : Oid) (id : Nat) (line tag : String) :
    Step w (inputToCommand rh w cg id line tag).1 := by
  unfold inputToCommand
  simp only []
  intro inv
  have s1 : Step w (rh (emit (mapConn w id clearInputTo) (.tIt cg tag line)) cg (.it tag)).1 :=
    Step.trans (Step.trans (mapConn_step w id clearInputTo (fun _ => rfl) (fun _ h => h)) (emit_same _ _).step) (hrh _ _ _)
  split
  · exact s1 inv
  · split
    · exact s1 inv
    · rename_i hv
      obtain ⟨inv2, r2⟩ := s1 inv
      have hval : (rh (emit (mapConn w id clearInputTo) (.tIt cg tag line)) cg (.it tag)).1.inter cg = some id := by
        simpa using hv
      rw [useConn_valid _ cg id inv2 hval]
      obtain ⟨inv3, r3⟩ := promptStage_step rh hrh _ cg id inv2
      exact ⟨inv3, r2.trans r3⟩

theorem serveCommand_step (rh : HookFn) (hrh : HookOK rh) (w : W) (c0 : Conn) :
    Step w (serveCommand rh w c0).1 := by
  unfold serveCommand
  simp only []
  split
  · exact Step.refl w
  · split
    · exact Step.refl w
    · rename_i id hid
      intro inv
      have hu : useConn w id = w := useConn_valid w c0.ob id inv hid
      rw [hu]
      have s0 : Step w (updateLoadAv w) := (updateLoadAv_same w).step
      split
      · exact (Step.trans s0 (inputToCommand_step rh hrh _ _ _ _ _)) inv
      · exact (Step.trans s0 (plainCommand_step rh hrh _ _ _ _)) inv

theorem processUserCommand_step (rh : HookFn) (hrh : HookOK rh) (w : W) :
    Step w (processUserCommand rh w).1 := by
  unfold processUserCommand
  simp only []
  split
  · exact scanUsers_step _ w
  · exact Step.trans (scanUsers_step _ w) (serveCommand_step rh hrh _ _)

theorem commandLoop_step (rh : HookFn) (hrh : HookOK rh) : ∀ (n : Nat) (w : W), Step w (commandLoop rh n w).1 := by
  intro n
  induction n with
  | zero => intro w; exact processUserCommand_step rh hrh w
  | succ n ih =>
    intro w
    unfold commandLoop
    simp only []
    split
    · exact processUserCommand_step rh hrh w
    · split
      · exact Step.trans (processUserCommand_step rh hrh w) (ih _)
      · exact processUserCommand_step rh hrh w

/-! ## the timer tick -/

theorem hbLoop_step (rh : HookFn) (hrh : HookOK rh) : ∀ (n : Nat) (w : W), Step w (hbLoop rh n w).1 := by
  intro n
  induction n with
  | zero => intro w; exact Step.refl w
  | succ n ih =>
    intro w
    unfold hbLoop
    split
    · exact Step.refl w
    · rename_i o _
      simp only []
      have h : Step w (rh (emit { w with hbNext := w.hbNext + 1, curHb := some o } (.tHb o)) o .hb).1 :=
        by same_then (hrh _ _ _)
      split
      · exact h
      · split
        · exact h
        · exact Step.trans h (ih _)

theorem resetObjectR_step (rh : HookFn) (hrh : HookOK rh) (w : W) (k : Nat) : Step w (resetObjectR rh w k).1 := by
  unfold resetObjectR
  simp only []
  have h : Step w (rh (emit { w with nextReset := fun x => if x = k then w.now + resetDuration / 2 else w.nextReset x,
                                     refTime := fun x => if x = k then w.now else w.refTime x }
      (.tReset (.obj k))) (.obj k) .reset).1 :=
    by same_then (hrh _ _ _)
  split
  · exact h
  · exact Step.trans h (Same.step ⟨rfl, rfl, rfl, rfl, rfl, rfl, rfl, rfl, rfl, by trx⟩)

theorem resetObject_step (rh : HookFn) (hrh : HookOK rh) (w : W) (k : Nat) : Step w (resetObject rh w k) :=
  resetObjectR_step rh hrh w k

theorem cleanupObject_step (rh : HookFn) (hrh : HookOK rh) (w : W) (k : Nat) : Step w (cleanupObject rh w k).1 := by
  unfold cleanupObject
  simp only []
  have h : Step w (rh (emit (touch w (.obj k)) (.tCleanup (.obj k))) (.obj k) .cleanup).1 :=
    Step.trans (Step.trans (touch_same _ _).step (emit_same _ _).step) (hrh _ _ _)
  split
  · exact h
  · split
    · exact h
    · exact Step.trans h (Same.step ⟨rfl, rfl, rfl, rfl, rfl, rfl, rfl, rfl, rfl, by trx⟩)

theorem sweepObject_step (rh : HookFn) (hrh : HookOK rh) (w : W) (k : Nat) : Step w (sweepObject rh w k).1 := by
  unfold sweepObject
  simp only []
  have h1 : Step w (if (w.nextReset k < w.now && !w.resetState k) = true then resetObjectR rh w k else (w, false)).1 := by
    split
    · exact resetObjectR_step rh hrh w k
    · exact Step.refl w
  revert h1
  generalize (if (w.nextReset k < w.now && !w.resetState k) = true then resetObjectR rh w k else (w, false)) = r
  intro h1
  split
  · exact h1
  · split
    · exact h1
    · split
      · exact Step.trans h1 (cleanupObject_step rh hrh r.1 k)
      · exact h1

theorem sweepPass_step (rh : HookFn) (hrh : HookOK rh) : ∀ (ks : List Nat) (w : W), Step w (sweepPass rh ks w).1 := by
  intro ks
  induction ks with
  | nil => intro w; exact Step.refl w
  | cons k ks ih =>
    intro w
    unfold sweepPass
    split
    · exact ih w
    · split
      · exact sweepObject_step rh hrh w k
      · exact Step.trans (sweepObject_step rh hrh w k) (ih _)

theorem sweepResets_step (rh : HookFn) (hrh : HookOK rh) : ∀ (fuel : Nat) (w : W), Step w (sweepResets rh fuel w) := by
  intro fuel
  induction fuel with
  | zero => intro w; exact Step.refl w
  | succ n ih =>
    intro w
    unfold sweepResets
    split
    · exact Step.trans (sweepPass_step rh hrh w.objList w) (ih _)
    · exact sweepPass_step rh hrh w.objList w

theorem sweepCallOuts_step (rh : HookFn) (hrh : HookOK rh) : ∀ (n : Nat) (w : W), Step w (sweepCallOuts rh n w) := by
  intro n
  induction n with
  | zero => intro w; exact Step.refl w
  | succ n ih =>
    intro w
    unfold sweepCallOuts
    split
    · exact Step.refl w
    · rename_i c rest _
      split
      · simp only []
        have h0 : Step w { w with callouts := rest } := Same.step ⟨rfl, rfl, rfl, rfl, rfl, rfl, rfl, rfl, rfl, by trx⟩
        split
        · exact Step.trans h0 (ih _)
        · refine Step.trans ?_ (ih _)
          exact Step.trans h0 (Step.trans (Step.trans (emit_same _ _).step (touch_same _ _).step) (hrh _ _ _))
      · exact Step.refl w

theorem hbRound_step (rh : HookFn) (hrh : HookOK rh) (w : W) : Step w (hbRound rh w).1 := by
  unfold hbRound
  split
  · simp only []
    have h : Step w (hbLoop rh w.hbToDo { w with hbNext := 0 }).1 :=
      by same_then (hbLoop_step rh hrh _ _)
    split
    · exact h
    · exact Step.trans h (Same.step ⟨rfl, rfl, rfl, rfl, rfl, rfl, rfl, rfl, rfl, by trx⟩)
  · exact Step.refl w

theorem timerSweeps_step (rh : HookFn) (hrh : HookOK rh) (w : W) : Step w (timerSweeps rh w) := by
  unfold timerSweeps
  simp only []
  have h0 : Step w { w with curHb := none } := Same.step ⟨rfl, rfl, rfl, rfl, rfl, rfl, rfl, rfl, rfl, by trx⟩
  have h1 : Step w (if ({ w with curHb := none } : W).now < ({ w with curHb := none } : W).nextSweep
      then ({ w with curHb := none } : W)
      else popCtx (sweepResets rh (3 * ({ w with curHb := none } : W).objList.length + 3)
        (pushCtx { ({ w with curHb := none } : W) with nextSweep := ({ w with curHb := none } : W).now + sweepPeriod }))) := by
    split
    · exact h0
    · refine Step.trans h0 ?_
      refine Step.trans (b := { ({ w with curHb := none } : W) with nextSweep := ({ w with curHb := none } : W).now + sweepPeriod })
        (Same.step ⟨rfl, rfl, rfl, rfl, rfl, rfl, rfl, rfl, rfl, by trx⟩) ?_
      exact Step.bracket (sweepResets_step rh hrh _ _)
  exact Step.trans h1 (Step.bracket (sweepCallOuts_step rh hrh _ _))

theorem callHeartBeat_step (rh : HookFn) (hrh : HookOK rh) (w : W) : Step w (callHeartBeat rh w).1 := by
  unfold callHeartBeat
  simp only []
  have h : Step w (hbRound rh { w with hbFlag := false, now := w.clock, hbToDo := w.hbs.length }).1 :=
    by same_then (hbRound_step rh hrh _)
  split
  · exact h
  · exact Step.trans h (timerSweeps_step rh hrh _)

end NV.C09
