/-
C09 — bridging lemmas between the statement orders REGENERATED from the C source on every run (NV/Gen/C09.lean,
produced by props/c09.py `gen_extra`) and the orders the hand-written model assumes.  A change of the source that moves
a recovery point, drops a flag assignment or reorders the steps of a cycle changes the generated list and breaks the
corresponding lemma (an obligation of the check), not only the trace comparison.
-/
import NV.Gen.C09
import NV.C09.Model

namespace NV.C09

/-- `startup` / `cycle` / `cycleBody`: save_context, then the recovery point BEFORE the start-up steps (initial tick,
    console user - each once), then the loop: destructed objects, turn grant, poll, process_io, command loop, tick, H1 -/
theorem backend_order_as_modelled :
    NV.Gen.C09.backendOrder =
      ["save_context", "setjmp", "initial_tick", "console_user", "loop", "destructed", "grant_turns", "poll",
       "process_io", "commands", "tick", "hook", "pop_context"] := by decide

/-- `errorHandler` / `errExit` / `callMasterHandler`: the in_error test (and its longjmp), in_error := 1, the
    in_mudlib_error_handler test with flag := 0 in its branch; else flag := 1, in_error := 0, the master's handler,
    in_error := 1, flag := 0; then the heart-beat shut-off, current_heart_beat := 0, in_error := 0, longjmp -/
theorem error_handler_order_as_modelled :
    NV.Gen.C09.errorHandlerOrder =
      ["test_in_error", "longjmp", "in_error=1", "test_in_meh", "in_meh=0", "in_meh=1", "in_error=0", "call_handler",
       "in_error=1", "in_meh=0", "hb_off", "cur_hb=0", "in_error=0", "longjmp"] := by decide

/-- `sweepCallOuts`: one error context for the sweep, the recovery point INSIDE the loops (per entry), the entry is
    freed after the callback whether or not it raised -/
theorem call_out_order_as_modelled :
    NV.Gen.C09.callOutOrder =
      ["save_context", "sweep_loop", "entry_loop", "setjmp", "restore", "apply", "free_entry", "pop_context"] := by
  decide

/-- `sweepResets`: period test, context, recovery point BEFORE the list walk (the walk restarts), reset, pop -/
theorem sweep_order_as_modelled :
    NV.Gen.C09.sweepOrder = ["period_test", "save_context", "setjmp", "walk", "reset", "pop_context"] := by decide

/-- `removeInteractive` / `netDeadHook` / `freeConnOf`: CLOSING tested, then set, then net_dead under safe_apply, the
    console shutdown request, then the record is freed and pointer and slot are cleared -/
theorem remove_interactive_order_as_modelled :
    NV.Gen.C09.removeInteractiveOrder =
      ["test_closing", "set_closing", "net_dead", "shutdown", "shutdown", "free", "clear_pointer", "clear_slot",
       "free_object"] := by decide

/-- `serveCommand`: process_input, VALIDATE_IP, the command, VALIDATE_IP, the prompt -/
theorem user_command_order_as_modelled :
    NV.Gen.C09.userCommandOrder = ["process_input", "validate", "command", "command", "validate", "prompt"] := by
  decide

/-- `mudlibConnect`: the extra master reference, connect() under its own recovery point (never the unprotected apply),
    the rejection exit, then the record moves to the user object and the master's reference is dropped -/
theorem connect_order_as_modelled :
    NV.Gen.C09.connectOrder =
      ["add_ref_master", "connect", "rejected", "bind", "clear_master", "free_master", "add_ref_user"] := by decide

end NV.C09
