/-
C09 — bridging lemmas between the statement orders REGENERATED from the C source on every run (NV/Gen/C09.lean,
produced by props/c09.py `gen_extra`) and the orders the hand-written model assumes.  A change of the source that moves
a recovery point, drops a flag assignment or reorders the steps of a cycle changes the generated list and breaks the
corresponding lemma (an obligation of the check), not only the trace comparison.
-/
import NV.Gen.C09
import NV.C09.Model

namespace NV.C09

/-- `startup` / `cycle` / `cycleBody`: save_context, then the recovery point BEFORE the start-up steps (initial tick,
    console user - each once), then the loop: destructed objects, turn grant, poll, process_io, command loop, tick, H1 -/
theorem backend_order_as_modelled :
    NV.Gen.C09.backendOrder =
      ["save_context", "setjmp", "initial_tick", "console_user", "loop", "destructed", "grant_turns", "poll",
       "process_io", "commands", "tick", "hook", "pop_context"] := by decide

/-- `errorHandler` / `errExit` / `callMasterHandler`: the in_error test (and its longjmp), in_error := 1, the
    in_mudlib_error_handler test with flag := 0 in its branch; else flag := 1, in_error := 0, the master's handler,
    in_error := 1, flag := 0; then the heart-beat shut-off, current_heart_beat := 0, in_error := 0, longjmp -/
theorem error_handler_order_as_modelled :
    NV.Gen.C09.errorHandlerOrder =
      ["test_in_error", "longjmp", "in_error=1", "test_in_meh", "in_meh=0", "in_meh=1", "in_error=0", "call_handler",
       "in_error=1", "in_meh=0", "hb_off", "cur_hb=0", "in_error=0", "longjmp"] := by decide

/-- `sweepCallOuts`: one error context for the sweep, the recovery point INSIDE the loops (per entry), the entry is
    freed after the callback whether or not it raised -/
theorem call_out_order_as_modelled :
    NV.Gen.C09.callOutOrder =
      ["save_context", "sweep_loop", "entry_loop", "setjmp", "restore", "apply", "free_entry", "pop_context"] := by
  decide

/-- `sweepResets`: period test, context, recovery point BEFORE the list walk (the walk restarts), reset, pop -/
theorem sweep_order_as_modelled :
    NV.Gen.C09.sweepOrder = ["period_test", "save_context", "setjmp", "walk", "reset", "pop_context"] := by decide

/-- `removeInteractive` / `netDeadHook` / `freeConnOf`: CLOSING tested, then set, then net_dead under safe_apply, the
    console shutdown request, then the pending events of the record are cleared, the record is freed and pointer and slot
    are cleared -/
theorem remove_interactive_order_as_modelled :
    NV.Gen.C09.removeInteractiveOrder =
      ["test_closing", "set_closing", "net_dead", "shutdown", "shutdown", "clear_pending", "free", "clear_pointer",
       "clear_slot", "free_object"] := by decide

/-- `serveCommand`: process_input, VALIDATE_IP, the command, VALIDATE_IP, the prompt -/
theorem user_command_order_as_modelled :
    NV.Gen.C09.userCommandOrder = ["process_input", "validate", "command", "command", "validate", "prompt"] := by
  decide

/-- `mudlibConnect`: the extra master reference, connect() under its own recovery point (never the unprotected apply),
    the rejection exit, then the record moves to the user object and the master's reference is dropped -/
theorem connect_order_as_modelled :
    NV.Gen.C09.connectOrder =
      ["add_ref_master", "connect", "rejected", "bind", "clear_master", "free_master", "add_ref_user"] := by decide

/-- `setHeartBeat` (removal): only while a round is running (`num_hb_to_do != 0`) the round's position and length are
    adjusted - `index <= heart_beat_index` is the model's `i < hbNext` (hbNext = heart_beat_index + 1), `index < num_hb_to_do`
    is `i < hbToDo` -/
theorem hb_remove_as_modelled :
    NV.Gen.C09.hbRemoveStmts =
      ["if (num_hb_to_do)",
       "if (index <= heart_beat_index)",
       "heart_beat_index--;",
       "if (index < num_hb_to_do)",
       "num_hb_to_do--;"] := by decide

/-- `callHeartBeat` / `hbRound` / `hbLoop`: the round covers the entries present at its start, runs only when there is
    one, starts at index 0, stops when `++heart_beat_index == num_hb_to_do` (`hbNext = hbToDo`), resets both to 0 and clears
    `current_heart_beat` before the sweeps -/
theorem hb_round_as_modelled :
    NV.Gen.C09.hbRoundStmts =
      ["num_hb_to_do = num_hb_objs;",
       "if ((MAIN_OPTION(timer_flags) & TIMER_FLAG_HEARTBEAT) && (num_hb_to_do > 0))",
       "heart_beat_index = 0;",
       "ob = (curr_hb = &heart_beats[heart_beat_index])->ob;",
       "current_heart_beat = ob;",
       "if (++heart_beat_index == num_hb_to_do)",
       "if (heart_beat_index < num_hb_to_do)",
       "perc_hb_probes = 100 * (float) heart_beat_index / num_hb_to_do;",
       "heart_beat_index = num_hb_to_do = 0;",
       "current_heart_beat = 0;"] := by decide

/-- `timerSweeps` / `sweepPass` / `sweepObject` / `cleanupObject`: `current_time < next_time` skips the sweep, the period is
    `Gen.sweepPeriod`; destructed objects are skipped; `ref_time` is read BEFORE the reset test; reset when
    `next_reset < current_time` (strictly) and O_RESET_STATE is clear; clean_up when enabled, `current_time - ref_time >
    __TIME_TO_CLEAN_UP__` (strictly) and O_WILL_CLEAN_UP; O_RESET_STATE saved before and or-ed back after the apply (not on
    the error path, not for an object that destructed itself) -/
theorem sweep_tests_as_modelled :
    NV.Gen.C09.sweepStmts =
      ["if (current_time < next_time)",
       "next_time = current_time + 15 * 60;",
       "if (ob->flags & O_DESTRUCTED)",
       "ref_time = ob->time_of_ref;",
       "if ((ob->flags & O_WILL_RESET) && (ob->next_reset < current_time) && !(ob->flags & O_RESET_STATE))",
       "if (CONFIG_INT (__TIME_TO_CLEAN_UP__) > 0)",
       "if (current_time - ref_time > CONFIG_INT (__TIME_TO_CLEAN_UP__) && (ob->flags & O_WILL_CLEAN_UP))",
       "int save_reset_state = ob->flags & O_RESET_STATE;",
       "if (ob->flags & O_DESTRUCTED)",
       "ob->flags &= ~O_WILL_CLEAN_UP;",
       "ob->flags |= save_reset_state;"] := by decide

/-- `touch`: apply_low() stamps `time_of_ref` and clears O_RESET_STATE before it looks for the function -/
theorem apply_touch_as_modelled :
    NV.Gen.C09.applyTouchStmts =
      ["ob->time_of_ref = current_time;",
       "#endif ob->flags &= ~O_RESET_STATE;"] := by decide

/-- `inputToCommand`: NOESC dropped, no sentence -> 0, the sentence is freed and `i->input_to` cleared BEFORE the callback -/
theorem input_to_call_as_modelled :
    NV.Gen.C09.inputToCallStmts =
      ["i->iflags &= ~NOESC;",
       "if (!(sent = i->input_to))",
       "funp = sent->function.f;",
       "args = sent->args;",
       "i->input_to = 0;",
       "free_sentence",
       "clear_input_to",
       "callback"] := by decide

/-- `setInputTo` / `armInputTo`: refused without a connection or with a pending input_to, else installed -/
theorem set_call_as_modelled :
    NV.Gen.C09.setCallStmts =
      ["if (ob == 0 || sent == 0 || ob->interactive == 0 || ob->interactive->input_to)",
       "ob->interactive->input_to = sent;"] := by decide

/-- `promptStage`: the prompt is written only while `ip->input_to == 0`; the record is re-validated (IP_VALID) after each
    step that can run LPC code (the scripted user object defines write_prompt(): hook kind `prompt`, unprotected apply) -/
theorem prompt_as_modelled :
    NV.Gen.C09.promptStmts =
      ["if (ip->input_to == 0)",
       "if (!(ip->iflags & HAS_WRITE_PROMPT))",
       "if (!IP_VALID (ip, ob))",
       "ip->iflags &= ~HAS_WRITE_PROMPT;",
       "if (!IP_VALID (ip, ob))",
       "if (!IP_VALID (ip, ob))"] := by decide

/-- `serveCommand`: destructed command_giver first; the `!` escape and the ed branch (not scripted); then
    call_function_interactive BEFORE process_input (`inputToCommand` vs `plainCommand`) -/
theorem command_branches_as_modelled :
    NV.Gen.C09.commandBranchStmts =
      ["if (command_giver->flags & O_DESTRUCTED)",
       "if ((user_command[0] == '!') && ( #ifdef OLD_ED ip->ed_buffer || #endif (ip->input_to && !(ip->iflags & NOESC))))",
       "if (ip->iflags & HAS_PROCESS_INPUT)",
       "ip->iflags &= ~HAS_PROCESS_INPUT;",
       "if (ip->ed_buffer)",
       "if (call_function_interactive (ip, user_command))",
       "if (ip->iflags & HAS_PROCESS_INPUT)",
       "ip->iflags &= ~HAS_PROCESS_INPUT;"] := by decide

/-- `scanUsers`: at most `max_users` slots are looked at, the turn flag is tested and consumed, the cursor steps DOWN and
    wraps from 0 to `max_users - 1` (both after a miss and after taking a command) -/
theorem cursor_as_modelled :
    NV.Gen.C09.cursorStmts =
      ["static int s_next_user = 0;",
       "for (i = 0; i < max_users; i++)",
       "ip = all_users[s_next_user];",
       "if (ip->iflags & HAS_CMD_TURN)",
       "ip->iflags &= ~HAS_CMD_TURN;",
       "if (s_next_user-- == 0)",
       "s_next_user = max_users - 1;",
       "if (s_next_user-- == 0)",
       "s_next_user = max_users - 1;"] := by decide

/-- `startup` / `cycleHead` / `cycleBody` / `commandLoop`: the start-up steps are numbered (each runs once), every connected
    user is granted a turn and counted, the command loop runs while a command was processed and `i < connected_users` -/
theorem backend_loop_as_modelled :
    NV.Gen.C09.backendLoopStmts =
      ["volatile int startup_step = 0;",
       "if (startup_step == 0)",
       "startup_step = 1;",
       "if (startup_step == 1)",
       "startup_step = 2;",
       "int connected_users = 0;",
       "all_users[i]->iflags |= HAS_CMD_TURN;",
       "connected_users++;",
       "for (i = 0; process_user_command () && i < connected_users; i++)"] := by decide

/-- `newInteractive` / `firstFree`: the search starts at slot 1 and stops below `max_users`; the table grows by
    `Gen.userChunk` when `i >= max_users`, new slots are cleared -/
theorem slot_search_as_modelled :
    NV.Gen.C09.slotSearchStmts =
      ["for (i = 1; i < max_users; i++)",
       "if (i >= max_users)",
       "int new_max_users = max_users + 50;",
       "all_users = RESIZE (all_users, new_max_users, interactive_t *, TAG_USERS, \"new_user_handler\");",
       "all_users = CALLOCATE (new_max_users, interactive_t *, TAG_USERS, \"new_user_handler\");",
       "while (max_users < new_max_users)",
       "all_users[max_users++] = 0;"] := by decide

/-- `processIoEvents` / `ioEvent` / `processIo`: every reported event is looked at, the record is validated before
    use, error / hang-up is handled before reading, the record is re-validated through the object after get_user_data, the
    console flush is guarded by `all_users && all_users[0]` -/
theorem process_io_as_modelled :
    NV.Gen.C09.processIoStmts =
      ["if (g_num_io_events > 0)",
       "for (i = 0; i < g_num_io_events; i++)",
       "interactive_t *console_ip = all_users[0];",
       "console_ip = all_users[0];",
       "if (!ip->ob || (ip->ob->flags & O_DESTRUCTED) || ip->ob->interactive != ip)",
       "if (evt->event_type & (EVENT_ERROR | EVENT_CLOSE))",
       "if ((user_ob->flags & O_DESTRUCTED) || user_ob->interactive != ip)",
       "if (all_users && all_users[0])"] := by decide

/-- `removeInteractive` / `netDeadHook` / `freeConnOf`: CLOSING guard (tested, then set), net_dead only when not
    destructed, console test, pending events of this poll round that point to the record are cleared before it is freed,
    the slot is searched in the whole table and cleared -/
theorem remove_tests_as_modelled :
    NV.Gen.C09.removeStmts =
      ["if (ip->iflags & CLOSING)",
       "if (!dested)",
       "ip->iflags |= CLOSING;",
       "if (!dested)",
       "if (ip != all_users[0])",
       "if (MAIN_OPTION(console_mode) && ip == all_users[0])",
       "for (idx = 0; idx < g_num_io_events; idx++)",
       "if (g_io_events[idx].context == ip)",
       "g_io_events[idx].context = 0;",
       "for (idx = 0; idx < max_users; idx++)",
       "if (all_users[idx] == ip)",
       "all_users[idx] = 0;"] := by decide

/-- inventory of every place in the MODELLED functions of backend.c, error_context.c, comm.c and call_out.c where the
    driver itself starts LPC code (file : function : call : what), in source order (the other functions:
    `no_new_unprotected_apply_site`).  Modelled: connect (own recovery point - `mudlibConnect`), logon
    (safe_apply since the fix commit - `logonHook`), clean_up (recovery point of the sweep -
    `cleanupObject`), heart_beat (`hbLoop`), the master's error_handler (errors re-enter error_handler -
    `callMasterHandler`), process_input x2 of process_user_command (`inputStage`), net_dead (safe_apply - `netDeadHook`), the
    input_to callback (`inputToCommand`), write_prompt (`promptStage`), both call_out forms (per-entry recovery point - `sweepCallOuts`).  receive_snoop (safe_apply - `snoopHook`).  Not modelled
    (see not_covered): the three telnet callbacks (safe_apply, C13),
    process_input of the ASCII port in get_user_data, address-server
    callbacks, notify_fail closure.  A NEW site - protected or not - changes this list and breaks the obligation. -/
theorem apply_sites_as_modelled :
    NV.Gen.C09.applySites =
      ["backend.c:mudlib_connect:safe_apply_master_ob:APPLY_CONNECT",
       "backend.c:mudlib_logon:safe_apply:APPLY_LOGON",
       "backend.c:look_for_objects_to_swap:apply:APPLY_CLEAN_UP",
       "backend.c:call_heart_beat:call_function:ob->prog",
       "backend.c:preload_objects:apply_master_ob:APPLY_EPILOG",
       "backend.c:preload_objects:apply_master_ob:APPLY_PRELOAD",
       "error_context.c:mudlib_error_handler:apply_master_ob:APPLY_ERROR_HANDLER",
       "error_context.c:mudlib_error_handler:apply_master_ob:APPLY_ERROR_HANDLER",
       "comm.c:receive_snoop:safe_apply:APPLY_RECEIVE_SNOOP",
       "comm.c:process_user_command:apply:APPLY_PROCESS_INPUT",
       "comm.c:process_user_command:apply:APPLY_PROCESS_INPUT",
       "comm.c:remove_interactive:safe_apply:APPLY_NET_DEAD",
       "comm.c:call_function_interactive:call_function_pointer:funp",
       "comm.c:print_prompt:apply:APPLY_WRITE_PROMPT",
       "call_out.c:call_out:apply:cop->function.s",
       "call_out.c:call_out:call_function_pointer:cop->function.f"] := by decide

/-- functions outside the model that start LPC code WITHOUT a recovery point of their own (copy of the state this was
    written against) -/
def unprotectedAllowed : List String :=
  ["comm.c:get_user_data",
   "comm.c:query_addr_number"]

/-- in the functions the model does not mirror, no NEW unprotected driver-initiated apply appears: protecting one of the
    known sites, or adding a protected one, does not break this obligation (it is a subset test, not an equality) -/
theorem no_new_unprotected_apply_site :
    NV.Gen.C09.unprotectedElsewhere.all (fun x => unprotectedAllowed.contains x) = true := by decide


/-- `preloadObjects` / `preloadFiles`: epilog() under its own recovery point (error: restore, pop, return - nothing is
    preloaded); then the files under a second recovery point IN FRONT of the loop, whose error branch does `ix++` (the
    failing file is not retried, the next one is not skipped) -/
theorem preload_as_modelled :
    NV.Gen.C09.preloadStmts =
      ["save_context",
       "setjmp",
       "restore",
       "pop_context",
       "return",
       "epilog",
       "pop_context",
       "return",
       "return",
       "save_context",
       "setjmp",
       "restore",
       "next_file",
       "loop",
       "preload",
       "pop_context",
       "prefiles = ret->u.arr;",
       "if ((prefiles == 0) || (prefiles->size < 1))",
       "prefiles->ref++;",
       "ix = 0;",
       "ix++;",
       "for (; ix < prefiles->size; ix++)",
       "if (prefiles->item[ix].type != T_STRING)"] := by decide

/-- `errorHandler` / `caughtError` / `callMasterHandler`: both branches (caught / uncaught) test
    in_mudlib_error_handler; inside the handler the flag is cleared ONLY when the error is delivered to the context the
    handler was entered with (`current_error_context == mudlib_error_handler_context`): a catch() made by the handler
    keeps the flag (`caughtError` with the flag set changes nothing; behaviour `recurse` of the master ends like `raise`) -/
theorem error_handler_stmts_as_modelled :
    NV.Gen.C09.errorHandlerStmts =
      ["if (in_mudlib_error_handler)",
       "if (current_error_context == mudlib_error_handler_context)",
       "in_mudlib_error_handler = 0;",
       "in_mudlib_error_handler = 1;",
       "mudlib_error_handler_context = current_error_context;",
       "in_mudlib_error_handler = 0;",
       "if (in_error)",
       "in_error = 1;",
       "if (in_mudlib_error_handler)",
       "if (current_error_context == mudlib_error_handler_context)",
       "in_mudlib_error_handler = 0;",
       "in_mudlib_error_handler = 1;",
       "mudlib_error_handler_context = current_error_context;",
       "in_error = 0;",
       "in_error = 1;",
       "in_mudlib_error_handler = 0;",
       "if (current_heart_beat)",
       "current_heart_beat = 0;",
       "in_error = 0;"] := by decide

/-- `resetObjectR`: reset_object() stamps `next_reset` BEFORE it applies reset() ("Be sure to update time first !"): a
    reset() that raises leaves an object that is no longer due, so the restarted walk of the sweep moves on (with the
    assignment behind the apply the sweep would find the object due again and spin inside one tick: seeded C09-6,
    oracle clause `sweep`); O_RESET_STATE is set when the apply returns -/
theorem reset_object_as_modelled :
    NV.Gen.C09.resetObjectStmts =
      ["next_reset",
       "apply_reset",
       "clear_will_reset",
       "set_reset_state",
       "if (CONFIG_INT (__TIME_TO_RESET__) > 0)",
       "ob->next_reset = current_time + CONFIG_INT (__TIME_TO_RESET__) / 2 + rand () % (CONFIG_INT (__TIME_TO_RESET__) / 2);"] := by decide

/-- `setSnoop` / `snoopLoop` / `snoopLink`: destructed ends refused; stop-snoop form (not scripted); the loop
    protection walks `snoop_on` from the target and refuses when it meets the snooper; the snooper's previous target and
    the target's previous snooper are unlinked on BOTH sides before the new link is set -/
theorem set_snoop_as_modelled :
    NV.Gen.C09.snoopStmts =
      ["if (me->flags & O_DESTRUCTED)",
       "if (you && (you->flags & O_DESTRUCTED))",
       "if (by->snoop_on)",
       "by->snoop_on->snoop_by = 0;",
       "by->snoop_on = 0;",
       "for (tmp = on; tmp; tmp = tmp->snoop_on)",
       "if (by->snoop_on)",
       "by->snoop_on->snoop_by = 0;",
       "by->snoop_on = 0;",
       "if (on->snoop_by)",
       "on->snoop_by->snoop_on = 0;",
       "on->snoop_by = 0;",
       "on->snoop_by = by;",
       "by->snoop_on = on;"] := by decide

/-- every source shape of the repaired code that the model mirrors is present (all_users guard, re-validation through
    the object, recovery point before the start-up steps, load-average clamp, connect() under its own recovery point,
    pending events cleared when a record is freed, logon() under its own recovery point, the record re-validated after the CR LF echo in copy_chars(), the snoop
    forwarding of get_user_data() behind the CMD_IN_BUF update) -/
theorem guards_present : NV.Gen.C09.guardsPresent = [1, 1, 1, 1, 1, 1, 1, 1, 1] := by decide

end NV.C09
