/-
C09 driver: parses the case lines that the harness executes against the real backend() and runs the model
(`model` mode) or the specification oracle on an implementation trace (`judge` mode).

Case lines (shared with harness/c09/c09.c):
  load reg /c09/reg | mode net|console | meh ok|raise|recurse | clone o<k> /c09/obj
  script <oid> <kind> <ops>      oid: u<k> | o<k> | k<k> (k-th connect attempt: ops = err | rej)
                                 kind: logon | input | cmd:<verb> | netdead | hb | co:<tag> | reset | cleanup | prompt | snoop | it:<tag> | connect
  vapply o<k> do_ops <ops>       ops at set-up time
  preload ok,err,...|epilog-err  preload_objects(): epilog() names one file p<i> per entry; `err` = that file fails to load
  step <action>...               tick[:<dt>] conn:c<k> send:c<k>:<text> close:c<k> reset:c<k> cin:<text> idle
  run
ops (';' separated): ok | err | cerr | dest:<oid|me> | co:<delay>:<tag> | hb:<n> | w:<text> | meh:<mode> | it:<tag> | snoop:<oid>
-/
import NV.Common.Proto
import NV.C09.Model
import NV.C09.Spec

namespace NV.C09

open NV.Proto

def parseOid (s : String) : Option Oid :=
  if s.startsWith "u" then (s.drop 1).toString.toNat?.map Oid.user
  else if s.startsWith "o" then (s.drop 1).toString.toNat?.map Oid.obj
  else none

def parseMeh : String → Option Meh
  | "ok" => some .ok
  | "raise" => some .raise
  | "recurse" => some .recurse
  | _ => none

def parseOp (s : String) : Option Op :=
  match s.splitOn ":" with
  | ["ok"] => some .ok
  | ["err"] => some .err
  | ["cerr"] => some .cerr
  | ["dest", "me"] => some .destMe
  | ["dest", t] => (parseOid t).map Op.dest
  | ["co", d, tag] => d.toNat?.map (fun d => Op.co d tag)
  | ["hb", n] => n.toNat?.map Op.hb
  | ["w", t] => some (.w t)
  | ["meh", m] => (parseMeh m).map Op.meh
  | ["it", tag] => some (.it tag)
  | ["snoop", t] => (parseOid t).map Op.snoop
  | _ => none

def parseOps (s : String) : Option (List Op) :=
  let l := (s.splitOn ";").map parseOp
  if l.all Option.isSome then some (l.filterMap id) else none

def parseKind (s : String) : Option Kind :=
  match s.splitOn ":" with
  | ["logon"] => some .logon
  | ["input"] => some .input
  | ["cmd", v] => some (.cmd v)
  | ["netdead"] => some .netdead
  | ["hb"] => some .hb
  | ["co", t] => some (.co t)
  | ["reset"] => some .reset
  | ["cleanup"] => some .cleanup
  | ["prompt"] => some .prompt
  | ["snoop"] => some .snoop
  | ["it", t] => some (.it t)
  | _ => none

def parseClient (s : String) : Option Nat :=
  if s.startsWith "c" then (s.drop 1).toString.toNat? else none

def parseAction (s : String) : Option Action :=
  match s.splitOn ":" with
  | ["tick"] => some (.tick 2)
  | ["tick", dt] => dt.toInt?.map Action.tick
  | ["conn", c] => (parseClient c).map Action.conn
  | ["send", c, t] => (parseClient c).map (fun c => Action.send c t)
  | ["close", c] => (parseClient c).map Action.close
  | ["reset", c] => (parseClient c).map Action.reset
  | ["cin", t] => some (.cin t)
  | ["idle"] => some .idle
  | _ => none

inductive Setup
  | clone (k : Nat)
  | ops (o : Oid) (l : List Op)
  | preload (epilogRaises : Bool) (files : List (String × Bool))

structure Parsed where
  mode : Mode := .net
  meh : Meh := .ok
  hooks : List ((Oid × Kind) × List Op) := []
  connects : List (Nat × ConnB) := []
  setup : List Setup := []
  steps : List (List Action) := []
  expect : Expect := {}
  ran : Bool := false
  bad : List String := []

def noteAction (x : Expect) : Action → Expect
  | .conn c => { x with conns := x.conns ++ [c] }
  | .send c t => { x with sends := x.sends ++ [(c, t)] }
  | .cin t => { x with sends := x.sends ++ [(0, t)] }
  | .close c => { x with closed := c :: x.closed }
  | .reset c => { x with closed := c :: x.closed }
  | _ => x

def parseLine (p : Parsed) (line : String) : Parsed :=
  let badl : Parsed := { p with bad := line :: p.bad }
  match toks line with
  | [] => p
  | ["load", "reg", _] => p
  | ["run"] => { p with ran := true }
  | ["mode", "net"] => { p with mode := .net }
  | ["mode", "console"] => { p with mode := .console, expect := { p.expect with console := true } }
  | ["meh", m] => match parseMeh m with | some m => { p with meh := m } | none => badl
  | ["clone", o, _] =>
    match parseOid o with
    | some (.obj k) => { p with setup := p.setup ++ [.clone k] }
    | _ => badl
  | ["script", o, "connect", b] =>
    if o.startsWith "k" then
      match (o.drop 1).toString.toNat?, b with
      | some k, "err" => { p with connects := (k, .err) :: p.connects }
      | some k, "rej" => { p with connects := (k, .rej) :: p.connects }
      | _, _ => badl
    else badl
  | ["script", o, k, ops] =>
    match parseOid o, parseKind k, parseOps ops with
    | some o, some k, some l => { p with hooks := ((o, k), l) :: p.hooks }
    | _, _, _ => badl
  | ["vapply", o, "do_ops", ops] =>
    match parseOid o, parseOps ops with
    | some o, some l => { p with setup := p.setup ++ [.ops o l] }
    | _, _ => badl
  | ["preload", "epilog-err"] => { p with setup := p.setup ++ [.preload true []] }
  | ["preload", spec] =>
    let bs := spec.splitOn ","
    if bs.all (fun b => b == "ok" || b == "err") then
      let files := (List.range bs.length).map (fun i => (s!"p{i + 1}", bs.getD i "ok" == "err"))
      { p with setup := p.setup ++ [.preload false files],
               expect := { p.expect with preloads := p.expect.preloads ++ files.map (·.1) } }
    else badl
  | "step" :: acts =>
    let l := acts.map parseAction
    if l.all Option.isSome then
      let as := l.filterMap id
      let cy := p.steps.length + 1
      let x := as.foldl noteAction p.expect
      let pk := as.filterMap (fun a => match a with
        | .send c t => some (cy, c, t)
        | .cin t => some (cy, 0, t)
        | _ => none)
      { p with steps := p.steps ++ [as], expect := { x with sentAt := x.sentAt ++ pk } }
    else badl
  | _ =>
    if line.startsWith "# nosettle" then { p with expect := { p.expect with settle := false } }
    else if line.startsWith "#" then p else badl

def isTick : Action → Bool
  | .tick _ => true
  | _ => false

/-- 1-based index of the second-to-last step that contains a tick (0 when there are fewer than two) -/
def coCutoffOf (steps : List (List Action)) : Nat :=
  let idx := (List.range steps.length).filter (fun i => (steps.getD i []).any isTick)
  match idx.reverse with
  | _ :: b :: _ => b + 1
  | _ => 0

def parseCase (lines : List String) : Parsed :=
  let p := lines.foldl parseLine {}
  { p with expect := { p.expect with coCutoff := coCutoffOf p.steps } }

def scriptsOf (p : Parsed) : Scripts :=
  { hook := fun o k => match p.hooks.find? (fun e => e.1 == (o, k)) with
      | some e => e.2
      | none => []
    connect := fun k => match p.connects.find? (fun e => e.1 == k) with
      | some e => e.2
      | none => .ok }

def applySetup (S : Scripts) (w : W) : Setup → W
  | .clone k =>
    { w with objList := k :: w.objList,
             nextReset := fun x => if x = k then w.now + resetDuration / 2 else w.nextReset x }
  | .ops o l => (runOps (runHook S hookFuel) o l w).1
  | .preload e files => preloadObjects e files w

def w0Of (p : Parsed) (S : Scripts) : W :=
  p.setup.foldl (applySetup S) { mode := p.mode, meh := p.meh }

def render : Ev → String
  | .start => "start"
  | .cycle n => s!"cycle {n}"
  | .exitLoop => "exit loop"
  | .exitShutdown => "exit shutdown"
  | .tConnect k => s!"t connect k{k}"
  | .tLogon o => s!"t logon {o.name}"
  | .tInput o s => s!"t input {o.name} {s}"
  | .tCmd o v => s!"t cmd {o.name} {v}"
  | .tNetdead o => s!"t netdead {o.name}"
  | .tHb o => s!"t hb {o.name}"
  | .tCo o t => s!"t co {o.name} {t}"
  | .tReset o => s!"t reset {o.name}"
  | .tCleanup o => s!"t cleanup {o.name}"
  | .tPrompt o => s!"t prompt {o.name}"
  | .tSnoop o => s!"t snoop {o.name}"
  | .xSnoop o t => s!"x snoop {o.name} {t.name}"
  | .tEpilog => "t epilog"
  | .tPreload n => s!"t preload {n}"
  | .tIt o t l => (s!"t it {o.name} {t} {l}").trimAsciiEnd.toString
  | .xIt o t => s!"x it {o.name} {t}"
  | .xErr who => s!"x err {who}"
  | .xCerr o => s!"x cerr {o.name}"
  | .xDest o t => s!"x dest {o.name} {t.name}"
  | .xCo o t => s!"x co {o.name} {t}"
  | .xHb o n => s!"x hb {o.name} {n}"
  | .meh c msg => s!"meh {if c then 1 else 0} {msg}"
  | .hbs l => "hbs \"" ++ " ".intercalate l ++ "\""
  | .out n t => (s!"out {n} {t}").trimAsciiEnd.toString
  | .slots n => s!"slots {n}"
  | .refs m x => s!"refs {m} {x}"
  | .slotIdx l => (s!"slotidx {" ".intercalate (l.map toString)}").trimAsciiEnd.toString
  | .crash why => s!"crash {why}"

/-- inverse of `render` on implementation trace lines; anything else is a crash-class line -/
def parseEv (line : String) : Ev :=
  match toks line with
  | ["start"] => .start
  | ["cycle", n] => match n.toNat? with | some n => .cycle n | none => .crash line
  | ["exit", "loop"] => .exitLoop
  | ["exit", "shutdown"] => .exitShutdown
  | ["t", "connect", k] => match (k.drop 1).toString.toNat? with | some k => .tConnect k | none => .crash line
  | ["t", "logon", o] => match parseOid o with | some o => .tLogon o | none => .crash line
  | ["t", "input", o, s] => match parseOid o with | some o => .tInput o s | none => .crash line
  | ["t", "cmd", o, s] => match parseOid o with | some o => .tCmd o s | none => .crash line
  | ["t", "netdead", o] => match parseOid o with | some o => .tNetdead o | none => .crash line
  | ["t", "hb", o] => match parseOid o with | some o => .tHb o | none => .crash line
  | ["t", "co", o, t] => match parseOid o with | some o => .tCo o t | none => .crash line
  | ["t", "reset", o] => match parseOid o with | some o => .tReset o | none => .crash line
  | ["t", "cleanup", o] => match parseOid o with | some o => .tCleanup o | none => .crash line
  | ["t", "snoop", o] => match parseOid o with | some o => .tSnoop o | none => .crash line
  | ["x", "snoop", o, t] => match parseOid o, parseOid t with | some o, some t => .xSnoop o t | _, _ => .crash line
  | ["t", "epilog"] => .tEpilog
  | ["t", "preload", n] => .tPreload n
  | ["t", "prompt", o] => match parseOid o with | some o => .tPrompt o | none => .crash line
  | ["t", "it", o, t] => match parseOid o with | some o => .tIt o t "" | none => .crash line
  | ["t", "it", o, t, l] => match parseOid o with | some o => .tIt o t l | none => .crash line
  | ["x", "it", o, t] => match parseOid o with | some o => .xIt o t | none => .crash line
  | ["x", "err", who] => .xErr who
  | ["x", "cerr", o] => match parseOid o with | some o => .xCerr o | none => .crash line
  | ["x", "dest", o, t] => match parseOid o, parseOid t with | some o, some t => .xDest o t | _, _ => .crash line
  | ["x", "co", o, t] => match parseOid o with | some o => .xCo o t | none => .crash line
  | ["x", "hb", o, n] => match parseOid o, n.toNat? with | some o, some n => .xHb o n | _, _ => .crash line
  | "meh" :: c :: msg => .meh (c == "1") (" ".intercalate msg)
  | "hbs" :: l => .hbs ((l.map (fun s => s.replace "\"" "")).filter (· ≠ ""))
  | ["out", n] => .out n ""
  | ["out", n, t] => .out n t
  | ["slots", n] => match n.toNat? with | some n => .slots n | none => .crash line
  | "slotidx" :: l => .slotIdx (l.filterMap String.toNat?)
  | ["refs", m, x] => match m.toInt?, x.toInt? with | some m, some x => .refs m x | _, _ => .crash line
  | _ => .crash line

def runModel (lines : List String) : List String :=
  let p := parseCase lines
  if !p.bad.isEmpty then p.bad.map (fun l => s!"bad-line {l}")
  else
    let S := scriptsOf p
    let w0 := w0Of p S
    let w := if p.ran then runFull S w0 p.steps else w0
    w.trace.reverse.map render

def runJudge (body : List String) : List String :=
  let (input, impl) := splitJudge body
  let p := parseCase input
  -- complaints of the harness about the case itself (shrinking may produce such cases) are not driver crashes
  match impl.find? (fun l => l.startsWith "r " || l.startsWith "badcmd" || l.startsWith "badop") with
  | some l => [s!"bad malformed-case {l}"]
  | none =>
  match judgeEv p.expect (impl.map parseEv) with
  | [] => ["ok"]
  | vs => vs.map (fun v => s!"bad {v}")

def main (mode : String) : IO Unit :=
  match mode with
  | "model" => serve runModel
  | "judge" => serve runJudge
  | _ => IO.eprintln s!"C09: unknown mode {mode}"

end NV.C09
