/-
C09 — error_handler() (`errorHandler`, `callMasterHandler`, `caughtError`) keeps the invariant: the flag protocol
returns to (0, 0) for every master-handler behaviour (ok / raises / raises recursively), nothing else the invariant
looks at is touched.
-/
import NV.C09.Inv

namespace NV.C09

/-- the fields (other than the two flags) that the invariant and the relations look at -/
def proj (w : W) := (w.users, w.inter, w.nextUser, w.nextConnId, w.crashed, w.mode, w.ctxDepth, w.callouts, w.dead)

theorem Same.of_proj {w w' : W} (h : proj w' = proj w) (h1 : w'.inError = w.inError) (h2 : w'.inMeh = w.inMeh) :
    Same w w' := by
  simp only [proj, Prod.mk.injEq] at h
  obtain ⟨a, b, c, d, e, f, g, _, _⟩ := h
  exact ⟨a, b, c, d, e, h1, h2, f, g⟩

theorem proj_setHeartBeat (w : W) (o : Oid) (n : Nat) : proj (setHeartBeat w o n) = proj w := by
  unfold setHeartBeat
  split
  · rfl
  · split
    · split <;> rfl
    · split <;> rfl

theorem flags_setHeartBeat (w : W) (o : Oid) (n : Nat) :
    (setHeartBeat w o n).inError = w.inError ∧ (setHeartBeat w o n).inMeh = w.inMeh := by
  unfold setHeartBeat
  split
  · exact ⟨rfl, rfl⟩
  · split
    · split <;> exact ⟨rfl, rfl⟩
    · split <;> exact ⟨rfl, rfl⟩

theorem setHeartBeat_same (w : W) (o : Oid) (n : Nat) : Same w (setHeartBeat w o n) :=
  Same.of_proj (proj_setHeartBeat w o n) (flags_setHeartBeat w o n).1 (flags_setHeartBeat w o n).2

theorem proj_hbOff (w : W) : proj (hbOff w) = proj w := by
  unfold hbOff
  cases h : w.curHb with
  | none => rfl
  | some o => exact proj_setHeartBeat w o 0

theorem hbOff_inError (w : W) : (hbOff w).inError = w.inError := by
  unfold hbOff
  cases h : w.curHb with
  | none => rfl
  | some o => exact (flags_setHeartBeat w o 0).1

theorem hbOff_inMeh (w : W) : (hbOff w).inMeh = w.inMeh := by
  unfold hbOff
  cases h : w.curHb with
  | none => rfl
  | some o => exact (flags_setHeartBeat w o 0).2

theorem proj_errExit (w : W) : proj (errExit w) = proj w := by
  show proj (hbOff (setMeh (setErr w true) false)) = proj w
  rw [proj_hbOff]; rfl

theorem errExit_inError (w : W) : (errExit w).inError = false := rfl
theorem errExit_inMeh (w : W) : (errExit w).inMeh = false := by
  show (hbOff (setMeh (setErr w true) false)).inMeh = false
  rw [hbOff_inMeh]; rfl

theorem proj_reenter (w : W) : proj (reenter w) = proj w := rfl

theorem cmh_proj : ∀ (fuel : Nat) (w : W) (msg : String), proj (callMasterHandler fuel w msg).1 = proj w := by
  intro fuel
  induction fuel with
  | zero => intro w msg; rfl
  | succ n ih =>
    intro w msg
    unfold callMasterHandler
    split
    · rfl
    · show proj (errExit _) = _
      rw [proj_errExit]; rfl
    · split
      · simp only []
        have h := ih (reenter (emit w (.meh false msg))) "mehagain"
        split
        · exact h
        · show proj (errExit _) = _
          rw [proj_errExit, h]; rfl
      · rfl

/-- the flag protocol of the master-handler step, for EVERY handler behaviour (ok / raises / raises recursively):
    entered with in_error = 0 it comes back with in_error = 0; if it left through a (nested) error,
    in_mudlib_error_handler is 0, otherwise it is unchanged -/
theorem cmh_flags : ∀ (fuel : Nat) (w : W) (msg : String), w.inError = false →
    (callMasterHandler fuel w msg).1.inError = false ∧
    ((callMasterHandler fuel w msg).2 = true → (callMasterHandler fuel w msg).1.inMeh = false) ∧
    ((callMasterHandler fuel w msg).2 = false → (callMasterHandler fuel w msg).1.inMeh = w.inMeh) := by
  intro fuel
  induction fuel with
  | zero => intro w msg h; exact ⟨h, fun h' => by simp [callMasterHandler] at h', fun _ => rfl⟩
  | succ n ih =>
    intro w msg h
    unfold callMasterHandler
    split
    · exact ⟨h, fun h' => by simp at h', fun _ => rfl⟩
    · exact ⟨rfl, fun _ => errExit_inMeh _, fun h' => by simp at h'⟩
    · split
      · simp only []
        obtain ⟨a, b, _⟩ := ih (reenter (emit w (.meh false msg))) "mehagain" rfl
        split
        · rename_i hr
          exact ⟨a, fun _ => b hr, fun h' => by simp at h'⟩
        · exact ⟨rfl, fun _ => errExit_inMeh _, fun h' => by simp at h'⟩
      · exact ⟨h, fun h' => by simp at h', fun _ => rfl⟩

/-- error_handler() outside a catch, entered with both flags clear, leaves them clear and touches nothing else the
    invariant looks at - whatever the master's handler does -/
theorem errorHandler_same (w : W) (msg : String) (h1 : w.inError = false) (h2 : w.inMeh = false) :
    Same w (errorHandler w msg) := by
  unfold errorHandler
  simp only [h1, h2, Bool.false_eq_true, if_false]
  have hp := cmh_proj 3 (setErr (setMeh (setErr w true) true) false) msg
  obtain ⟨a, b, c⟩ := cmh_flags 3 (setErr (setMeh (setErr w true) true) false) msg rfl
  split
  · rename_i hr
    exact Same.of_proj hp (by rw [a, h1]) (by rw [b hr, h2])
  · exact Same.of_proj (by rw [proj_errExit, hp]; rfl) (by rw [errExit_inError, h1]) (by rw [errExit_inMeh, h2])

theorem errorHandler_step (w : W) (msg : String) : Step w (errorHandler w msg) := fun i =>
  (errorHandler_same w msg i.inError i.inMeh).step i

theorem caughtError_same (w : W) (msg : String) (h2 : w.inMeh = false) : Same w (caughtError w msg) := by
  unfold caughtError
  simp only [h2, Bool.false_eq_true, if_false]
  exact ⟨rfl, rfl, rfl, rfl, rfl, rfl, by simp [emit, h2], rfl, rfl⟩

theorem caughtError_step (w : W) (msg : String) : Step w (caughtError w msg) := fun i =>
  (caughtError_same w msg i.inMeh).step i

theorem emit_same (w : W) (e : Ev) : Same w (emit w e) := ⟨rfl, rfl, rfl, rfl, rfl, rfl, rfl, rfl, rfl⟩
theorem setDead_same (w : W) (o : Oid) : Same w (setDead w o) := ⟨rfl, rfl, rfl, rfl, rfl, rfl, rfl, rfl, rfl⟩

theorem updateLoadAv_same (w : W) : Same w (updateLoadAv w) := by
  unfold updateLoadAv
  split
  · exact Same.refl w
  · split <;> exact ⟨rfl, rfl, rfl, rfl, rfl, rfl, rfl, rfl, rfl⟩

end NV.C09
