/-
C09 — error_handler() (`errorHandler`, `callMasterHandler`, `caughtError`) keeps the invariant: the flag protocol
returns to (0, 0) for every master-handler behaviour (ok / raises / raises recursively), nothing else the invariant
looks at is touched.
-/
import NV.C09.Inv

namespace NV.C09

/-- the fields (other than the two flags) that the invariant and the relations look at -/
def proj (w : W) := (w.users, w.inter, w.nextUser, w.nextConnId, w.crashed, w.mode, w.ctxDepth, w.callouts, w.dead)

theorem Same.of_proj {w w' : W} (h : proj w' = proj w) (h1 : w'.inError = w.inError) (h2 : w'.inMeh = w.inMeh)
    (t : TrExt w w') : Same w w' := by
  simp only [proj, Prod.mk.injEq] at h
  obtain ⟨a, b, c, d, e, f, g, _, _⟩ := h
  exact ⟨a, b, c, d, e, h1, h2, f, g, t⟩

theorem BlockOK.of_quiet : ∀ (es : List Ev), (∀ e ∈ es, quiet e = true) → BlockOK es := by
  intro es h
  refine ⟨?_, ?_, ?_, ?_⟩
  rotate_left 3
  · intro e he
    have := h e he
    cases e <;> first | rfl | (simp [quiet] at this)
  · intro e he
    have := h e he
    cases e <;> first | rfl | (simp [quiet] at this)
  · have : ∀ (l : List Ev), (∀ e ∈ l, quiet e = true) → reportOk l = true := by
      intro l
      induction l with
      | nil => intro _; rfl
      | cons x xs ih =>
        intro hl
        have hx := hl x List.mem_cons_self
        have hxs := ih (fun e he => hl e (List.mem_cons_of_mem _ he))
        cases x <;> first | exact hxs | (simp [quiet] at hx)
    exact this _ (fun e he => h e (List.mem_reverse.mp he))
  · intro who hh
    cases es with
    | nil => simp at hh
    | cons x xs =>
      simp at hh
      have := h x List.mem_cons_self
      rw [hh] at this
      simp [quiet] at this

theorem trace_setHeartBeat (w : W) (o : Oid) (n : Nat) : (setHeartBeat w o n).trace = w.trace := by
  unfold setHeartBeat
  split
  · rfl
  · split
    · split <;> rfl
    · split <;> rfl

theorem trace_hbOff (w : W) : (hbOff w).trace = w.trace := by
  unfold hbOff
  cases h : w.curHb with
  | none => rfl
  | some o => exact trace_setHeartBeat w o 0

theorem trace_errExit (w : W) : (errExit w).trace = w.trace := by
  show (hbOff (setMeh (setErr w true) false)).trace = w.trace
  rw [trace_hbOff]; rfl

theorem proj_setHeartBeat (w : W) (o : Oid) (n : Nat) : proj (setHeartBeat w o n) = proj w := by
  unfold setHeartBeat
  split
  · rfl
  · split
    · split <;> rfl
    · split <;> rfl

theorem flags_setHeartBeat (w : W) (o : Oid) (n : Nat) :
    (setHeartBeat w o n).inError = w.inError ∧ (setHeartBeat w o n).inMeh = w.inMeh := by
  unfold setHeartBeat
  split
  · exact ⟨rfl, rfl⟩
  · split
    · split <;> exact ⟨rfl, rfl⟩
    · split <;> exact ⟨rfl, rfl⟩

theorem setHeartBeat_same (w : W) (o : Oid) (n : Nat) : Same w (setHeartBeat w o n) :=
  Same.of_proj (proj_setHeartBeat w o n) (flags_setHeartBeat w o n).1 (flags_setHeartBeat w o n).2
    (TrExt.of_eq (trace_setHeartBeat w o n))

theorem proj_hbOff (w : W) : proj (hbOff w) = proj w := by
  unfold hbOff
  cases h : w.curHb with
  | none => rfl
  | some o => exact proj_setHeartBeat w o 0

theorem hbOff_inError (w : W) : (hbOff w).inError = w.inError := by
  unfold hbOff
  cases h : w.curHb with
  | none => rfl
  | some o => exact (flags_setHeartBeat w o 0).1

theorem hbOff_inMeh (w : W) : (hbOff w).inMeh = w.inMeh := by
  unfold hbOff
  cases h : w.curHb with
  | none => rfl
  | some o => exact (flags_setHeartBeat w o 0).2

theorem proj_errExit (w : W) : proj (errExit w) = proj w := by
  show proj (hbOff (setMeh (setErr w true) false)) = proj w
  rw [proj_hbOff]; rfl

theorem errExit_inError (w : W) : (errExit w).inError = false := rfl
theorem errExit_inMeh (w : W) : (errExit w).inMeh = false := by
  show (hbOff (setMeh (setErr w true) false)).inMeh = false
  rw [hbOff_inMeh]; rfl

theorem proj_bumpDepth (w : W) : proj (bumpDepth w) = proj w := rfl

theorem callMasterHandler_succ (n : Nat) (w : W) (msg : String) :
    callMasterHandler (n + 1) w msg =
      (match w.meh with
       | .ok => (emit w (.meh false msg), false)
       | .raise => (errExit (emit w (.meh false msg)), true)
       | .recurse =>
         if w.mehDepth < 2 then (errExit (bumpDepth (emit w (.meh false msg))), true)
         else (resetDepth (emit w (.meh false msg)), false)) := rfl

theorem cmh_proj : ∀ (fuel : Nat) (w : W) (msg : String), proj (callMasterHandler fuel w msg).1 = proj w := by
  intro fuel w msg
  cases fuel with
  | zero => rfl
  | succ n =>
    rw [callMasterHandler_succ]
    split
    · rfl
    · show proj (errExit _) = _
      rw [proj_errExit]; rfl
    · split
      · show proj (errExit _) = _
        rw [proj_errExit]; rfl
      · rfl

/-- the flag protocol of the master-handler step, for EVERY handler behaviour (ok / raises / catches an inner error and
    raises): entered with in_error = 0 it comes back with in_error = 0; if it left through a (nested) error,
    in_mudlib_error_handler is 0, otherwise it is unchanged -/
theorem cmh_flags : ∀ (fuel : Nat) (w : W) (msg : String), w.inError = false →
    (callMasterHandler fuel w msg).1.inError = false ∧
    ((callMasterHandler fuel w msg).2 = true → (callMasterHandler fuel w msg).1.inMeh = false) ∧
    ((callMasterHandler fuel w msg).2 = false → (callMasterHandler fuel w msg).1.inMeh = w.inMeh) := by
  intro fuel w msg h
  cases fuel with
  | zero => exact ⟨h, fun h' => by simp [callMasterHandler] at h', fun _ => rfl⟩
  | succ n =>
    rw [callMasterHandler_succ]
    split
    · exact ⟨h, fun h' => by simp at h', fun _ => rfl⟩
    · exact ⟨rfl, fun _ => errExit_inMeh _, fun h' => by simp at h'⟩
    · split
      · exact ⟨rfl, fun _ => errExit_inMeh _, fun h' => by simp at h'⟩
      · exact ⟨h, fun h' => by simp at h', fun _ => rfl⟩

/-- the events of the master-handler step: exactly the report -/
theorem cmh_trace : ∀ (fuel : Nat) (w : W) (msg : String),
    ∃ es, (callMasterHandler fuel w msg).1.trace = es ++ (Ev.meh false msg :: w.trace) ∧
      ∀ e ∈ es, quiet e = true := by
  intro fuel w msg
  cases fuel with
  | zero => exact ⟨[], rfl, by simp⟩
  | succ n =>
    rw [callMasterHandler_succ]
    split
    · exact ⟨[], rfl, by simp⟩
    · exact ⟨[], by show (errExit _).trace = _; rw [trace_errExit]; rfl, by simp⟩
    · split
      · exact ⟨[], by show (errExit _).trace = _; rw [trace_errExit]; rfl, by simp⟩
      · exact ⟨[], rfl, by simp⟩

/-- the events of error_handler() entered with both flags clear: the report to the master comes first -/
theorem errorHandler_trace (w : W) (msg : String) (h1 : w.inError = false) (h2 : w.inMeh = false) :
    ∃ es, (errorHandler w msg).trace = es ++ (Ev.meh false msg :: w.trace) ∧ ∀ e ∈ es, quiet e = true := by
  unfold errorHandler
  simp only [h1, h2, Bool.false_eq_true, if_false]
  obtain ⟨es, he, hq⟩ := cmh_trace 3 (setErr (setMeh (setErr w true) true) false) msg
  split
  · exact ⟨es, he, hq⟩
  · exact ⟨es, by rw [trace_errExit]; exact he, hq⟩

/-- error_handler() outside a catch, entered with both flags clear, leaves them clear and touches nothing else the
    invariant looks at - whatever the master's handler does -/
theorem errorHandler_same (w : W) (msg : String) (h1 : w.inError = false) (h2 : w.inMeh = false) :
    Same w (errorHandler w msg) := by
  have ht : TrExt w (errorHandler w msg) := by
    obtain ⟨es, he, hq⟩ := errorHandler_trace w msg h1 h2
    refine ⟨es ++ [Ev.meh false msg], by rw [he]; simp, BlockOK.of_quiet _ ?_⟩
    intro e he
    rcases List.mem_append.mp he with h | h
    · exact hq e h
    · simp at h; rw [h]; rfl
  unfold errorHandler at ht ⊢
  simp only [h1, h2, Bool.false_eq_true, if_false] at ht ⊢
  have hp := cmh_proj 3 (setErr (setMeh (setErr w true) true) false) msg
  obtain ⟨a, b, c⟩ := cmh_flags 3 (setErr (setMeh (setErr w true) true) false) msg rfl
  split
  · rename_i hr
    simp only [hr, if_true] at ht
    exact Same.of_proj hp (by rw [a, h1]) (by rw [b hr, h2]) ht
  · rename_i hr
    simp only [hr, if_false] at ht
    exact Same.of_proj (by rw [proj_errExit, hp]; rfl) (by rw [errExit_inError, h1]) (by rw [errExit_inMeh, h2]) ht

theorem errorHandler_step (w : W) (msg : String) : Step w (errorHandler w msg) := fun i =>
  (errorHandler_same w msg i.inError i.inMeh).step i

/-- an uncaught error: `x err who` announced, then error_handler() - the report follows immediately -/
theorem raise_step (w : W) (who : String) :
    Step w (errorHandler (emit w (.xErr who)) s!"boom {who}") := by
  intro i
  have s := errorHandler_same (emit w (.xErr who)) s!"boom {who}" i.inError i.inMeh
  obtain ⟨es, he, hq⟩ := errorHandler_trace (emit w (.xErr who)) s!"boom {who}" i.inError i.inMeh
  have hb : BlockOK (es ++ [Ev.meh false s!"boom {who}", Ev.xErr who]) := by
    have hqq : ∀ e ∈ es ++ [Ev.meh false s!"boom {who}"], quiet e = true := by
      intro e he
      rcases List.mem_append.mp he with h | h
      · exact hq e h
      · simp at h; rw [h]; rfl
    have b1 := BlockOK.of_quiet _ hqq
    refine ⟨?_, ?_, ?_, ?_⟩
    rotate_left 3
    · intro e he
      have : e ∈ (es ++ [Ev.meh false s!"boom {who}"]) ∨ e = Ev.xErr who := by
        simp at he ⊢; rcases he with h | h | h
        · exact Or.inl (Or.inl h)
        · exact Or.inl (Or.inr h)
        · exact Or.inr h
      rcases this with h | h
      · exact b1.noCycle e h
      · rw [h]; rfl
    · intro e he
      have : e ∈ (es ++ [Ev.meh false s!"boom {who}"]) ∨ e = Ev.xErr who := by
        simp at he ⊢; rcases he with h | h | h
        · exact Or.inl (Or.inl h)
        · exact Or.inl (Or.inr h)
        · exact Or.inr h
      rcases this with h | h
      · exact b1.noCrash e h
      · rw [h]; rfl
    · have : (es ++ [Ev.meh false s!"boom {who}", Ev.xErr who]).reverse =
          Ev.xErr who :: (es ++ [Ev.meh false s!"boom {who}"]).reverse := by simp
      rw [this]
      have hr := b1.report
      have : (es ++ [Ev.meh false s!"boom {who}"]).reverse = Ev.meh false s!"boom {who}" :: es.reverse := by simp
      rw [this] at hr ⊢
      simp only [reportOk, Bool.and_eq_true]
      exact ⟨by simp, hr⟩
    · intro w' hh
      cases es with
      | nil => simp at hh
      | cons x xs =>
        simp at hh
        have := hq x List.mem_cons_self
        rw [hh] at this; simp [quiet] at this
  have inv' : Inv (emit w (.xErr who)) :=
    ⟨i.crashed, i.inError, i.inMeh, i.live, i.inj, i.len, i.cur, i.cur0, i.bound⟩
  have s' : Same w (errorHandler (emit w (.xErr who)) s!"boom {who}") :=
    ⟨s.users, s.inter, s.nextUser, s.nextConnId, s.crashed, s.inError, s.inMeh, s.mode, s.ctx,
      ⟨_, by rw [he]; show _ = _ ++ w.trace; simp [emit], hb⟩⟩
  exact s'.step i

theorem caughtError_same (w : W) (msg : String) (h2 : w.inMeh = false) : Same w (caughtError w msg) := by
  unfold caughtError
  simp only [h2, Bool.false_eq_true, if_false]
  exact ⟨rfl, rfl, rfl, rfl, rfl, rfl, by simp [emit, h2], rfl, rfl, by trx⟩

theorem caughtError_step (w : W) (msg : String) : Step w (caughtError w msg) := fun i =>
  (caughtError_same w msg i.inMeh).step i

theorem emit_same (w : W) (e : Ev) (q : quiet e = true := by rfl) : Same w (emit w e) :=
  ⟨rfl, rfl, rfl, rfl, rfl, rfl, rfl, rfl, rfl, TrExt.one rfl q⟩
theorem setDead_same (w : W) (o : Oid) : Same w (setDead w o) := ⟨rfl, rfl, rfl, rfl, rfl, rfl, rfl, rfl, rfl, by trx⟩

theorem updateLoadAv_same (w : W) : Same w (updateLoadAv w) := by
  unfold updateLoadAv
  split
  · exact Same.refl w
  · split <;> exact ⟨rfl, rfl, rfl, rfl, rfl, rfl, rfl, rfl, rfl, by trx⟩

end NV.C09
