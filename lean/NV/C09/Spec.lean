/-
C09 — specification oracle.  It judges a trace of structured events (`Ev`) - the model's or the real driver's - and
knows nothing about the implementation's data structures (slots, cursors, flags, error contexts).  What it needs from
the case input (which lines each client sent, in which order clients connected, the mode) is handed over as `Expect`.

Clauses (property C09):
  crash        no crash / sanitizer report / missing exit
  liveness     the cycle markers count 1,2,3,... and the run ends with `exit loop` (or `exit shutdown`, legitimate only
               in console mode after the console user was destructed: stdin is a pipe)
  report       every uncaught error (`x err who`) is immediately reported to the master (`meh 0 boom who`)
  heartbeats   the set of objects whose heart beat is on at the end = switched on - switched off - destructed -
               (objects in whose heart_beat task an uncaught error occurred): only the failing object's is removed
  commands     every complete line a client sent reaches its user object (process_input), in order, exactly once (a
               prefix if the user was disconnected / destructed, or the driver was shut down from the console); the
               commands executed are a subsequence of these lines (a line is dropped only when its own input task failed)
  callouts     every scheduled call_out fired, unless its object was destructed (or shutdown)
  leak         no connection record outlives its user (slots occupied at the end = users still connected)
  hb-schedule  within one loop iteration (one timer tick) an object's heart_beat runs at most once, and never after the
               object was destructed: a failing or self-removing heart beat does not disturb the round of the others
  turns        within one loop iteration a user gets at most ONE command served (process_input once, the command once):
               a user with a backlog cannot keep the others waiting
  isolation    a failing task of ONE user does not keep the OTHERS waiting: once a complete line is at the head of its
               user's input (delivered, and the user's previous line served) it is served within `users + 2` loop
               iterations - each other user can abort at most one iteration with an uncaught error before the rotating
               start slot has moved past him (C12 owns the exact fairness statement; this is the failure-isolation bound)
  sweep        bounded work per tick: within one loop iteration the object sweep applies reset() to an object at most once
               and clean_up() at most once - the sweep restarts its walk after an error, and a failing reset() must
               not be found due again (the driver would spin inside one tick, nobody else is served any more)
  preload      every file the master's epilog() names is handed to preload(), in order, also after one failed to load
  disconnect   the driver tells a user object `net_dead` only when that user's own client went away: events of other
               connections (hang-ups, errors, accepts arriving in the same poll) never cost a user its connection
-/
import NV.C09.Model

namespace NV.C09

structure Expect where
  console : Bool := false
  conns : List Nat := []                 -- clients in the order they connect
  sends : List (Nat × String) := []      -- (client, text), '/' = end of line; client 0 = console
  closed : List Nat := []                -- clients the script closes
  settle : Bool := true                  -- the history ends with enough idle cycles / ticks to drain everything
  coCutoff : Nat := 0                    -- cycle of the second-to-last tick: call_outs scheduled later may stay pending
  preloads : List String := []           -- files epilog() hands to preload_objects(), in order
  sentAt : List (Nat × Nat × String) := []   -- (cycle of the poll that delivered it, client, text) for every packet

def isCrash : Ev → Bool
  | .crash _ => true
  | _ => false

/-- cycle markers must count up from 1 -/
def cyclesOk : Nat → List Ev → Bool
  | _, [] => true
  | n, .cycle k :: es => k == n && cyclesOk (n + 1) es
  | n, _ :: es => cyclesOk n es

def hasExit (es : List Ev) : Option Bool :=      -- some true = shutdown
  if es.contains .exitShutdown then some true else if es.contains .exitLoop then some false else none

def destructedUsers (es : List Ev) : List Oid :=
  es.filterMap (fun e => match e with | .xDest _ (.user k) => some (.user k) | _ => none)

/-- every `x err who` is directly followed by the report -/
def reportOk : List Ev → Bool
  | [] => true
  | .xErr who :: rest =>
    (match rest with
     | .meh false msg :: _ => msg == s!"boom {who}"
     | _ => false) && reportOk rest
  | _ :: rest => reportOk rest

/-- expected final heart-beat set, from the events alone -/
def hbExpected : Option Oid → List Oid → List Ev → List Oid
  | _, on, [] => on
  | cur, on, e :: es =>
    match e with
    | .tHb o => hbExpected (some o) on es
    | .xHb o n => hbExpected cur (if n = 0 then on.erase o else if on.contains o then on else on ++ [o]) es
    | .xDest _ t => hbExpected (if cur = some t then none else cur) (on.erase t) es
    | .xErr _ =>
      (match cur with
       | some o => hbExpected none (on.erase o) es
       | none => hbExpected none on es)
    | .tCmd _ _ | .tInput _ _ | .tIt _ _ _ | .tPrompt _ | .tSnoop _ | .tEpilog | .tPreload _ | .tCo _ _ | .tReset _ | .tCleanup _ | .tConnect _ | .tLogon _ | .cycle _ => hbExpected none on es
    | _ => hbExpected cur on es

def finalHbs (es : List Ev) : Option (List String) :=
  es.findSome? (fun e => match e with | .hbs l => some l | _ => none)

/-- users in the order of successful connections: each `t connect` directly followed by `t logon u` -/
def usersOfConnects : List Ev → List (Option Oid)
  | [] => []
  | .tConnect _ :: .tLogon u :: es => some u :: usersOfConnects es
  | .tConnect _ :: es => none :: usersOfConnects es
  | _ :: es => usersOfConnects es

def linesOf (sends : List (Nat × String)) (client : Nat) : List String :=
  let text := String.join ((sends.filter (·.1 == client)).map (·.2))
  ((text.splitOn "/").dropLast).filter (· ≠ "")

def servedCmds (es : List Ev) (u : Oid) : List String :=
  es.filterMap (fun e => match e with | .tCmd o v => if o = u then some v else none | _ => none)

/-- the lines that reached the user object: through process_input, or through a pending input_to() callback -/
def servedInputs (es : List Ev) (u : Oid) : List String :=
  es.filterMap (fun e => match e with
    | .tInput o v => if o = u then some v else none
    | .tIt o _ v => if o = u then some v else none
    | _ => none)

def goneUsers (es : List Ev) : List Oid :=
  es.filterMap (fun e => match e with
    | .xDest _ (.user k) => some (.user k)
    | .tNetdead o => some o
    | _ => none)

def loggedOn (es : List Ev) : List Oid :=
  es.filterMap (fun e => match e with | .tLogon o => some o | _ => none)

/-- users that are connected at the end: logged on and neither destructed nor net-dead AFTERWARDS (a `dest` aimed
    at a user that does not exist yet is a no-op in the driver) -/
def liveUsers : List Oid → List Ev → List Oid
  | live, [] => live
  | live, .tLogon u :: es => liveUsers (if live.contains u then live else u :: live) es
  | live, .xDest _ t :: es => liveUsers (live.erase t) es
  | live, .tNetdead u :: es => liveUsers (live.erase u) es
  | live, _ :: es => liveUsers live es

def finalSlots (es : List Ev) : Option Nat :=
  es.findSome? (fun e => match e with | .slots n => some n | _ => none)

/-- the events before the marker of cycle `n` -/
def beforeCycle (n : Nat) : List Ev → List Ev
  | [] => []
  | .cycle k :: es => if k ≥ n then [] else .cycle k :: beforeCycle n es
  | e :: es => e :: beforeCycle n es

def isPrefix (a b : List String) : Bool := a.length ≤ b.length && b.take a.length == a

def isSubseq : List String → List String → Bool
  | [], _ => true
  | _ :: _, [] => false
  | a :: as, b :: bs => if b.startsWith a then isSubseq as bs else isSubseq (a :: as) bs   -- verb = start of the line

/-- clause `crash`: the first crash / sanitizer line, if any -/
def clauseCrash (es : List Ev) : List String :=
  ((es.filter isCrash).map (fun e => match e with | .crash why => s!"crash {why}" | _ => "crash")).take 1

/-- clause `report`: every uncaught error is reported to the master at once -/
def clauseReport (es : List Ev) : List String :=
  if reportOk es then [] else ["report uncaught error not reported to the master"]

/-- clause `liveness` (cycle markers) -/
def clauseCycles (es : List Ev) : List String :=
  if cyclesOk 1 es then [] else ["liveness cycle-markers"]

/-- clause `liveness` (the loop was left in an orderly way) -/
def clauseExit (x : Expect) (es : List Ev) : List String :=
  match hasExit es with
  | none => ["liveness no-exit"]
  | some true =>
    -- stdin of the harness console is a pipe: losing the console user (destructed, or its connection rejected
    -- by the master) is the documented shutdown request
    if x.console && (!(destructedUsers es).isEmpty || (usersOfConnects es).contains none) then []
    else ["liveness unexpected-shutdown"]
  | some false => []

/-- clause `refs`: the vital objects' reference counts are back where they were when backend() was entered: the
    extra reference connection set-up takes on the master is returned on every path -/
def clauseRefs (es : List Ev) : List String :=
  es.filterMap (fun e => match e with
    | .refs m x => if m == 0 && x == 0 then none else some s!"refs master={m} simul_efun={x}"
    | _ => none)

/-- clause `disconnect`: `net_dead` is applied only to users whose own client closed or reset the connection
    (`clients` / `users` pair every scripted client with the user object its connection was given) -/
def clauseDisconnect (x : Expect) (es : List Ev) : List String :=
  let clients := (if x.console then [0] else []) ++ x.conns
  (clients.zip (usersOfConnects es)).filterMap (fun (c, ou) =>
    match ou with
    | none => none
    | some u =>
      if es.contains (.tNetdead u) && !x.closed.contains c then
        some s!"disconnect {u.name} lost its connection although client c{c} never hung up"
      else none)

/-- clause `hb-schedule`: `seen` = objects whose heart_beat already ran in this iteration, `gone` = destructed objects
    (a `dest` aimed at a user that has not logged on yet is a no-op in the driver), `on` = users that have logged on -/
def hbSchedule : List Oid → List Oid → List Oid → List Ev → List String
  | _, _, _, [] => []
  | _, gone, on, .cycle _ :: es => hbSchedule [] gone on es
  | seen, gone, on, .tLogon u :: es => hbSchedule seen gone (u :: on) es
  | seen, gone, on, .tHb o :: es =>
    if gone.contains o then [s!"hb-schedule heart_beat of destructed {o.name}"]
    else if seen.contains o then [s!"hb-schedule {o.name} beat twice in one tick"]
    else hbSchedule (o :: seen) gone on es
  | seen, gone, on, .xDest _ t :: es =>
    match t with
    | .user _ => hbSchedule seen (if on.contains t then t :: gone else gone) on es
    | _ => hbSchedule seen (t :: gone) on es
  | seen, gone, on, _ :: es => hbSchedule seen gone on es

def clauseHbSchedule (es : List Ev) : List String := hbSchedule [] [] [] es

/-- clause `turns`: `ins` / `cmds` = users whose process_input / command already ran in this iteration -/
def turnsOk : List Oid → List Oid → List Ev → List String
  | _, _, [] => []
  | _, _, .cycle _ :: es => turnsOk [] [] es
  | ins, cmds, .tInput u _ :: es =>
    if ins.contains u then [s!"turns {u.name} served twice in one iteration"] else turnsOk (u :: ins) cmds es
  | ins, cmds, .tIt u _ _ :: es =>
    if ins.contains u then [s!"turns {u.name} served twice in one iteration"] else turnsOk (u :: ins) cmds es
  | ins, cmds, .tCmd u _ :: es =>
    if cmds.contains u then [s!"turns {u.name} served twice in one iteration"] else turnsOk ins (u :: cmds) es
  | ins, cmds, _ :: es => turnsOk ins cmds es

def clauseTurns (es : List Ev) : List String := turnsOk [] [] es

def preloaded (es : List Ev) : List String :=
  es.filterMap (fun e => match e with | .tPreload n => some n | _ => none)

/-- clause `preload`: every file epilog() returned is handed to the master's preload(), in order, exactly once - a file
    that fails to load does not stop the others -/
def beforeStart (es : List Ev) : List Ev := es.takeWhile (fun e => e != .start)

def clausePreload (x : Expect) (es : List Ev) : List String :=
  -- preload_objects() runs before backend() is entered (`start`)
  if preloaded (beforeStart es) == x.preloads then []
  else [s!"preload loaded={preloaded (beforeStart es)} expected={x.preloads}"]

/-- cycle in which each complete, non-empty line of a client was delivered (the packet that carried its line end) -/
def lineCyclesAux : String → List (Nat × String) → List Nat
  | _, [] => []
  | part, (cy, t) :: rest =>
    let pieces := (part ++ t).splitOn "/"
    (pieces.dropLast.filter (· ≠ "")).map (fun _ => cy) ++ lineCyclesAux (pieces.getLastD "") rest

def lineCycles (x : Expect) (client : Nat) : List Nat :=
  lineCyclesAux "" ((x.sentAt.filter (fun e => e.2.1 == client)).map (fun e => (e.1, e.2.2)))

/-- loop iteration in which each line of user `u` reached the user object (process_input or an input_to callback) -/
def servedCycles (u : Oid) : Nat → List Ev → List Nat
  | _, [] => []
  | _, .cycle k :: es => servedCycles u k es
  | cy, .tInput o _ :: es => if o = u then cy :: servedCycles u cy es else servedCycles u cy es
  | cy, .tIt o _ _ :: es => if o = u then cy :: servedCycles u cy es else servedCycles u cy es
  | cy, _ :: es => servedCycles u cy es

/-- the longest wait of a line at the head of its user's input: (line number, wait) of the first line over `bound` -/
def lateLine (bound : Nat) : Nat → Nat → List Nat → List Nat → Option (Nat × Nat)
  | _, _, [], _ => none
  | _, _, _, [] => none
  | j, prev, s :: ss, t :: ts =>
    let head := max s (prev + 1)
    if t > head + bound then some (j, t - head) else lateLine bound (j + 1) t ss ts

/-- clause `isolation` -/
def clauseIsolation (x : Expect) (es : List Ev) : List String :=
  let clients := (if x.console then [0] else []) ++ x.conns
  let bound := clients.length + 2
  (clients.zip (usersOfConnects es)).filterMap (fun (c, ou) =>
    match ou with
    | none => none
    | some u =>
      match lateLine bound 1 0 (lineCycles x c) (servedCycles u 0 es) with
      | some (j, w) => some s!"isolation {u.name} line {j} waited {w} iterations at the head of its input (bound {bound})"
      | none => none)

/-- clause `sweep`: `rs` / `cs` = objects whose reset() / clean_up() was already applied in this iteration -/
def sweepOnce : List Oid → List Oid → List Ev → List String
  | _, _, [] => []
  | _, _, .cycle _ :: es => sweepOnce [] [] es
  | rs, cs, .tReset o :: es =>
    if rs.contains o then [s!"sweep reset() of {o.name} applied again in the same tick (the sweep does not advance)"]
    else sweepOnce (o :: rs) cs es
  | rs, cs, .tCleanup o :: es =>
    if cs.contains o then [s!"sweep clean_up() of {o.name} applied again in the same tick (the sweep does not advance)"]
    else sweepOnce rs (o :: cs) es
  | rs, cs, _ :: es => sweepOnce rs cs es

def clauseSweep (es : List Ev) : List String := sweepOnce [] [] es

def judgeEv (x : Expect) (es : List Ev) : List String :=
  -- a run that was cut off (time-out, output cap) is a crash-class verdict; when the cut-off trace already shows the
  -- sweep spinning, that precise verdict comes first
  if !(clauseCrash es).isEmpty then clauseSweep es ++ clauseCrash es else
  let ex := hasExit es
  let v1 := clauseExit x es
  let v2 := clauseCycles es
  let v3 := clauseReport es
  let shut := ex == some true
  let v4 := match finalHbs es with
    | none => ["heartbeats no-observation"]
    | some l =>
      let want := sortStrings ((hbExpected none [] es).map Oid.name)
      if l == want then [] else [s!"heartbeats on={l} expected={want}"]
  -- commands
  let users := usersOfConnects es
  let clients := (if x.console then [0] else []) ++ x.conns
  let gone := goneUsers es
  let v5 := (clients.zip users).filterMap (fun (c, ou) =>
    match ou with
    | none => none
    | some u =>
      let want := linesOf x.sends c
      let gotC := servedCmds es u
      let gotI := servedInputs es u
      let partialOk := gone.contains u || x.closed.contains c || shut || !x.settle
      -- every line reaches process_input; the command itself is skipped only when that task failed
      let okI := if partialOk then isPrefix gotI want else gotI == want
      if okI && isSubseq gotC gotI then none
      else some s!"commands {u.name} served={gotC} inputs={gotI} sent={want}")
  let v6 := if shut || !x.settle then [] else
    (beforeCycle x.coCutoff es).filterMap (fun e => match e with
      | .xCo o tag =>
        if es.contains (.tCo o tag) || es.any (fun d => match d with | .xDest _ t => t == o | _ => false)
        then none else some s!"callouts {o.name} {tag} never fired"
      | _ => none)
  let v7 := match finalSlots es with
    | none => []
    | some n =>
      let live := (liveUsers [] es).length
      if n > live then [s!"leaked-conn slots={n} live-users={live}"] else []
  v1 ++ v2 ++ v3 ++ v4 ++ v5 ++ v6 ++ v7 ++ clauseRefs es ++ clauseDisconnect x es ++ clauseHbSchedule es ++ clauseTurns es ++ clausePreload x es ++ clauseIsolation x es ++ clauseSweep es

end NV.C09
