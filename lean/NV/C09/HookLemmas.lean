/-
C09 — everything a task (hook) can do keeps the invariant: remove_interactive, destruct_object, the script
interpreter, and - by induction on the nesting fuel - every hook.
-/
import NV.C09.ConnLemmas

namespace NV.C09

/-- the contract of "run a hook" -/
def HookOK (rh : HookFn) : Prop := ∀ w o k, Step w (rh w o k).1

theorem netDeadHook_step (rh : HookFn) (hrh : HookOK rh) (w : W) (o : Oid) (d : Bool) :
    Step w (netDeadHook rh w o d) := by
  unfold netDeadHook
  split
  · exact Step.refl w
  · split
    · exact Step.refl w
    · split
      · exact Step.refl w
      · exact Step.bracket (Step.trans (emit_same _ _).step (hrh _ _ _))

theorem freeConnOf_facts (w : W) (o : Oid) (id client : Nat) (inv : Inv w) (hio : w.inter o = some id) :
    Inv (freeConnOf w o id client) ∧
    (∀ id', id' ≠ id → findConn (freeConnOf w o id client) id' = findConn w id') ∧
    (∀ o', o' ≠ o → (freeConnOf w o id client).inter o' = w.inter o') ∧
    (freeConnOf w o id client).users.map List.length = w.users.map List.length ∧
    (freeConnOf w o id client).mode = w.mode ∧ (freeConnOf w o id client).ctxDepth = w.ctxDepth ∧
    (freeConnOf w o id client).trace = w.trace := by
  have hlive := inv.live o id hio
  cases hu : w.users with
  | none =>
    have : findConn w id = none := by unfold findConn slots; rw [hu]; rfl
    rw [this] at hlive; simp at hlive
  | some l =>
    have hidlt : id < w.nextConnId := by
      by_cases h : w.nextConnId ≤ id
      · rw [inv.bound id h] at hlive; simp at hlive
      · omega
    -- the state before the (invariant-neutral) shutdown flag
    let text := match findConn w id with | some c => c.out | none => ""
    let w1 : W := setInter { w with users := some (freeSlot l id), outs := (client, text) :: w.outs,
                                     masterRef := if o = .master then w.masterRef - 1 else w.masterRef } o none
    have hf : ∀ id', id' ≠ id → findConn w1 id' = findConn w id' := by
      intro id' hne
      show findIn (freeSlot l id) id' = findIn (slots w) id'
      have : slots w = l := by unfold slots; rw [hu]; rfl
      rw [this]; exact findIn_free id l id' hne
    have inv1 : Inv w1 := by
      refine ⟨inv.crashed, inv.inError, inv.inMeh, ?_, ?_, ?_, ?_, ?_, ?_⟩
      · intro o' id' h
        have h' : (if o' = o then none else w.inter o') = some id' := h
        split at h'
        · simp at h'
        · rename_i hne
          have hne' : id' ≠ id := by
            intro e; rw [e] at h'; exact hne (inv.inj o' o id h' hio)
          rw [hf id' hne']; exact inv.live o' id' h'
      · intro a b id' ha hb
        have ha' : (if a = o then none else w.inter a) = some id' := ha
        have hb' : (if b = o then none else w.inter b) = some id' := hb
        split at ha'
        · simp at ha'
        · split at hb'
          · simp at hb'
          · exact inv.inj a b id' ha' hb'
      · intro l' hl'
        have : l' = freeSlot l id := by
          have : some (freeSlot l id) = some l' := hl'
          injection this with this; exact this.symm
        rw [this]; unfold freeSlot; simp; exact inv.len l hu
      · intro l' hl'
        have : l' = freeSlot l id := by
          have : some (freeSlot l id) = some l' := hl'
          injection this with this; exact this.symm
        rw [this]; unfold freeSlot; simp; exact inv.cur l hu
      · intro h; exact absurd h (by simp [w1, setInter])
      · intro id' hid'
        have hne : id' ≠ id := by
          have : w.nextConnId ≤ id' := hid'
          omega
        rw [hf id' hne]; exact inv.bound id' hid'
    have hi1 : ∀ o', o' ≠ o → w1.inter o' = w.inter o' := by
      intro o' hne
      show (if o' = o then none else w.inter o') = _
      simp [hne]
    have hl1 : w1.users.map List.length = (some l).map List.length := by
      show (some (freeSlot l id)).map List.length = _
      unfold freeSlot; simp
    unfold freeConnOf
    simp only [hu]
    split
    · exact ⟨⟨inv1.crashed, inv1.inError, inv1.inMeh, inv1.live, inv1.inj, inv1.len, inv1.cur, inv1.cur0, inv1.bound⟩,
        hf, hi1, hl1, rfl, rfl, rfl⟩
    · exact ⟨inv1, hf, hi1, hl1, rfl, rfl, rfl⟩

theorem removeInteractiveBody_step (rh : HookFn) (hrh : HookOK rh) (w : W) (o : Oid) (d : Bool) :
    Step w (removeInteractiveBody rh w o d) := by
  intro inv
  unfold removeInteractiveBody
  cases hio : w.inter o with
  | none => exact ⟨inv, Rel.refl w⟩
  | some id =>
    simp only []
    have hlive := inv.live o id hio
    cases hfc : findConn w id with
    | none => rw [hfc] at hlive; simp at hlive
    | some c =>
      simp only []
      by_cases hcl : c.closing = true
      · simp only [hcl, if_true]; exact ⟨inv, Rel.refl w⟩
      · simp only [hcl, Bool.false_eq_true, if_false]
        -- mark CLOSING
        have s1 := mapConn_step w id markClosing (fun _ => rfl) (fun _ _ => rfl)
        obtain ⟨inv1, r1⟩ := s1 inv
        have hfc1 : findConn (mapConn w id markClosing) id = some (markClosing c) := by
          rw [findConn_mapConn w id markClosing (fun _ => rfl), hfc]
          have : c.id = id := by
            -- the record found under serial `id` carries it
            have : ∀ (l : List (Option Conn)) (x : Conn), findIn l id = some x → x.id = id := by
              intro l
              induction l with
              | nil => intro x h; simp [findIn] at h
              | cons y ys ih =>
                intro x h
                cases y with
                | none => exact ih x (by simpa [findIn] using h)
                | some z =>
                  by_cases hz : z.id = id
                  · rw [findIn_eq _ _ _ hz] at h; injection h with h; rw [← h]; exact hz
                  · rw [findIn_ne _ _ _ hz] at h; exact ih x h
            exact this _ c hfc
          simp [this]
        -- the net_dead hook
        obtain ⟨inv2, r2⟩ := netDeadHook_step rh hrh _ o d inv1
        obtain ⟨c2, hc2, hc2cl⟩ := r2.closing id _ hfc1 rfl
        have hio1 : (mapConn w id markClosing).inter o = some id := hio
        have hio2 := r2.owner id _ o hfc1 rfl hio1
        rw [useConn_live _ id (by rw [hc2]; rfl)]
        obtain ⟨inv3, f3, i3, l3, m3, x3, t3⟩ := freeConnOf_facts _ o id c.client inv2 hio2
        refine ⟨inv3, ?_, ?_, ?_, ?_, ?_, (r1.tr.trans r2.tr).trans (TrExt.of_eq t3)⟩
        · -- records that were CLOSING before this call are not ours: they survive
          intro id' c' hc' hcl'
          have hne : id' ≠ id := by
            intro e; rw [e, hfc] at hc'; injection hc' with hc'; rw [hc'] at hcl; exact hcl hcl'
          obtain ⟨a, ha, hacl⟩ := r1.closing id' c' hc' hcl'
          obtain ⟨b, hb, hbcl⟩ := r2.closing id' a ha hacl
          exact ⟨b, by rw [f3 id' hne]; exact hb, hbcl⟩
        · intro id' c' o' hc' hcl' ho'
          have hne : id' ≠ id := by
            intro e; rw [e, hfc] at hc'; injection hc' with hc'; rw [hc'] at hcl; exact hcl hcl'
          have hne' : o' ≠ o := by
            intro e; rw [e, hio] at ho'; injection ho' with ho'; exact hne ho'.symm
          obtain ⟨a, ha, hacl⟩ := r1.closing id' c' hc' hcl'
          have h1 := r1.owner id' c' o' hc' hcl' ho'
          have h2 := r2.owner id' a o' ha hacl h1
          rw [i3 o' hne']; exact h2
        · rw [l3, r2.ulen, r1.ulen]
        · rw [m3, r2.mode, r1.mode]
        · rw [x3, r2.ctx, r1.ctx]

theorem removeInteractive_step (rh : HookFn) (hrh : HookOK rh) (w : W) (o : Oid) (d : Bool) :
    Step w (removeInteractive rh w o d) := by
  unfold removeInteractive
  split
  · exact Step.trans (removeInteractiveBody_step rh hrh w o d) (clearSnoopers_step _ o)
  · exact removeInteractiveBody_step rh hrh w o d

theorem destructObject_step (rh : HookFn) (hrh : HookOK rh) (w : W) (o : Oid) :
    Step w (destructObject rh w o) := by
  unfold destructObject
  split
  · exact Step.refl w
  · simp only []
    split
    · exact Step.trans (setHeartBeat_same w o 0).step
        (Step.trans (setDead_same _ o).step (removeInteractive_step rh hrh _ o true))
    · exact Step.trans (setHeartBeat_same w o 0).step (setDead_same _ o).step


theorem touch_same (w : W) (o : Oid) : Same w (touch w o) := by
  cases o <;> exact ⟨rfl, rfl, rfl, rfl, rfl, rfl, rfl, rfl, rfl, by trx⟩

theorem armInputTo_id (tag : String) (c : Conn) : (armInputTo tag c).id = c.id := by
  unfold armInputTo; split <;> rfl

theorem armInputTo_closing (tag : String) (c : Conn) (h : c.closing = true) : (armInputTo tag c).closing = true := by
  unfold armInputTo; split <;> exact h

theorem setInputTo_step (w : W) (o : Oid) (tag : String) : Step w (setInputTo w o tag) := by
  unfold setInputTo
  split
  · exact Step.refl w
  · exact mapConn_step w _ (armInputTo tag) (armInputTo_id tag) (armInputTo_closing tag)

theorem runOps_step (rh : HookFn) (hrh : HookOK rh) (self : Oid) :
    ∀ (ops : List Op) (w : W), Step w (runOps rh self ops w).1 := by
  intro ops
  induction ops with
  | nil => intro w; exact Step.refl w
  | cons op rest ih =>
    intro w
    cases op with
    | ok => exact ih w
    | err =>
      exact raise_step w self.name
    | cerr =>
      show Step w (runOps rh self rest (popCtx (caughtError (pushCtx (emit w _)) _))).1
      exact Step.trans (emit_same _ _).step (Step.trans (Step.bracket (caughtError_step _ _)) (ih _))
    | dest t =>
      unfold runOps
      simp only []
      split
      · have h1 : Step w (destructObject rh (emit w (.xDest self t)) t) :=
          Step.trans (emit_same _ _).step (destructObject_step rh hrh _ t)
        split
        · exact h1
        · exact Step.trans h1 (ih _)
      · have h1 : Step w (emit w (.xDest self t)) := (emit_same _ _).step
        split
        · exact h1
        · exact Step.trans h1 (ih _)
    | destMe =>
      show Step w (destructObject rh (emit w _) self)
      exact Step.trans (emit_same _ _).step (destructObject_step rh hrh _ self)
    | co d tag =>
      show Step w (runOps rh self rest _).1
      refine Step.trans ?_ (ih _)
      exact Same.step ⟨rfl, rfl, rfl, rfl, rfl, rfl, rfl, rfl, rfl, by trx⟩
    | hb n =>
      show Step w (runOps rh self rest (setHeartBeat (emit w _) self n)).1
      exact Step.trans (Step.trans (emit_same _ _).step (setHeartBeat_same _ _ _).step) (ih _)
    | w s =>
      show Step w (runOps rh self rest (addOut (touch w self) self _)).1
      exact Step.trans (Step.trans (touch_same _ _).step (addOut_step _ _ _)) (ih _)
    | meh m =>
      show Step w (runOps rh self rest _).1
      refine Step.trans ?_ (ih _)
      exact Same.step ⟨rfl, rfl, rfl, rfl, rfl, rfl, rfl, rfl, rfl, by trx⟩
    | snoop t =>
      show Step w (runOps rh self rest (setSnoop (emit w _) self t)).1
      exact Step.trans (Step.trans (emit_same _ _).step (setSnoop_step _ _ _)) (ih _)
    | it tag =>
      show Step w (runOps rh self rest (setInputTo (emit w _) self tag)).1
      exact Step.trans (Step.trans (emit_same _ _).step (setInputTo_step _ _ _)) (ih _)

/-- every hook keeps the invariant, for every nesting fuel and every script oracle -/
theorem runHook_ok (S : Scripts) : ∀ fuel, HookOK (runHook S fuel) := by
  intro fuel
  induction fuel with
  | zero => intro w o k; exact Step.refl w
  | succ n ih => intro w o k; exact runOps_step (runHook S n) ih o (S.hook o k) w

end NV.C09
