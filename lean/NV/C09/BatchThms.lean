/-
C09 — several I/O events delivered by ONE poll (process_io() works through g_io_events[]): every batch, in every
order, keeps the invariant; an entry whose record was freed by an earlier entry of the same batch is skipped and can
never reach a younger record (serials are never reused - in the C code: remove_interactive() clears the context of the
entries still waiting, fix commit); entries abandoned by a longjmp out of process_io() are exactly the ones behind the
failing entry (nothing before it is repeated, nothing behind it is lost).
-/
import NV.C09.Total

namespace NV.C09

/-- an event only ever reaches the record it was registered for: the lookup by context returns a record with that
    very serial -/
theorem findIn_id : ∀ (l : List (Option Conn)) (id : Nat) (c : Conn), findIn l id = some c → c.id = id := by
  intro l id
  induction l with
  | nil => intro c h; simp [findIn] at h
  | cons x xs ih =>
    intro c h
    cases x with
    | none => rw [findIn_none] at h; exact ih c h
    | some d =>
      by_cases hd : d.id = id
      · rw [findIn_eq _ _ _ hd] at h
        cases h
        exact hd
      · rw [findIn_ne _ _ _ hd] at h; exact ih c h

theorem findConn_id (w : W) (id : Nat) (c : Conn) (h : findConn w id = some c) : c.id = id :=
  findIn_id (slots w) id c h

/-- `is_interactive_user (evt->context)` fails for a stale entry: process_io() goes on with the next one, nothing is
    touched (all three kinds of connection events) -/
theorem stale_event_skipped (S : Scripts) (rh : HookFn) (w : W) (id : Nat) (t : String) (h : findConn w id = none) :
    ioEvent S rh w (.data id t) = (w, false) ∧ ioEvent S rh w (.eof id) = (w, false) ∧
    ioEvent S rh w (.hup id) = (w, false) := by
  refine ⟨?_, ?_, ?_⟩ <;> simp [ioEvent, h]

/-- once a slot table has been through `FREE (ip)`, no entry with that serial is left -/
theorem findIn_freeSlot : ∀ (l : List (Option Conn)) (id : Nat), findIn (freeSlot l id) id = none := by
  intro l id
  induction l with
  | nil => rfl
  | cons x xs ih =>
    rw [freeSlot_cons]
    cases x with
    | none => simp only [hasId_none, Bool.false_eq_true, if_false]; rw [findIn_none]; exact ih
    | some c =>
      by_cases hc : c.id = id
      · have : hasId id (some c) = true := by rw [hasId_some]; simp [hc]
        rw [if_pos this, findIn_none]; exact ih
      · have : hasId id (some c) = false := by rw [hasId_some]; simp [hc]
        rw [if_neg (by rw [this]; simp), findIn_ne _ _ _ hc]; exact ih

/-- after the end of remove_interactive() every entry of the batch that still carries the freed record's context is
    stale (and therefore skipped, `stale_event_skipped`) -/
theorem freed_record_events_are_stale (w : W) (o : Oid) (id client : Nat) (l : List (Option Conn))
    (h : w.users = some l) : findConn (freeConnOf w o id client) id = none := by
  unfold freeConnOf
  rw [h]
  simp only []
  split <;> (unfold findConn slots setInter; simp only [Option.getD_some]; exact findIn_freeSlot l id)

/-- the serial of a record that new_interactive() creates is the allocation counter: under the invariant no record -
    live or freed - was ever given it, so no entry of the current batch (resolved when the poll returned) can carry it -/
theorem accept_serial_fresh (w : W) (console : Bool) (client : Nat) (id' : Nat)
    (h : (newInteractive w console client).2 = some id') : id' = w.nextConnId := by
  unfold newInteractive at h
  simp only [] at h
  split at h
  · simp at h
  · simp only [] at h
    cases h
    rfl

/-- every connection entry the poll reports was resolved to a LIVE record at that moment ... -/
theorem applyAction_resolved (w : W) (a : Action) (e : IoEv) (he : e ∈ (applyAction w a).2) :
    match e with
    | .data id _ | .eof id | .hup id => (findConn w id).isSome = true
    | _ => True := by
  have hfind : ∀ c r, connOfClient w c = some r → (findConn w r.id).isSome = true := by
    intro c r hr
    unfold connOfClient at hr
    unfold findConn
    generalize slots w = l at hr ⊢
    induction l with
    | nil => simp at hr
    | cons x xs ih =>
      cases x with
      | none =>
        rw [findIn_none]
        apply ih
        simpa [List.find?] using hr
      | some d =>
        by_cases hd : d.id = r.id
        · rw [findIn_eq _ _ _ hd]; rfl
        · rw [findIn_ne _ _ _ hd]
          apply ih
          simp only [List.find?] at hr
          split at hr
          · simp at hr; rw [hr] at hd; exact absurd rfl hd
          · exact hr
  cases a with
  | tick dt => simp [applyAction] at he; subst he; trivial
  | conn c => simp [applyAction] at he; subst he; trivial
  | send c t =>
    simp only [applyAction] at he
    split at he
    · rename_i r hr; simp at he; subst he; exact hfind c r hr
    · simp at he
  | close c =>
    simp only [applyAction] at he
    split at he
    · rename_i r hr
      simp at he; subst he
      have : connOfClient w c = some r := hr
      exact hfind c r this
    · simp at he
  | reset c =>
    simp only [applyAction] at he
    split at he
    · rename_i r hr
      simp at he; subst he
      have : connOfClient w c = some r := hr
      exact hfind c r this
    · simp at he
  | cin t =>
    simp only [applyAction] at he
    split at he
    · simp at he; subst he; trivial
    · simp at he
  | idle => simp [applyAction] at he

/-- ... hence carries a serial below the allocation counter: together with `accept_serial_fresh` a pending entry and
    a record accepted later in the same batch never have the same identity -/
theorem pending_entry_older_than_any_accept (w : W) (i : Inv w) (id : Nat) (h : (findConn w id).isSome = true) :
    id < w.nextConnId := by
  apply Nat.lt_of_not_le
  intro hle
  rw [i.bound id hle] at h
  simp at h

/-- a longjmp out of process_io() abandons exactly a suffix of the batch -/
theorem abandoned_suffix (S : Scripts) (rh : HookFn) : ∀ (evs : List IoEv) (w : W), abandoned S rh evs w <:+ evs := by
  intro evs
  induction evs with
  | nil => intro w; exact List.suffix_refl _
  | cons e es ih =>
    intro w
    unfold abandoned
    split
    · exact List.suffix_cons e es
    · exact (ih _).trans (List.suffix_cons e es)

/-- without an uncaught error nothing is abandoned -/
theorem abandoned_nil_of_ok (S : Scripts) (rh : HookFn) : ∀ (evs : List IoEv) (w : W),
    (processIoEvents S rh evs w).2 = false → abandoned S rh evs w = [] := by
  intro evs
  induction evs with
  | nil => intro w _; rfl
  | cons e es ih =>
    intro w h
    unfold processIoEvents at h
    unfold abandoned
    split
    · rename_i he; simp [he] at h
    · rename_i he; simp [he] at h; exact ih _ h

/-- **every batch, every order:** whatever list of events one poll reports - any number of accepts, data, end of file,
    hang-ups, console lines and timer wake-ups for any connections, in any order (in particular every permutation of a
    given batch), stale entries included - process_io() keeps the invariant: no NULL / freed-record access, flags
    clear, context chain at its base -/
theorem batch_any_order_good (S : Scripts) (rh : HookFn) (hrh : HookOK rh) (w : W) (g : Good w)
    (evs evs' : List IoEv) (_hp : evs'.Perm evs) (hc : ∀ t, IoEv.console t ∈ evs → w.mode = .console) :
    Good (processIo S rh w evs').1 ∧ (processIo S rh w evs').1.crashed = none := by
  have hc' : ∀ t, IoEv.console t ∈ evs' → w.users.isSome = true :=
    fun t ht => g.console (hc t (_hp.mem_iff.mp ht))
  have := g.cstep (processIo_cstep S rh hrh w evs' hc')
  exact ⟨this, this.inv.crashed⟩

/-- non-vacuity: a batch of three with a stale entry; the hang-up of connection 1 arrives after the net_dead of user 2
    destructed user 1 and an accept took a new record -/
example : ∃ evs : List IoEv, evs.length = 3 ∧ evs.Perm [.hup 1, .accept 3, .eof 2] := ⟨[.eof 2, .accept 3, .hup 1], rfl, by decide⟩

/-! ## the rotating start slot of get_user_command() -/

/-- **the start slot moves past the user that is served** - also when more of his commands are buffered, so a user whose
    commands keep failing (the longjmp to backend() restarts the iteration) cannot keep the search at his own slot: the
    next iteration starts BEHIND him (the seeded change C09-5 broke exactly this; the oracle's `isolation` clause is the
    observable consequence).  `i` is the slot the served record sits in. -/
theorem cursor_moves_past_served_user : ∀ (n : Nat) (w : W) (c : Conn), (scanUsers n w).2 = some c →
    ∃ l i, w.users = some l ∧ l[i]? = some (some c) ∧
      (scanUsers n w).1.nextUser = (if i = 0 then l.length - 1 else i - 1) := by
  intro n
  induction n with
  | zero => intro w c h; simp [scanUsers] at h
  | succ n ih =>
    intro w c h
    unfold scanUsers at h ⊢
    cases hu : w.users with
    | none => rw [hu] at h; simp at h
    | some l =>
      rw [hu] at h
      simp only [] at h ⊢
      cases hs : l[w.nextUser]? with
      | none => rw [hs] at h; simp [crash] at h
      | some s =>
        rw [hs] at h
        simp only [] at h ⊢
        cases s with
        | none =>
          simp only [] at h ⊢
          obtain ⟨l', i, hl', hi, hn⟩ := ih _ c h
          have : l' = l := by
            have e : ({ w with nextUser := if w.nextUser = 0 then l.length - 1 else w.nextUser - 1 } : W).users = some l := hu
            rw [e] at hl'; exact (Option.some.inj hl').symm
          rw [this] at hi hn
          exact ⟨l, i, rfl, hi, hn⟩
        | some d =>
          simp only [] at h ⊢
          by_cases hc : (!d.cmds.isEmpty && d.turn) = true
          · rw [if_pos hc] at h ⊢
            simp only [Option.some.injEq] at h
            refine ⟨l, w.nextUser, rfl, by rw [hs, h], ?_⟩
            show (if (mapConn w d.id _).nextUser = 0 then l.length - 1 else (mapConn w d.id _).nextUser - 1) = _
            rfl
          · rw [if_neg hc] at h ⊢
            obtain ⟨l', i, hl', hi, hn⟩ := ih _ c h
            have : l' = l := by
              have e : ({ w with nextUser := if w.nextUser = 0 then l.length - 1 else w.nextUser - 1 } : W).users = some l := hu
              rw [e] at hl'; exact (Option.some.inj hl').symm
            rw [this] at hi hn
            exact ⟨l, i, rfl, hi, hn⟩

/-! ## snoop on the input path -/

/-- **the whole input path of a snooped user** - CR LF echo with the snooper's receive_snoop() after every line, the
    re-validation, buffering, the raw input shown to the snooper last - keeps the invariant whatever the snooper's
    callback does (destructs / disconnects the typing user, itself, anybody; raises; snoops somebody else), for every
    script oracle, every packet and every nesting depth -/
theorem snoop_input_path_safe (S : Scripts) (fuel : Nat) (w : W) (id : Nat) (telnet : Bool) (text : String)
    (i : Inv w) : Inv (userData (runHook S fuel) w id telnet text) :=
  (userData_step (runHook S fuel) (runHook_ok S fuel) w id telnet text i).1

/-- copy_chars() gives up when the snooper removed the user during the echo: nothing of the packet is buffered and
    nothing is done with the record any more -/
theorem packet_dropped_when_user_gone (rh : HookFn) (w : W) (id : Nat) (text : String) (c : Conn)
    (hc : findConn w id = some c)
    (hg : (echoLoop rh ((splitLines c.part text).1.filter (· ≠ "")).length w id c.ob).inter c.ob ≠ some id) :
    userData rh w id true text = echoLoop rh ((splitLines c.part text).1.filter (· ≠ "")).length w id c.ob := by
  unfold userData
  rw [hc]
  simp only [if_true]
  rw [if_pos hg]

/-- remove_interactive(): once a user's record is gone nobody is recorded as snooped by that user any more -/
theorem removed_snooper_leaves_no_link (w : W) (o : Oid) (id : Nat) (c : Conn)
    (h : findConn (clearSnoopers w o) id = some c) : c.snoopBy ≠ some o := by
  unfold clearSnoopers mapAll at h
  have hf : findConn { w with users := w.users.map (fun l => l.map (fun s => s.map (snoopUnlink o))) } id =
      (findConn w id).map (snoopUnlink o) := by
    unfold findConn slots
    cases hu : w.users with
    | none => rfl
    | some l => exact findIn_mapAll (snoopUnlink o) (snoopUnlink_id o) l id
  rw [hf] at h
  cases hc : findConn w id with
  | none => rw [hc] at h; simp at h
  | some d =>
    rw [hc] at h
    simp only [Option.map_some, Option.some.injEq] at h
    rw [← h]
    unfold snoopUnlink
    split
    · simp
    · assumption

/-- new_set_snoop(): a snoop that would close a loop is refused, nothing changes -/
theorem snoop_loop_refused (w : W) (me you : Oid) (h : snoopLoop (slots w).length w me you = true) :
    setSnoop w me you = w := by
  unfold setSnoop
  split
  · rfl
  · split
    · simp [h]
    · rfl

/-! ## input_to() and the object sweep (reset / clean_up) -/

/-- call_function_interactive(): when the callback starts, `ip->input_to` is already cleared - the callback may arm a
    new input_to(), and an error inside it leaves no stale sentence behind that would swallow the next line -/
theorem input_to_cleared_before_callback (w : W) (id : Nat) (e : Ev) :
    inputToOf (emit (mapConn w id clearInputTo) e) id = none := by
  unfold inputToOf
  have h : findConn (emit (mapConn w id clearInputTo) e) id = findConn (mapConn w id clearInputTo) id := rfl
  rw [h, findConn_mapConn w id clearInputTo (fun _ => rfl) id]
  cases hc : findConn w id with
  | none => rfl
  | some c =>
    have := findConn_id w id c hc
    simp [this, clearInputTo]

/-- set_call(): a second input_to() while one is pending is refused - the first stays -/
theorem input_to_first_wins (t1 t2 : String) (c : Conn) (h : c.inputTo = some t1) : (armInputTo t2 c).inputTo = some t1 := by
  unfold armInputTo; simp [h]

/-- the line of a user with a pending input_to() goes to the callback only: neither process_input nor the command
    parser see it - the step is the callback, the re-validation and the prompt, nothing else -/
theorem input_to_takes_the_line (rh : HookFn) (w : W) (cg : Oid) (id : Nat) (line tag : String) :
    (inputToCommand rh w cg id line tag).1 =
      (if (rh (emit (mapConn w id clearInputTo) (.tIt cg tag line)) cg (.it tag)).2 then
         (rh (emit (mapConn w id clearInputTo) (.tIt cg tag line)) cg (.it tag)).1
       else if (rh (emit (mapConn w id clearInputTo) (.tIt cg tag line)) cg (.it tag)).1.inter cg ≠ some id then
         (rh (emit (mapConn w id clearInputTo) (.tIt cg tag line)) cg (.it tag)).1
       else (promptStage rh (useConn (rh (emit (mapConn w id clearInputTo) (.tIt cg tag line)) cg (.it tag)).1 id)
               cg id).1) := by
  unfold inputToCommand
  simp only []
  split
  · rfl
  · split <;> rfl

/-- the prompt (and the write_prompt() apply) is suppressed while an input_to() is pending -/
theorem no_prompt_while_input_to_pending (rh : HookFn) (w : W) (cg : Oid) (id : Nat)
    (h : (inputToOf w id).isSome = true) : promptStage rh w cg id = (w, false) := by
  unfold promptStage
  split
  · rfl
  · simp [h]

/-- after write_prompt() the record is used only when it is still this user's (IP_VALID): a write_prompt() that
    disconnects or destructs its user makes print_prompt() return before flush_message (ip) -/
theorem prompt_revalidates (rh : HookFn) (w : W) (cg : Oid) (id : Nat) (hm : cg ≠ .master)
    (hi : (inputToOf w id).isSome = false) (he : (rh (emit w (.tPrompt cg)) cg .prompt).2 = false)
    (hv : (rh (emit w (.tPrompt cg)) cg .prompt).1.inter cg ≠ some id) :
    promptStage rh w cg id = ((rh (emit w (.tPrompt cg)) cg .prompt).1, false) := by
  unfold promptStage
  simp [hm, hi, he, hv]

/-- **the object sweep, every restart:** look_for_objects_to_swap() - reset() and clean_up() of every due object, the
    walk restarted after every error, for every fuel - keeps the invariant, for every script oracle -/
theorem sweep_keeps_invariant (S : Scripts) (fuel hf : Nat) (w : W) (i : Inv w) :
    Inv (sweepResets (runHook S hf) fuel w) := (sweepResets_step (runHook S hf) (runHook_ok S hf) fuel w i).1

/-- a clean_up() that raises does NOT restore the saved O_RESET_STATE (the C code or-s it back only when the apply
    returns): modelled quirk - the restarted walk may reset() the object at once.  Stated for a hook that raises. -/
theorem failing_cleanup_loses_reset_state (rh : HookFn) (w : W) (k : Nat)
    (h : (rh (emit (touch w (.obj k)) (.tCleanup (.obj k))) (.obj k) .cleanup).2 = true) :
    (cleanupObject rh w k) = ((rh (emit (touch w (.obj k)) (.tCleanup (.obj k))) (.obj k) .cleanup).1, true) := by
  unfold cleanupObject
  simp [h]

/-- ... while a clean_up() that returns gives the flag back -/
theorem cleanup_restores_reset_state (rh : HookFn) (w : W) (k : Nat)
    (h : (rh (emit (touch w (.obj k)) (.tCleanup (.obj k))) (.obj k) .cleanup).2 = false)
    (hd : (rh (emit (touch w (.obj k)) (.tCleanup (.obj k))) (.obj k) .cleanup).1.dead (.obj k) = false)
    (hs : w.resetState k = true) : (cleanupObject rh w k).1.resetState k = true := by
  unfold cleanupObject
  simp [h, hd, hs]

end NV.C09
