/-
C09 — executable control-flow / bookkeeping model `Backend` of the driver's main loop.

Mirrors (function by function, including the order of the steps and what is re-validated after a callback):
  src/backend.c       backend()                 -> `startup`, `cycle`, `recover`
                      call_heart_beat()         -> `callHeartBeat` (`hbLoop`, `sweepResets`, `sweepCallOuts`)
                      set_heart_beat()          -> `setHeartBeat`
                      look_for_objects_to_swap  -> `sweepResets` (own recovery point; restart from the list head)
                      update_load_av()          -> `updateLoadAv` (clamped: fix commit)
                      init_console_user()       -> `initConsoleUser`
                      mudlib_connect/logon      -> `mudlibConnect`, `acceptConn`
  src/error_context.c error_handler()           -> `errorHandler` (uncaught) / `caughtError` (LOG_CATCHES path)
                      mudlib_error_handler()    -> `callMasterHandler`
  src/comm.c          process_io()              -> `processIo` (guarded `all_users && all_users[0]`: fix commit)
                      new_interactive()         -> `newInteractive`
                      remove_interactive()      -> `removeInteractive`
                      process_user_command()    -> `processUserCommand` (VALIDATE_IP after every callback)
                      get_user_command()        -> `getUserCommand` (rotating cursor s_next_user, HAS_CMD_TURN)
                      get_user_data()           -> `userData` / `userEof`
  src/simulate.c      destruct_object()         -> `destructObject`
  lib/efuns/call_out.c call_out()               -> `sweepCallOuts` (own recovery point, the sweep continues)

State is nullable exactly where the C state is: `users : Option (List (Option Conn))` is `all_users` (NULL before the
first connection; a list of slots afterwards, slot 0 reserved for the console), `inter o : Option Nat` is
`o->interactive`.  A connection record (`interactive_t`) is identified by its allocation serial `id`; the record is
live iff it sits in a slot.  A local C variable `ip` that survives a callback is an `id`; using it when the record is
gone (`useConn`) or dereferencing a NULL `all_users` / `master_ob->interactive` is the explicit outcome `crash`
(sticky field `crashed`, never cleared).

Tasks are oracle scripts (`Scripts`): what each hook of each object does (succeed, raise, raise inside catch,
destruct objects incl. itself = disconnect, schedule call_outs, switch heart beats, write, switch the master's
error-handler behaviour).  Hooks nest (destruct -> remove_interactive -> net_dead hook -> ...): nesting is bounded by
fuel (`runHook`), everything else is structural.
-/
import NV.Gen.C09

namespace NV.C09

/-- virtual epoch of the harness (VH_T0) -/
def T0 : Nat := 1000000000

/-- all_users grows by this many slots (comm.c new_interactive) -/
abbrev userChunk : Nat := NV.Gen.C09.userChunk
/-- MAX_VERB_BUFF of user_parser() (simulate.c) -/
abbrev maxVerbBuff : Nat := NV.Gen.C09.maxVerbBuff
/-- look_for_objects_to_swap runs every `sweepPeriod` seconds -/
abbrev sweepPeriod : Nat := NV.Gen.C09.sweepPeriod
/-- ResetDuration of the verification configuration: next_reset = now + D/2 + rand () % (D/2); the configuration
    uses D = 2, so the random term is `rand () % 1 = 0` and next_reset = now + 1 exactly -/
abbrev resetDuration : Nat := NV.Gen.C09.resetDuration
/-- CleanupDuration (__TIME_TO_CLEAN_UP__) of the verification configuration: an object that nothing has applied to
    for longer than this gets clean_up() from look_for_objects_to_swap() -/
abbrev cleanupDuration : Nat := NV.Gen.C09.cleanupDuration

inductive Mode | net | console
  deriving DecidableEq, Repr

inductive Meh | ok | raise | recurse
  deriving DecidableEq, Repr

inductive Oid | master | user (k : Nat) | obj (k : Nat)
  deriving DecidableEq, Repr

def Oid.name : Oid → String
  | .master => "master"
  | .user k => s!"u{k}"
  | .obj k => s!"o{k}"

inductive Op
  | ok | err | cerr
  | dest (t : Oid) | destMe
  | co (d : Nat) (tag : String)
  | hb (n : Nat)
  | w (s : String)
  | meh (m : Meh)
  | snoop (t : Oid)        -- snoop (this_object (), t): this user sees what user t types
  | it (tag : String)      -- input_to ("it_fire", 0, tag): the next line of this user goes to the callback
  deriving Repr

inductive Kind
  | logon | input | cmd (v : String) | netdead | hb | co (tag : String) | reset | it (tag : String) | cleanup | prompt | snoop
  deriving DecidableEq, Repr

inductive ConnB | ok | err | rej
  deriving DecidableEq, Repr

/-- the oracle: what every hook does, and what the master's connect() does on the k-th attempt -/
structure Scripts where
  hook : Oid → Kind → List Op
  connect : Nat → ConnB

/-- structured events = canonical trace lines -/
inductive Ev
  | start | cycle (n : Nat) | exitLoop | exitShutdown
  | tConnect (k : Nat) | tLogon (o : Oid) | tInput (o : Oid) (s : String) | tCmd (o : Oid) (v : String)
  | tNetdead (o : Oid) | tHb (o : Oid) | tCo (o : Oid) (tag : String) | tReset (o : Oid) | tCleanup (o : Oid)
  | tIt (o : Oid) (tag : String) (line : String) | xIt (o : Oid) (tag : String) | tPrompt (o : Oid)
  | tEpilog | tPreload (name : String)
  | tSnoop (o : Oid) | xSnoop (o t : Oid)
  | xErr (who : String) | xCerr (o : Oid) | xDest (o t : Oid) | xCo (o : Oid) (tag : String) | xHb (o : Oid) (n : Nat)
  | meh (caught : Bool) (msg : String)
  | hbs (l : List String) | out (name : String) (text : String) | slots (n : Nat)
  | refs (master simul : Int)
  | slotIdx (l : List Nat)
  | crash (why : String)
  deriving Repr, DecidableEq

structure Conn where
  id : Nat            -- ghost: allocation serial of the interactive_t
  ob : Oid            -- ip->ob
  client : Nat        -- ghost: scripted client number (0 = console)
  cmds : List String  -- complete lines between text_start and text_end
  part : String       -- partial line at the end of the buffer
  turn : Bool         -- HAS_CMD_TURN
  hasPI : Bool        -- HAS_PROCESS_INPUT
  closing : Bool      -- CLOSING
  out : String        -- everything add_message()d (canonical form)
  inputTo : Option String := none   -- ip->input_to: the pending input_to() callback (its carry-over argument)
  snoopBy : Option Oid := none      -- ip->snoop_by, named by the snooper's OBJECT (ip->snoop_by->ob); that the C
                                    -- pointer itself never dangles (both ends cleared in remove_interactive) is
                                    -- observed by ASan only
  deriving Repr

structure CallOut where
  owner : Oid
  tag : String
  due : Nat
  deriving Repr

/-- one entry of g_io_events[]: what the poll reported.  For a connection the entry holds the CONTEXT POINTER the
    socket was registered with (`id` = serial of the interactive_t), resolved when the poll returns - not when the entry
    is processed: an earlier entry of the same batch may have freed that record meanwhile (remove_interactive() then
    clears the context of the entries still waiting - fix commit - so a stale entry can never reach a younger record
    that the allocator placed at the same address). -/
inductive IoEv
  | wakeup | accept (client : Nat) | data (id : Nat) (text : String) | eof (id : Nat) | hup (id : Nat)
  | console (text : String)
  deriving Repr, DecidableEq

structure W where
  mode : Mode := .net
  meh : Meh := .ok
  mehDepth : Nat := 0
  users : Option (List (Option Conn)) := none
  inter : Oid → Option Nat := fun _ => none
  dead : Oid → Bool := fun _ => false
  hbs : List Oid := []
  hbNext : Nat := 0               -- heart_beat_index + 1
  hbToDo : Nat := 0               -- num_hb_to_do
  curHb : Option Oid := none      -- current_heart_beat
  callouts : List CallOut := []
  objList : List Nat := []        -- obj_list restricted to the scripted plain objects (newest first)
  resetState : Nat → Bool := fun _ => false
  nextReset : Nat → Nat := fun _ => 0
  refTime : Nat → Nat := fun _ => T0   -- ob->time_of_ref: when something last apply()d to the object
  now : Nat := T0                 -- current_time
  clock : Nat := T0               -- what time() returns
  nextSweep : Nat := 0            -- look_for_objects_to_swap: next_time
  loadLast : Nat := 0             -- update_load_av: last_time
  hbFlag : Bool := false          -- heart_beat_flag
  inError : Bool := false
  inMeh : Bool := false
  ctxDepth : Nat := 0             -- length of the error-context chain
  nextUser : Nat := 0             -- s_next_user
  nextConnId : Nat := 1
  nUser : Nat := 0
  nConnect : Nat := 0
  shutdown : Bool := false        -- g_proceeding_shutdown
  closedByScript : List Nat := []
  tcpClients : List Nat := []     -- ghost: clients whose connect() reached the listening socket (accepted or not)
  outs : List (Nat × String) := []   -- output of connections the driver has closed
  masterRef : Int := 0            -- ghost: master_ob->ref relative to the start of backend()
  backlog : List IoEv := []       -- entries of g_io_events[] a longjmp out of process_io() left unprocessed
  crashed : Option String := none
  trace : List Ev := []

def emit (w : W) (e : Ev) : W := { w with trace := e :: w.trace }

def crash (w : W) (why : String) : W :=
  match w.crashed with
  | some _ => w
  | none => { w with crashed := some why, trace := .crash why :: w.trace }

def setInter (w : W) (o : Oid) (v : Option Nat) : W :=
  { w with inter := fun x => if x = o then v else w.inter x }

def setDead (w : W) (o : Oid) : W :=
  { w with dead := fun x => if x = o then true else w.dead x }

def slots (w : W) : List (Option Conn) := w.users.getD []

def hasId (id : Nat) : Option Conn → Bool
  | some c => c.id == id
  | none => false

/-- first record with serial `id` in the slot table -/
def findIn : List (Option Conn) → Nat → Option Conn
  | [], _ => none
  | none :: l, id => findIn l id
  | some c :: l, id => if c.id = id then some c else findIn l id

/-- the live record with serial `id` (the C pointer `ip` is valid iff this is `some`) -/
def findConn (w : W) (id : Nat) : Option Conn := findIn (slots w) id

/-- apply `f` to the record(s) with serial `id` -/
def mapSlot (id : Nat) (f : Conn → Conn) : Option Conn → Option Conn
  | some c => if c.id = id then some (f c) else some c
  | none => none

def mapConn (w : W) (id : Nat) (f : Conn → Conn) : W :=
  { w with users := w.users.map (fun l => l.map (mapSlot id f)) }

/-- apply `g` to every connection record -/
def mapAll (w : W) (g : Conn → Conn) : W := { w with users := w.users.map (fun l => l.map (fun s => s.map g)) }

/-- the record `ob` is snooping, if any: `ob->interactive->snoop_on` -/
def snoopTargetOf (w : W) (ob : Oid) : Option Conn :=
  ((slots w).find? (fun s => match s with | some c => c.snoopBy == some ob | none => false)).join

/-- "Protect against snooping loops": `for (tmp = on; tmp; tmp = tmp->snoop_on) if (tmp == by) return 0;` -/
def snoopLoop : Nat → W → Oid → Oid → Bool
  | 0, _, _, _ => false
  | n + 1, w, by_, tmp =>
    if tmp = by_ then true else
    match snoopTargetOf w tmp with
    | none => false
    | some c => snoopLoop n w by_ c.ob

def snoopLink (me : Oid) (idy : Nat) (c : Conn) : Conn :=
  if c.id = idy then { c with snoopBy := some me }            -- on->snoop_by = by (a previous snooper is replaced)
  else if c.snoopBy = some me then { c with snoopBy := none } -- by->snoop_on->snoop_by = 0
  else c

def snoopUnlink (o : Oid) (c : Conn) : Conn := if c.snoopBy = some o then { c with snoopBy := none } else c

/-- new_set_snoop (me, you), guarded by the scripted object: both interactive, not the same object -/
def setSnoop (w : W) (me you : Oid) : W :=
  if me = you || w.dead you then w else
  match w.inter me, w.inter you with
  | some _, some idy =>
    if snoopLoop (slots w).length w me you then w else mapAll w (snoopLink me idy)
  | _, _ => w

/-- remove_interactive(): `ip->snoop_on->snoop_by = 0` - whoever the removed user was snooping is no longer snooped -/
def clearSnoopers (w : W) (o : Oid) : W := mapAll w (snoopUnlink o)

/-- a C access through a saved `ip` after a callback: crash when the record was freed meanwhile -/
def useConn (w : W) (id : Nat) : W :=
  match findConn w id with
  | some _ => w
  | none => crash w s!"use of freed interactive #{id}"

def addOut (w : W) (o : Oid) (s : String) : W :=
  -- add_message(): dropped when the object is destructed, has no connection, or the connection is closing
  if w.dead o then w else
  match w.inter o with
  | none => w
  | some id => mapConn w id (fun c => if c.closing then c else { c with out := c.out ++ s })

/-! ## heart beats (backend.c set_heart_beat) -/

def setHeartBeat (w : W) (o : Oid) (to : Nat) : W :=
  if w.dead o then w else
  if to = 0 then
    match w.hbs.idxOf? o with
    | none => w
    | some i =>
      let (nx, td) :=
        if w.hbToDo ≠ 0 then
          ((if i < w.hbNext then w.hbNext - 1 else w.hbNext), (if i < w.hbToDo then w.hbToDo - 1 else w.hbToDo))
        else (w.hbNext, w.hbToDo)
      { w with hbs := w.hbs.erase o, hbNext := nx, hbToDo := td }
  else
    if o ∈ w.hbs then w else { w with hbs := w.hbs ++ [o] }

/-! ## error_handler (error_context.c) -/

/-- `if (current_heart_beat) { set_heart_beat (current_heart_beat, 0); ...; current_heart_beat = 0; }` -/
def hbOff (w : W) : W :=
  match w.curHb with
  | some o => { setHeartBeat w o 0 with curHb := none }
  | none => w

def setErr (w : W) (b : Bool) : W := { w with inError := b }
def setMeh (w : W) (b : Bool) : W := { w with inMeh := b }
def bumpDepth (w : W) : W := { w with mehDepth := w.mehDepth + 1 }
def resetDepth (w : W) : W := { w with mehDepth := 0 }

/-- the tail of error_handler() when it does not (or no longer) call the master:
    `in_error = 1; in_mudlib_error_handler = 0; heart beat shut-off; in_error = 0;` (then longjmp) -/
def errExit (w : W) : W := setErr (hbOff (setMeh (setErr w true) false)) false

/-- mudlib_error_handler + the verification master's error_handler(): reports, then behaves per `meh`.
    Returns `true` when the handler itself raised (control has left through a nested error_handler/longjmp).
    Behaviour `recurse` (LPC): `catch (error ("mehinner"))`, then `error ("mehagain")`.  The caught error is delivered
    to the catch's own context, which is not `mudlib_error_handler_context`: in_mudlib_error_handler STAYS set and the
    handler goes on (C05's fix; before, the flag was cleared and the second error re-entered the handler).  The second
    error reaches error_handler() with the flag still set and is delivered to the context the handler was entered
    with: "error in mudlib error handler", flag := 0, no second report - the same exit as behaviour `raise`.  The LPC
    handler counts its calls (`mehDepth`): every third call returns normally.
    `fuel` is kept for the signature of the lemmas (nothing recurses any more). -/
def callMasterHandler : Nat → W → String → W × Bool
  | 0, w, msg => (emit w (.meh false msg), false)
  | _ + 1, w, msg =>
    match w.meh with
    | .ok => (emit w (.meh false msg), false)
    | .raise =>
      -- error("mehfail") inside the handler: nested error_handler with in_mudlib_error_handler = 1
      (errExit (emit w (.meh false msg)), true)
    | .recurse =>
      if w.mehDepth < 2 then (errExit (bumpDepth (emit w (.meh false msg))), true)
      else (resetDepth (emit w (.meh false msg)), false)

/-- error_handler() for an error outside any catch: everything up to (not including) the longjmp -/
def errorHandler (w : W) (msg : String) : W :=
  if w.inError then
    -- "New error occured while generating error trace!": no report to the mudlib, in_error stays set
    w
  else if w.inMeh then
    -- "error in mudlib error handler"
    errExit w
  else
    -- in_error = 1; in_mudlib_error_handler = 1; in_error = 0; mudlib_error_handler (); in_error = 1; ... = 0
    let r := callMasterHandler 3 (setErr (setMeh (setErr w true) true) false) msg
    if r.2 then r.1 else errExit r.1

/-- error_handler() for an error inside catch() (LOG_CATCHES): reported with caught = 1, then longjmp to the catch -/
def caughtError (w : W) (msg : String) : W :=
  -- inside the master's handler: only logged; the catch's context is not the handler's entry context, the flag stays
  if w.inMeh then w
  else
    let w := { w with inMeh := true }
    let w := emit w (.meh true msg)
    { w with inMeh := false }

/-! ## connections (comm.c) -/

def freeSlot (l : List (Option Conn)) (id : Nat) : List (Option Conn) :=
  l.map (fun s => if hasId id s then none else s)

/-- index (offset `i`) of the first empty slot of `l`, or `i + l.length` -/
def firstNone : List (Option Conn) → Nat → Nat
  | [], i => i
  | none :: _, i => i
  | some _ :: l, i => firstNone l (i + 1)

/-- `for (i = 1; i < max_users; i++) if (!all_users[i]) break;` - first free slot index >= 1 (slot 0 is the
    console's), else where the loop stops: the table size, but never below 1 (empty table: i stays 1) -/
def firstFree : List (Option Conn) → Nat
  | [] => 1
  | _ :: t => firstNone t 1

/-- new_interactive(): returns the new record's serial, or none when it refused (console user exists) -/
def newInteractive (w : W) (console : Bool) (client : Nat) : W × Option Nat :=
  let l := slots w
  if console && (l.headD none).isSome then (w, none)     -- "Console user already exists"
  else
    let i := if console then 0 else firstFree l
    let l := if i ≥ l.length then l ++ List.replicate userChunk none else l
    let id := w.nextConnId
    let c : Conn := { id := id, ob := .master, client := client, cmds := [], part := "", turn := false,
                      hasPI := false, closing := false, out := "" }
    let w := { w with users := some (l.set i (some c)), nextConnId := id + 1 }
    (setInter w .master (some id), some id)

/-- what a hook execution returns: the state and whether an uncaught error is propagating (longjmp in flight) -/
abbrev R := W × Bool

/-- the type of "run hook `k` of object `o`" (open recursion: nesting is bounded by fuel in `runHook`) -/
abbrev HookFn := W → Oid → Kind → R

def markClosing (c : Conn) : Conn := { c with closing := true }

def pushCtx (w : W) : W := { w with ctxDepth := w.ctxDepth + 1 }
def popCtx (w : W) : W := { w with ctxDepth := w.ctxDepth - 1 }

/-- `safe_apply (APPLY_NET_DEAD, ob, ...)` in remove_interactive(): own error context; an error inside is handled
    and stops here -/
def netDeadHook (rh : HookFn) (w : W) (o : Oid) (dested : Bool) : W :=
  if dested then w else
  if w.dead o then w else
  if o = .master then w else            -- the master defines no net_dead()
  popCtx (rh (emit (pushCtx w) (.tNetdead o)) o .netdead).1

/-- the end of remove_interactive(): `ip != all_users[0]`, console shutdown, FREE (ip), slot and pointer cleared -/
def freeConnOf (w : W) (o : Oid) (id : Nat) (client : Nat) : W :=
  match w.users with
  | none => crash w "remove_interactive: all_users is NULL"
  | some l =>
    let text := match findConn w id with | some c => c.out | none => ""
    -- free_object (ob, "remove_interactive"): for the master this is the reference mudlib_connect() took
    let w1 := setInter { w with users := some (freeSlot l id), outs := (client, text) :: w.outs,
                                masterRef := if o = .master then w.masterRef - 1 else w.masterRef } o none
    -- console user and stdin is not a tty: "Console input closed (pipe/file) - shutting down"
    if w.mode = .console && hasId id (l.headD none) then { w1 with shutdown := true } else w1

/-- remove_interactive(ob, dested) without the snoop links -/
def removeInteractiveBody (rh : HookFn) (w : W) (o : Oid) (dested : Bool) : W :=
  match w.inter o with
  | none => w
  | some id =>
    match findConn w id with
    | none => crash w s!"remove_interactive: dangling interactive #{id}"
    | some c =>
      if c.closing then w else                -- "Double call to remove_interactive()"
      let w := netDeadHook rh (mapConn w id markClosing) o dested
      -- the record is still ours (CLOSING keeps everybody else away): ip->snoop_by, ip != all_users[0], FREE (ip)
      freeConnOf (useConn w id) o id c.client

/-- remove_interactive(ob, dested): when the record has gone, the users it was snooping are no longer snooped -/
def removeInteractive (rh : HookFn) (w : W) (o : Oid) (dested : Bool) : W :=
  if (w.inter o).isSome && ((removeInteractiveBody rh w o dested).inter o).isNone
  then clearSnoopers (removeInteractiveBody rh w o dested) o else removeInteractiveBody rh w o dested

/-- destruct_object() -/
def destructObject (rh : HookFn) (w : W) (o : Oid) : W :=
  if w.dead o then w else
  let w := setHeartBeat w o 0
  let w := setDead w o
  match w.inter o with
  | some _ => removeInteractive rh w o true
  | none => w

/-- the registry knows the object (it was created and registered) -/
def objExists (w : W) : Oid → Bool
  | .master => false                 -- never a target
  | .user k => 1 ≤ k && k ≤ w.nUser
  | .obj k => w.objList.contains k

def insertCallOut (l : List CallOut) (c : CallOut) : List CallOut :=
  match l with
  | [] => [c]
  | x :: xs => if x.due ≥ c.due then c :: x :: xs else x :: insertCallOut xs c

/-- apply_low() on a plain object: `ob->time_of_ref = current_time` and O_RESET_STATE cleared -/
def touch (w : W) : Oid → W
  | .obj k => { w with resetState := fun x => if x = k then false else w.resetState x,
                       refTime := fun x => if x = k then w.now else w.refTime x }
  | _ => w

def armInputTo (tag : String) (c : Conn) : Conn := if c.inputTo.isNone then { c with inputTo := some tag } else c
def clearInputTo (c : Conn) : Conn := { c with inputTo := none }

/-- set_call(): `ob->interactive == 0 || ob->interactive->input_to` -> 0, else the sentence is installed -/
def setInputTo (w : W) (o : Oid) (tag : String) : W :=
  match w.inter o with
  | none => w
  | some id => mapConn w id (armInputTo tag)

/-- run a script in object `self`; stops at the first uncaught error or when `self` destructs itself -/
def runOps (rh : HookFn) (self : Oid) : List Op → W → R
  | [], w => (w, false)
  | op :: rest, w =>
    match op with
    | .ok => runOps rh self rest w
    | .err => (errorHandler (emit w (.xErr self.name)) s!"boom {self.name}", true)
    | .cerr =>
      -- catch(): own error context around the failing expression
      runOps rh self rest (popCtx (caughtError (pushCtx (emit w (.xCerr self))) s!"cboom {self.name}"))
    | .dest t =>
      let w := emit w (.xDest self t)
      let w := if objExists w t then destructObject rh w t else w     -- LPC: `if (o) destruct (o)`
      if w.dead self then (w, false) else runOps rh self rest w
    | .destMe =>
      let w := emit w (.xDest self self)
      (destructObject rh w self, false)
    | .co d tag =>
      let w := emit w (.xCo self tag)
      runOps rh self rest { w with callouts := insertCallOut w.callouts { owner := self, tag := tag, due := w.now + d } }
    | .hb n =>
      let w := emit w (.xHb self n)
      runOps rh self rest (setHeartBeat w self n)
    | .w s =>
      -- tell_object(): add_message for a user; for a plain object the catch_tell apply touches it (O_RESET_STATE off)
      runOps rh self rest (addOut (touch w self) self (s ++ "|"))
    | .meh m => runOps rh self rest { w with meh := m }
    | .snoop t =>
      runOps rh self rest (setSnoop (emit w (.xSnoop self t)) self t)
    | .it tag =>
      -- input_to(): set_call (command_giver, ...) - command_giver is the user itself in logon / process_input /
      -- command / input_to callbacks; refused (returns 0, no error) when there is no connection or one is pending
      runOps rh self rest (setInputTo (emit w (.xIt self tag)) self tag)

def kindEv (o : Oid) : Kind → Ev
  | .logon => .tLogon o
  | .input => .tInput o ""
  | .cmd v => .tCmd o v
  | .netdead => .tNetdead o
  | .hb => .tHb o
  | .co tag => .tCo o tag
  | .reset => .tReset o
  | .cleanup => .tCleanup o
  | .prompt => .tPrompt o
  | .snoop => .tSnoop o
  | .it tag => .tIt o tag ""

/-- run hook `k` of object `o` with nesting fuel -/
def runHook (S : Scripts) : Nat → HookFn
  | 0 => fun w _ _ => (w, false)
  | fuel + 1 => fun w o k => runOps (runHook S fuel) o (S.hook o k) w

def bindTo (u : Oid) (c : Conn) : Conn := { c with ob := u, hasPI := true }

/-- mudlib_connect(): master->connect(); on success the record moves from the master to the new user object -/
def mudlibConnect (S : Scripts) (w : W) : W × Option Oid × Bool :=
  let k := w.nConnect + 1
  let w := { w with nConnect := k, masterRef := w.masterRef + 1 }      -- add_ref (master_ob, "mudlib_connect")
  let w := emit w (.tConnect k)
  match S.connect k with
  | .err =>
    -- safe_apply_master_ob (fix commit): connect() runs under its own recovery point; the error is reported as
    -- usual and the connection then counts as rejected (the caller removes the record bound to the master)
    (popCtx (errorHandler (emit (pushCtx w) (.xErr s!"k{k}")) s!"boom {s!"k{k}"}"), none, false)
  | .rej => (w, none, false)
  | .ok =>
    match w.inter .master with
    | none => (w, none, false)          -- "!master_ob->interactive": rejected
    | some id =>
      -- ob->interactive = master_ob->interactive; ip->ob = ob; iflags |= HAS_PROCESS_INPUT; master_ob->interactive = 0
      let u := Oid.user (w.nUser + 1)
      let w := { w with nUser := w.nUser + 1, masterRef := w.masterRef - 1 }   -- free_object (master_ob, ...)
      (mapConn (setInter (setInter w .master none) u (some id)) id (bindTo u), some u, false)

/-- mudlib_logon(): `safe_apply (APPLY_LOGON, ...)` (fix commit) - logon() runs under its own recovery point, an
    uncaught error in it is reported and stops there: process_io() goes on with the next event of the poll round.
    (Before, the error unwound to backend() and the rest of the round was abandoned - socket events were reported again
    by the next poll, a console completion was not.) -/
def logonHook (rh : HookFn) (w : W) (u : Oid) : R :=
  let w := emit (pushCtx w) (.tLogon u)
  let w := addOut w u s!"hello_{u.name}|"
  (popCtx (rh w u .logon).1, false)

/-- after new_interactive(): mudlib_connect(); rejected -> remove the record again; accepted -> logon() -/
def afterConnect (S : Scripts) (rh : HookFn) (w : W) : R :=
  let r := mudlibConnect S w
  if r.2.2 then (r.1, true) else
  match r.2.1 with
  | none =>
    match r.1.inter .master with
    | some _ => (removeInteractive rh r.1 .master false, false)
    | none => (r.1, false)
  | some u => logonHook rh r.1 u

/-- setup_accepted_connection() after accept() -/
def acceptConn (S : Scripts) (rh : HookFn) (w : W) (client : Nat) : R :=
  let r := newInteractive w false client
  match r.2 with
  | none => (r.1, false)
  | some _ => afterConnect S rh r.1

/-- init_console_user(reconnect) -/
def initConsoleUser (S : Scripts) (rh : HookFn) (w : W) : R :=
  let w := (newInteractive w true 0).1
  match w.inter .master with
  | none => (crash w "init_console_user: master_ob->interactive is NULL", false)
  | some _ => afterConnect S rh w

/-- split received text at line ends ('/'): (complete lines, new partial) -/
def splitLines (part : String) (text : String) : List String × String :=
  let pieces := (part ++ text).splitOn "/"
  (pieces.dropLast, pieces.getLastD "")

def bufferText (ls : List String) (p : String) (c : Conn) : Conn := { c with cmds := c.cmds ++ ls, part := p }

/-- receive_snoop(): `safe_apply (APPLY_RECEIVE_SNOOP, ip->snoop_by->ob)` (fix commit: own recovery point) - the
    snooper's callback may destruct or disconnect anybody, an error in it stops there.  The scripted receive_snoop()
    acts on text that carries a CR (raw input and the CR LF echo), not on ordinary output. -/
def snoopHook (rh : HookFn) (w : W) (id : Nat) : W :=
  match findConn w id with
  | none => w
  | some c =>
    match c.snoopBy with
    | none => w
    | some s => popCtx (rh (emit (pushCtx w) (.tSnoop s)) s .snoop).1

/-- copy_chars(): every CR LF is echoed - add_message (ip->ob, "\r\n"), whose last act is the snoop forwarding - and
    the record is re-validated afterwards (fix commit): when the snooper removed the user, copy_chars() gives up (-1) -/
def echoLoop (rh : HookFn) : Nat → W → Nat → Oid → W
  | 0, w, _, _ => w
  | n + 1, w, id, ob =>
    let w1 := snoopHook rh (addOut w ob "|") id
    if w1.inter ob ≠ some id then w1 else echoLoop rh n w1 id ob

/-- get_user_data() with data.  Console: the line is buffered.  TELNET: copy_chars() (echo per line; -1 = the user is
    gone, the packet is dropped), then the text is in the buffer and CMD_IN_BUF is set, and LAST (fix commit: it came
    before the flag and `ip` was used after it) the raw input is shown to the snooper. -/
def userData (rh : HookFn) (w : W) (id : Nat) (telnet : Bool) (text : String) : W :=
  match findConn w id with
  | none => w
  | some c =>
    let ls := (splitLines c.part text).1.filter (· ≠ "")
    if telnet then
      let w1 := echoLoop rh ls.length w id c.ob
      if w1.inter c.ob ≠ some id then w1 else
      let w2 := mapConn w1 id (bufferText ls (splitLines c.part text).2)
      if text.contains '/' then snoopHook rh w2 id else w2
    else mapConn w id (bufferText ls (splitLines c.part text).2)

def connOfClient (w : W) (client : Nat) : Option Conn :=
  ((slots w).find? (fun s => match s with | some c => c.client == client | none => false)).join

/-- one event of process_io(); `true` = an uncaught error left process_io -/
def ioEvent (S : Scripts) (rh : HookFn) (w : W) : IoEv → R
  | .wakeup => (w, false)
  | .accept client => acceptConn S rh w client
  | .data id text =>
    match findConn w id with                  -- is_interactive_user (evt->context)
    | none => (w, false)
    | some c =>
      -- "Validate interactive is still valid": !ip->ob || destructed || ip->ob->interactive != ip
      if w.dead c.ob || w.inter c.ob ≠ some c.id then (w, false) else
      -- after get_user_data: re-validated through the saved object (fix commit), never through ip
      (userData rh w c.id true text, false)
  | .eof id =>
    -- EVENT_READ, recv() returns 0: get_user_data() calls remove_interactive (ip->ob, 0)
    match findConn w id with
    | none => (w, false)
    | some c =>
      if w.dead c.ob || w.inter c.ob ≠ some c.id then (w, false) else
      (removeInteractive rh w c.ob false, false)
  | .hup id =>
    -- EVENT_ERROR | EVENT_CLOSE (connection reset): remove_interactive (ip->ob, 0) without reading
    match findConn w id with
    | none => (w, false)
    | some c =>
      if w.dead c.ob || w.inter c.ob ≠ some c.id then (w, false) else
      (removeInteractive rh w c.ob false, false)
  | .console text =>
    match w.users with
    | none => (crash w "process_io: all_users[0] with all_users == NULL (console)", false)
    | some l =>
      -- console user disconnected: re-connect first
      let r := if (l.headD none).isNone then initConsoleUser S rh w else (w, false)
      if r.2 then (r.1, true) else
      match (slots r.1).headD none with
      | none => (r.1, false)
      | some c => (userData rh r.1 c.id false text, false)

def processIoEvents (S : Scripts) (rh : HookFn) : List IoEv → W → R
  | [], w => (w, false)
  | e :: es, w =>
    if (ioEvent S rh w e).2 then ((ioEvent S rh w e).1, true) else processIoEvents S rh es (ioEvent S rh w e).1

/-- the entries behind one whose handler left process_io() by longjmp: they are never looked at again, but their
    descriptors are still ready, so the next poll reports them once more (level-triggered registration).  Since
    logon() runs under safe_apply (fix commit) no scripted handler leaves process_io() this way any more (what is left
    in the C code: process_input of the ASCII port in get_user_data) - `abandoned` is `[]` on every scripted run; the
    mechanism is kept because process_io() itself still has no recovery point. -/
def abandoned (S : Scripts) (rh : HookFn) : List IoEv → W → List IoEv
  | [], _ => []
  | e :: es, w => if (ioEvent S rh w e).2 then es else abandoned S rh es (ioEvent S rh w e).1

/-- connection events are reported again; a console completion is not (its doorbell has been reset) and a second
    pending connection is not scripted -/
def isConnEv : IoEv → Bool
  | .data _ _ | .eof _ | .hup _ => true
  | _ => false

def clearBacklog (w : W) : W := { w with backlog := [] }
def setBacklog (w : W) (l : List IoEv) : W := { w with backlog := l }

/-- what the next poll reports on top of the new events -/
def pendingEvents (w : W) : List IoEv := w.backlog.filter isConnEv

/-- process_io(): all events, then `if (all_users && all_users[0]) flush_message (all_users[0])` -/
def processIo (S : Scripts) (rh : HookFn) (w : W) (evs : List IoEv) : R :=
  let r := processIoEvents S rh evs w
  if r.2 then (r.1, true) else
  match r.1.users with
  | none => (r.1, false)            -- guarded by the fix; before it: `all_users[0]` with all_users == NULL
  | some _ => (r.1, false)

/-! ## commands (comm.c) -/

/-- get_user_command(): scan from the rotating cursor downwards for a user with a buffered command and a turn -/
def scanUsers : Nat → W → W × Option Conn
  | 0, w => (w, none)
  | n + 1, w =>
    match w.users with
    | none => (w, none)
    | some l =>
      match l[w.nextUser]? with
      | none => (crash w "get_user_command: s_next_user out of range", none)
      | some s =>
        let dec (w : W) : W := { w with nextUser := if w.nextUser = 0 then l.length - 1 else w.nextUser - 1 }
        match s with
        | some c =>
          if !c.cmds.isEmpty && c.turn then
            -- consume the turn, take the command, move the cursor
            let w := mapConn w c.id (fun c => { c with turn := false, cmds := c.cmds.drop 1 })
            (dec w, some c)
          else scanUsers n (dec w)
        | none => scanUsers n (dec w)

/-- update_load_av(): duration = current_time - last_time indexes consts[]; clamped when the clock stepped back -/
def updateLoadAv (w : W) : W :=
  if w.now = w.loadLast then w
  else if w.now < w.loadLast then { w with loadLast := w.now }      -- fix commit; before: consts[negative]
  else { w with loadLast := w.now }

/-- `ip->iflags & HAS_PROCESS_INPUT` -/
def hasPIOf (w : W) (id : Nat) : Bool := match findConn w id with | some c => c.hasPI | none => false

/-- process_input apply of process_user_command() -/
def inputStage (rh : HookFn) (w : W) (cg : Oid) (line : String) (hasPI : Bool) : R :=
  if hasPI then rh (emit w (.tInput cg line)) cg .input else (w, false)

/-- process_command -> user_parser -> the catch-all verb of the user object -/
def commandStage (rh : HookFn) (w : W) (cg : Oid) (line : String) : R :=
  if cg = .master then (w, false)           -- user_parser(): no O_ENABLE_COMMANDS, nothing happens
  else if w.dead cg then (w, false) else
    -- user_parser(): the verb is copied into verb_buff[MAX_VERB_BUFF] (strncpy, MAX_VERB_BUFF - 1 characters)
    let verb := (line.take (maxVerbBuff - 1)).toString
    let r := rh (emit w (.tCmd cg verb)) cg (.cmd verb)
    if r.2 then (r.1, true) else (addOut r.1 cg s!"ack_{verb}|", false)

/-- `ip->input_to` -/
def inputToOf (w : W) (id : Nat) : Option String := match findConn w id with | some c => c.inputTo | none => none

/-- print_prompt (ip): only while no input_to() is pending the user object's write_prompt() is applied (unprotected:
    an error unwinds to backend()); the record is re-validated (IP_VALID) before flush_message (ip) touches it.  The
    scripted write_prompt() writes the prompt text itself.  The master is not a user object: nothing happens. -/
def promptStage (rh : HookFn) (w : W) (cg : Oid) (id : Nat) : R :=
  if cg = .master then (w, false) else
  if (inputToOf w id).isSome then (w, false) else
  let r := rh (emit w (.tPrompt cg)) cg .prompt
  if r.2 then (r.1, true) else
  if r.1.inter cg ≠ some id then (r.1, false) else               -- IP_VALID
  (addOut (useConn r.1 id) cg ">_", false)

/-- the ordinary path of process_user_command(): process_input, VALIDATE_IP, the command, VALIDATE_IP, the prompt -/
def plainCommand (rh : HookFn) (w : W) (cg : Oid) (id : Nat) (line : String) : W × Bool × Bool :=
  let hasPI := hasPIOf w id
  let r1 := inputStage rh w cg line hasPI
  if r1.2 then (r1.1, true, true) else
  if hasPI && r1.1.inter cg ≠ some id then (r1.1, true, false) else      -- VALIDATE_IP
  let r2 := commandStage rh r1.1 cg line
  if r2.2 then (r2.1, true, true) else
  if r2.1.inter cg ≠ some id then (r2.1, true, false) else               -- VALIDATE_IP
  ((promptStage rh (useConn r2.1 id) cg id).1, true, (promptStage rh (useConn r2.1 id) cg id).2)

/-- call_function_interactive(): the sentence is freed and `ip->input_to` cleared BEFORE the callback runs (it may
    call input_to() again); the line goes to the callback instead of process_input / the command parser -/
def inputToCommand (rh : HookFn) (w : W) (cg : Oid) (id : Nat) (line : String) (tag : String) : W × Bool × Bool :=
  let r := rh (emit (mapConn w id clearInputTo) (.tIt cg tag line)) cg (.it tag)
  if r.2 then (r.1, true, true) else
  if r.1.inter cg ≠ some id then (r.1, true, false) else                 -- VALIDATE_IP
  ((promptStage rh (useConn r.1 id) cg id).1, true, (promptStage rh (useConn r.1 id) cg id).2)

/-- process_user_command() once get_user_command() has picked a record: (state, processed, uncaught error) -/
def serveCommand (rh : HookFn) (w : W) (c0 : Conn) : W × Bool × Bool :=
  let cg := c0.ob                               -- command_giver = ip->ob
  let line := c0.cmds.headD ""
  if w.dead cg then (w, true, false) else
  match w.inter cg with                         -- ip = command_giver->interactive
  | none => (w, true, false)
  | some id =>
    let w := updateLoadAv (useConn w id)        -- clear_notify (ip); update_load_av ()
    match inputToOf w id with
    | some tag => inputToCommand rh w cg id line tag
    | none => plainCommand rh w cg id line

/-- process_user_command(): returns (state, a command was processed, uncaught error) -/
def processUserCommand (rh : HookFn) (w : W) : W × Bool × Bool :=
  let r := scanUsers (slots w).length w
  match r.2 with
  | none => (r.1, false, false)
  | some c0 => serveCommand rh r.1 c0

/-- `for (i = 0; process_user_command () && i < connected_users; i++);` -/
def commandLoop (rh : HookFn) : Nat → W → R
  | 0, w => ((processUserCommand rh w).1, (processUserCommand rh w).2.2)
  | n + 1, w =>
    let r := processUserCommand rh w
    if r.2.2 then (r.1, true) else
    if r.2.1 then commandLoop rh n r.1 else (r.1, false)

/-! ## the timer tick (backend.c call_heart_beat) -/

/-- the `while` loop of call_heart_beat(); fuel = number of entries at the start of the round -/
def hbLoop (rh : HookFn) : Nat → W → R
  | 0, w => (w, false)
  | n + 1, w =>
    match w.hbs[w.hbNext]? with           -- heart_beats[heart_beat_index]
    | none => (w, false)
    | some o =>
      let r := rh (emit { w with hbNext := w.hbNext + 1, curHb := some o } (.tHb o)) o .hb
      if r.2 then (r.1, true) else
      if r.1.hbNext = r.1.hbToDo then (r.1, false) else hbLoop rh n r.1

/-- reset_object(): next_reset first, then apply (time_of_ref, clears O_RESET_STATE), O_RESET_STATE set when it returns;
    the Bool says that reset() raised an error (longjmp to the recovery point of the sweep) -/
def resetObjectR (rh : HookFn) (w : W) (k : Nat) : R :=
  let r := rh (emit { w with nextReset := fun x => if x = k then w.now + resetDuration / 2 else w.nextReset x,
                             refTime := fun x => if x = k then w.now else w.refTime x }
                    (.tReset (.obj k))) (.obj k) .reset
  if r.2 then (r.1, true) else ({ r.1 with resetState := fun x => if x = k then true else r.1.resetState x }, false)

def resetObject (rh : HookFn) (w : W) (k : Nat) : W := (resetObjectR rh w k).1

/-- the clean_up branch of look_for_objects_to_swap(): O_RESET_STATE is saved, apply (APPLY_CLEAN_UP) (time_of_ref,
    clears O_RESET_STATE), and - unless the object is gone - the saved flag is or-ed back.  An error in clean_up()
    leaves by longjmp: the saved flag is NOT restored (the restarted walk finds the object due for reset() again).
    The scripted clean_up() returns 1, so O_WILL_CLEAN_UP stays.  The Bool says that clean_up() raised. -/
def cleanupObject (rh : HookFn) (w : W) (k : Nat) : R :=
  let r := rh (emit (touch w (.obj k)) (.tCleanup (.obj k))) (.obj k) .cleanup
  if r.2 then (r.1, true) else
  if r.1.dead (.obj k) then (r.1, false) else
  ({ r.1 with resetState := fun x => if x = k then (r.1.resetState k || w.resetState k) else r.1.resetState x }, false)

/-- one object of the walk: `ref_time` is read BEFORE reset() (so a reset does not postpone the clean_up); the Bool
    says that reset() or clean_up() raised (longjmp to the recovery point in front of the walk) -/
def sweepObject (rh : HookFn) (w : W) (k : Nat) : R :=
  let r := if w.nextReset k < w.now && !w.resetState k then resetObjectR rh w k else (w, false)
  if r.2 then (r.1, true) else
  -- an object destructed by its own reset() is not scripted (the C code would still apply clean_up to it)
  if r.1.dead (.obj k) then (r.1, false) else
  if 0 < cleanupDuration && cleanupDuration < r.1.now - w.refTime k then cleanupObject rh r.1 k else (r.1, false)

/-- one walk over obj_list, up to the first error -/
def sweepPass (rh : HookFn) : List Nat → W → R
  | [], w => (w, false)
  | k :: ks, w =>
    if w.dead (.obj k) then sweepPass rh ks w else
    if (sweepObject rh w k).2 then ((sweepObject rh w k).1, true) else sweepPass rh ks (sweepObject rh w k).1

/-- look_for_objects_to_swap(): reset() and clean_up() of every object that is due.  The recovery point sits in
    front of the walk: after an error the walk RESTARTS at the list head (objects already handled are not due any
    more; the failing object has a fresh next_reset / time_of_ref, but a failing clean_up() has cleared its
    O_RESET_STATE, so the restarted walk may reset() it at once).  `fuel` bounds the restarts: every error advances
    next_reset or time_of_ref of its object, at most three per object and sweep. -/
def sweepResets (rh : HookFn) : Nat → W → W
  | 0, w => w
  | fuel + 1, w => if (sweepPass rh w.objList w).2 then sweepResets rh fuel (sweepPass rh w.objList w).1
                   else (sweepPass rh w.objList w).1

/-- call_out(): every due entry fires, entries of destructed objects are dropped; own recovery point per entry -/
def sweepCallOuts (rh : HookFn) : Nat → W → W
  | 0, w => w
  | n + 1, w =>
    match w.callouts with
    | [] => w
    | c :: rest =>
      if c.due ≤ w.now then
        let w := { w with callouts := rest }
        if w.dead c.owner then sweepCallOuts rh n w else
        sweepCallOuts rh n (rh (touch (emit w (.tCo c.owner c.tag)) c.owner) c.owner (.co c.tag)).1
      else w

/-- the heart-beat round of call_heart_beat() -/
def hbRound (rh : HookFn) (w : W) : R :=
  if w.hbToDo > 0 then
    let r := hbLoop rh w.hbToDo { w with hbNext := 0 }
    if r.2 then (r.1, true) else ({ r.1 with hbNext := 0, hbToDo := 0 }, false)
  else (w, false)

/-- look_for_objects_to_swap() and call_out(), each under its own error context -/
def timerSweeps (rh : HookFn) (w : W) : W :=
  let w := { w with curHb := none }
  let w :=
    if w.now < w.nextSweep then w else
    popCtx (sweepResets rh (3 * w.objList.length + 3) (pushCtx { w with nextSweep := w.now + sweepPeriod }))
  popCtx (sweepCallOuts rh (w.callouts.length) (pushCtx w))

/-- call_heart_beat() -/
def callHeartBeat (rh : HookFn) (w : W) : R :=
  let r := hbRound rh { w with hbFlag := false, now := w.clock, hbToDo := w.hbs.length }
  if r.2 then (r.1, true) else (timerSweeps rh r.1, false)

/-! ## preload_objects() (backend.c; called by main() before backend()) -/

/-- the loop over the array epilog() returned: master->preload (file) for every entry; an error is reported, the
    recovery point in front of the loop does `ix++` and the loop goes on with the NEXT file ("effectively a continue") -/
def preloadFiles : List (String × Bool) → W → W
  | [], w => w
  | (name, raises) :: fs, w =>
    if raises then preloadFiles fs (errorHandler (emit (emit w (.tPreload name)) (.xErr name)) s!"boom {name}")
    else preloadFiles fs (emit w (.tPreload name))

/-- preload_objects(): epilog() under its own recovery point (an error there: nothing is preloaded), then the files
    under a second one -/
def preloadObjects (epilogRaises : Bool) (files : List (String × Bool)) (w : W) : W :=
  if epilogRaises then popCtx (errorHandler (emit (emit (pushCtx w) .tEpilog) (.xErr "epilog")) "boom epilog")
  else popCtx (preloadFiles files (pushCtx (popCtx (emit (pushCtx w) .tEpilog))))

/-! ## backend() -/

inductive Action
  | tick (dt : Int) | conn (c : Nat) | send (c : Nat) (text : String) | close (c : Nat) | reset (c : Nat)
  | cin (text : String) | idle
  deriving Repr

/-- what the outside world does while the driver waits in do_comm_polling(): returns the reported I/O events -/
def applyAction (w : W) : Action → W × List IoEv
  | .tick dt => ({ w with clock := (Int.ofNat w.clock + dt).toNat, hbFlag := true }, [.wakeup])
  | .conn c => ({ w with tcpClients := c :: w.tcpClients }, [.accept c])
  | .send c text =>
    match connOfClient w c with
    | some r => (w, [.data r.id text])
    | none => (w, [])
  | .close c =>
    let w := { w with closedByScript := c :: w.closedByScript }
    match connOfClient w c with
    | some r => (w, [.eof r.id])
    | none => (w, [])
  | .reset c =>
    -- the client aborts the connection (RST): the socket reports error / hang-up
    let w := { w with closedByScript := c :: w.closedByScript }
    match connOfClient w c with
    | some r => (w, [.hup r.id])
    | none => (w, [])
  | .cin text => if w.mode = .console then (w, [.console text]) else (w, [])   -- no console queue in network mode
  | .idle => (w, [])

def applyActions : List Action → W → W × List IoEv
  | [], w => (w, [])
  | a :: as, w =>
    ((applyActions as (applyAction w a).1).1, (applyAction w a).2 ++ (applyActions as (applyAction w a).1).2)

/-- restore_context (&econ) at the recovery point of backend(): back to the head of the loop.
    (Before the fix commits the start-up code ran again from here.) -/
def recover (w : W) : W := { w with ctxDepth := 1 }

/-- remove_destructed_objects (); grant command turns; do_comm_polling (trace marker, the outside world acts) -/
def cycleHead (n : Nat) (acts : List Action) (w : W) : W × List IoEv :=
  applyActions acts
    (emit { w with users := w.users.map (fun l => l.map (fun s => s.map (fun c => { c with turn := true }))) } (.cycle n))

/-- the body of one iteration after the poll: process_io, the command loop, call_heart_beat -/
def cycleBody (S : Scripts) (rh : HookFn) (connected : Nat) (w : W) (evs : List IoEv) : W × Bool :=
  let r1 := if evs.isEmpty then (clearBacklog w, false) else processIo S rh (clearBacklog w) evs
  if r1.2 then (recover (setBacklog r1.1 (abandoned S rh evs (clearBacklog w))), false) else
  let r2 := commandLoop rh connected r1.1
  if r2.2 then (recover r2.1, false) else
  if r2.1.hbFlag then
    let r3 := callHeartBeat rh r2.1
    if r3.2 then (recover r3.1, false) else (r3.1, true)
  else (r2.1, true)

/-- one iteration of `while (1)` in backend(); `n` is the cycle number (trace marker at the poll point).
    The Bool says whether the iteration reached its end (where the H1 hook sits) instead of leaving by longjmp. -/
def cycle (S : Scripts) (rh : HookFn) (n : Nat) (acts : List Action) (w : W) : W × Bool :=
  if w.shutdown then (w, false) else
  cycleBody S rh ((slots w).filter Option.isSome).length (cycleHead n acts w).1
    (pendingEvents w ++ (cycleHead n acts w).2)

/-- backend() up to the loop: save_context, recovery point, then the start-up steps - initial tick, console user -
    each exactly once even when the previous one left through the recovery point (fix commits) -/
def startup (S : Scripts) (rh : HookFn) (w : W) : W :=
  let r := callHeartBeat rh { (emit w .start) with ctxDepth := 1 }
  let w := if r.2 then recover r.1 else r.1
  if w.mode = .console then
    let r := initConsoleUser S rh w
    if r.2 then recover r.1 else r.1
  else w

def runCycles (S : Scripts) (rh : HookFn) : Nat → List (List Action) → W → W
  | _, [], w => w
  | n, a :: as, w => runCycles S rh (n + 1) as (cycle S rh n a w).1

/-- nesting fuel handed to every top-level task -/
def hookFuel : Nat := 64

/-- backend() on a history of external events: one list of actions per loop iteration -/
def run (S : Scripts) (w0 : W) (h : List (List Action)) : W :=
  runCycles S (runHook S hookFuel) 1 h (startup S (runHook S hookFuel) w0)

/-! ## what the harness adds: trailing idle cycles until H1 leaves the loop, final observations -/

/-- scripted cycles; returns the state, the next cycle number and whether the last cycle reached the hook -/
def runScripted (S : Scripts) (rh : HookFn) : Nat → List (List Action) → W → Bool → W × Nat × Bool
  | n, [], w, last => (w, n, last)
  | n, a :: as, w, _ =>
    let (w, done) := cycle S rh n a w
    runScripted S rh (n + 1) as w done

/-- the hook leaves the loop at the third completed iteration that found the script exhausted -/
def trailing (S : Scripts) (rh : HookFn) : Nat → Nat → Nat → W → W
  | 0, _, _, w => w
  | f + 1, n, trail, w =>
    if w.shutdown || trail > 2 then w else
    let (w, done) := cycle S rh n [] w
    trailing S rh f (n + 1) (if done then trail + 1 else trail) w

def insertSorted (s : String) : List String → List String
  | [] => [s]
  | x :: xs => if s < x then s :: x :: xs else x :: insertSorted s xs

def sortStrings (l : List String) : List String := l.foldr insertSorted []

def insertByKey (e : Nat × String) : List (Nat × String) → List (Nat × String)
  | [] => [e]
  | x :: xs => if e.1 < x.1 then e :: x :: xs else x :: insertByKey e xs

/-- (client, output) of every connection that still exists -/
def liveOuts (w : W) : List (Nat × String) := (slots w).filterMap (fun s => s.map (fun c => (c.client, c.out)))

/-- outputs the harness can still read: not of clients the script itself closed.  A client whose connection the
    driver never accepted (the accept was abandoned by a longjmp, or the driver was shut down first) has read nothing. -/
def allOuts (w : W) : List (Nat × String) :=
  let known := w.outs.reverse ++ liveOuts w
  let never := (w.tcpClients.reverse.filter (fun c => !(known.any (fun e => e.1 == c)))).map (fun c => (c, ""))
  (known ++ never).filter (fun e => !(w.closedByScript.contains e.1))

def exitEv (w : W) : Ev := if w.shutdown then .exitShutdown else .exitLoop
def outEv (e : Nat × String) : Ev := .out s!"c{e.1}" e.2
def consoleOutEv (w : W) : Ev := .out "console" (String.join (((allOuts w).filter (fun e => e.1 = 0)).map (·.2)))

/-- indices of the occupied slots of all_users[] -/
def occupiedIdx : List (Option Conn) → Nat → List Nat
  | [], _ => []
  | none :: l, i => occupiedIdx l (i + 1)
  | some _ :: l, i => i :: occupiedIdx l (i + 1)

/-- `exit ...`, `hbs`, `refs`, `slots`, `slotidx` -/
def finishHead (w : W) : W :=
  emit (emit (emit (emit (emit w (exitEv w)) (.hbs (sortStrings (w.hbs.map Oid.name)))) (.refs w.masterRef 0))
    (.slots (liveOuts w).length)) (.slotIdx (occupiedIdx (slots w) 0))

/-- final observations printed by the harness after backend() returned -/
def finish (w : W) : W :=
  let w1 := (((allOuts w).filter (fun e => e.1 ≠ 0)).foldr insertByKey []).foldl (fun v e => emit v (outEv e))
              (finishHead w)
  if w.mode = .console then emit w1 (consoleOutEv w) else w1

def runFull (S : Scripts) (w0 : W) (h : List (List Action)) : W :=
  let rh := runHook S hookFuel
  let w := startup S rh w0
  let (w, n, last) := runScripted S rh 1 h w false
  let w := trailing S rh 256 n (if last then 1 else 0) w
  finish w

end NV.C09
