/-
C09 — Lean-checked witness of the open known finding C09-connect-error-leaks-record: an uncaught error in the
master's connect() leaves the connection record in all_users[] bound to the master; after the next (successful)
connection nothing points to it any more, and when its client closes, the record is still there: it can never be
removed (process_io skips its events because ip->ob->interactive != ip).
-/
import NV.C09.Model

namespace NV.C09

def leakScripts : Scripts :=
  { hook := fun _ _ => [], connect := fun k => if k = 1 then .err else .ok }

def noHook : HookFn := fun w _ _ => (w, false)

/-- state after the failing connection (client 1) and the next, successful one (client 2) -/
def leakState : W :=
  (acceptConn leakScripts noHook (recover (acceptConn leakScripts noHook {} 1).1) 2).1

/-- the failing connect() left through the recovery point (raised = true) with the record bound to the master;
    after the next connection the record of client 1 (serial 1) is still in its slot, owned by the master, while no
    object's interactive pointer refers to it any more (the master's is NULL, user 1 holds serial 2): process_io
    ignores its events for ever (`ip->ob->interactive != ip`) and remove_interactive can never reach it -/
theorem connect_error_leaks_record :
    (acceptConn leakScripts noHook {} 1).2 = true ∧
    (acceptConn leakScripts noHook {} 1).1.inter .master = some 1 ∧
    ((findConn leakState 1).map (·.ob)) = some Oid.master ∧
    leakState.inter .master = none ∧
    leakState.inter (.user 1) = some 2 ∧
    leakState.crashed = none := by
  decide

end NV.C09
