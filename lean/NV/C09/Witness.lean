/-
C09 — Lean-checked record of the (now repaired) finding C09-connect-error-leaks-record.  Before the fix an uncaught
error in the master's connect() unwound to backend() and left the connection record in all_users[] bound to the
master for ever.  With connect() under its own recovery point (safe_apply_master_ob) the error is reported, the
connection counts as rejected and the record is removed at once.
-/
import NV.C09.Model

namespace NV.C09

def leakScripts : Scripts :=
  { hook := fun _ _ => [], connect := fun k => if k = 1 then .err else .ok }

def noHook : HookFn := fun w _ _ => (w, false)

/-- the failing connect() no longer propagates (raised = false), the record of client 1 (serial 1) is gone, the
    master holds no connection, the context depth is back, and the next connection is served normally -/
theorem connect_error_releases_record :
    (acceptConn leakScripts noHook {} 1).2 = false ∧
    (findConn (acceptConn leakScripts noHook {} 1).1 1) = none ∧
    (acceptConn leakScripts noHook {} 1).1.inter .master = none ∧
    (acceptConn leakScripts noHook {} 1).1.ctxDepth = 0 ∧
    (acceptConn leakScripts noHook (acceptConn leakScripts noHook {} 1).1 2).1.inter (.user 1) = some 2 ∧
    (acceptConn leakScripts noHook (acceptConn leakScripts noHook {} 1).1 2).1.crashed = none := by
  decide

def refScripts : Scripts :=
  { hook := fun _ _ => [], connect := fun k => if k = 1 then .err else if k = 2 then .err else if k = 3 then .rej else .ok }

/-- the extra reference connection set-up takes on the master is given back on every path: two failing connect()s
    in a row, a rejected and an accepted connection leave the (relative) count at 0 - after each of them -/
theorem connect_refs_balanced :
    (acceptConn refScripts noHook {} 1).1.masterRef = 0 ∧
    (acceptConn refScripts noHook (acceptConn refScripts noHook {} 1).1 2).1.masterRef = 0 ∧
    (acceptConn refScripts noHook (acceptConn refScripts noHook (acceptConn refScripts noHook {} 1).1 2).1 3).1.masterRef = 0 ∧
    (acceptConn refScripts noHook (acceptConn refScripts noHook (acceptConn refScripts noHook
      (acceptConn refScripts noHook {} 1).1 2).1 3).1 4).1.masterRef = 0 := by
  decide

end NV.C09
