import NV.C09.Model
namespace NV.C09
end NV.C09
