/-
C09 — preload_objects(): the fourth recovery point of the property's mechanism list.  Whatever files fail to load,
under every master error_handler behaviour, every file epilog() named is handed to preload() exactly once and in
order; the error path leaves the flags clear and the idle driver idle, so `backend_total` applies to the state
backend() is entered with.
-/
import NV.C09.TraceThms

namespace NV.C09

theorem preloaded_append (a b : List Ev) : preloaded (a ++ b) = preloaded a ++ preloaded b := by
  unfold preloaded; exact List.filterMap_append

theorem preloaded_meh_only (es : List Ev) (h : ∀ e ∈ es, ∃ m, e = Ev.meh false m) : preloaded es = [] := by
  unfold preloaded
  rw [List.filterMap_eq_nil_iff]
  intro e he
  obtain ⟨m, hm⟩ := h e he
  rw [hm]

/-- the master-handler step only ever adds reports (`meh 0 ...`) to the trace -/
theorem cmh_trace_meh : ∀ (fuel : Nat) (w : W) (msg : String),
    ∃ es, (callMasterHandler fuel w msg).1.trace = es ++ (Ev.meh false msg :: w.trace) ∧
      ∀ e ∈ es, ∃ m, e = Ev.meh false m := by
  intro fuel w msg
  cases fuel with
  | zero => exact ⟨[], rfl, by simp⟩
  | succ n =>
    rw [callMasterHandler_succ]
    split
    · exact ⟨[], rfl, by simp⟩
    · exact ⟨[], by show (errExit _).trace = _; rw [trace_errExit]; rfl, by simp⟩
    · split
      · exact ⟨[], by show (errExit _).trace = _; rw [trace_errExit]; rfl, by simp⟩
      · exact ⟨[], rfl, by simp⟩

theorem errorHandler_trace_meh (w : W) (msg : String) (h1 : w.inError = false) (h2 : w.inMeh = false) :
    ∃ es, (errorHandler w msg).trace = es ++ (Ev.meh false msg :: w.trace) ∧ ∀ e ∈ es, ∃ m, e = Ev.meh false m := by
  unfold errorHandler
  simp only [h1, h2, Bool.false_eq_true, if_false]
  obtain ⟨es, he, hq⟩ := cmh_trace_meh 3 (setErr (setMeh (setErr w true) true) false) msg
  split
  · exact ⟨es, he, hq⟩
  · exact ⟨es, by rw [trace_errExit]; exact he, hq⟩

/-- reporting an error never adds (or removes) a preload event -/
theorem errorHandler_preloaded (w : W) (msg : String) (h1 : w.inError = false) (h2 : w.inMeh = false) :
    preloaded (errorHandler w msg).trace.reverse = preloaded w.trace.reverse := by
  obtain ⟨es, he, hq⟩ := errorHandler_trace_meh w msg h1 h2
  rw [he, List.reverse_append, List.reverse_cons, preloaded_append, preloaded_append]
  have h3 : preloaded es.reverse = [] := preloaded_meh_only _ (fun e h => hq e (List.mem_reverse.mp h))
  rw [h3]
  simp [preloaded]

/-- **every file, exactly once, in order** - whichever of them fail to load, for every master error_handler
    behaviour: the chronological list of `t preload` events grows by exactly the names epilog() returned; the flags are
    clear again afterwards -/
theorem preloadFiles_visits_all : ∀ (fs : List (String × Bool)) (w : W), w.inError = false → w.inMeh = false →
    preloaded (preloadFiles fs w).trace.reverse = preloaded w.trace.reverse ++ fs.map (·.1) ∧
    (preloadFiles fs w).inError = false ∧ (preloadFiles fs w).inMeh = false := by
  intro fs
  induction fs with
  | nil => intro w h1 h2; exact ⟨by simp [preloadFiles], h1, h2⟩
  | cons f fs ih =>
    intro w h1 h2
    obtain ⟨name, raises⟩ := f
    unfold preloadFiles
    split
    · have s := errorHandler_same (emit (emit w (.tPreload name)) (.xErr name)) s!"boom {name}" h1 h2
      obtain ⟨k1, k2, k3⟩ := ih (errorHandler (emit (emit w (.tPreload name)) (.xErr name)) s!"boom {name}")
        (by rw [s.inError]; exact h1) (by rw [s.inMeh]; exact h2)
      refine ⟨?_, k2, k3⟩
      rw [k1, errorHandler_preloaded (emit (emit w (.tPreload name)) (.xErr name)) _ h1 h2]
      show preloaded (Ev.xErr name :: Ev.tPreload name :: w.trace).reverse ++ _ = _
      simp [preloaded, List.filterMap_append]
    · obtain ⟨k1, k2, k3⟩ := ih (emit w (.tPreload name)) h1 h2
      refine ⟨?_, k2, k3⟩
      rw [k1]
      show preloaded (Ev.tPreload name :: w.trace).reverse ++ _ = _
      simp [preloaded, List.filterMap_append]

theorem preload_visits_every_file (files : List (String × Bool)) (w : W) (h1 : w.inError = false)
    (h2 : w.inMeh = false) :
    preloaded (preloadObjects false files w).trace.reverse = preloaded w.trace.reverse ++ files.map (·.1) := by
  unfold preloadObjects
  simp only [Bool.false_eq_true, if_false]
  have := (preloadFiles_visits_all files (pushCtx (popCtx (emit (pushCtx w) .tEpilog))) h1 h2).1
  show preloaded (preloadFiles files (pushCtx (popCtx (emit (pushCtx w) .tEpilog)))).trace.reverse = _
  rw [this]
  show preloaded (Ev.tEpilog :: w.trace).reverse ++ _ = _
  simp [preloaded, List.filterMap_append]

/-- an error in epilog() itself: reported, nothing is preloaded -/
theorem preload_epilog_error_loads_nothing (files : List (String × Bool)) (w : W) (h1 : w.inError = false)
    (h2 : w.inMeh = false) :
    preloaded (preloadObjects true files w).trace.reverse = preloaded w.trace.reverse := by
  unfold preloadObjects
  simp only [if_true]
  show preloaded (errorHandler (emit (emit (pushCtx w) .tEpilog) (.xErr "epilog")) "boom epilog").trace.reverse = _
  rw [errorHandler_preloaded (emit (emit (pushCtx w) .tEpilog) (.xErr "epilog")) _ h1 h2]
  show preloaded (Ev.xErr "epilog" :: Ev.tEpilog :: w.trace).reverse = _
  simp [preloaded, List.filterMap_append]

theorem Fresh.of_eq {w w' : W} (f : Fresh w) (hu : w'.users = w.users) (hi : w'.inter = w.inter)
    (he : w'.inError = w.inError) (hm : w'.inMeh = w.inMeh) (hc : w'.crashed = w.crashed)
    (hn : w'.nextUser = w.nextUser) : Fresh w' :=
  ⟨by rw [hu]; exact f.users, fun o => by rw [hi]; exact f.inter o, by rw [he]; exact f.inError,
   by rw [hm]; exact f.inMeh, by rw [hc]; exact f.crashed, by rw [hn]; exact f.nextUser⟩

theorem Fresh.pushCtx {w : W} (f : Fresh w) : Fresh (pushCtx w) := Fresh.of_eq f rfl rfl rfl rfl rfl rfl
theorem Fresh.popCtx {w : W} (f : Fresh w) : Fresh (popCtx w) := Fresh.of_eq f rfl rfl rfl rfl rfl rfl
theorem Fresh.emit {w : W} (f : Fresh w) (e : Ev) : Fresh (emit w e) := Fresh.of_eq f rfl rfl rfl rfl rfl rfl

theorem preloadFiles_fresh : ∀ (fs : List (String × Bool)) (w : W), Fresh w → Fresh (preloadFiles fs w) := by
  intro fs
  induction fs with
  | nil => intro w f; exact f
  | cons x fs ih =>
    intro w f
    obtain ⟨name, raises⟩ := x
    unfold preloadFiles
    split
    · apply ih
      have f1 : Fresh (emit (emit w (.tPreload name)) (.xErr name)) := (f.emit _).emit _
      have s := errorHandler_same _ s!"boom {name}" f1.inError f1.inMeh
      exact Fresh.of_eq f1 s.users s.inter s.inError s.inMeh s.crashed s.nextUser
    · exact ih _ (f.emit _)

/-- preload_objects() - with any files failing, even epilog() itself - hands an idle driver to backend():
    `backend_total` applies to everything that follows -/
theorem preload_keeps_fresh (e : Bool) (files : List (String × Bool)) (w : W) (f : Fresh w) :
    Fresh (preloadObjects e files w) := by
  unfold preloadObjects
  split
  · have f1 : Fresh (emit (emit (pushCtx w) .tEpilog) (.xErr "epilog")) := (f.pushCtx.emit .tEpilog).emit _
    have s := errorHandler_same _ "boom epilog" f1.inError f1.inMeh
    exact (Fresh.of_eq f1 s.users s.inter s.inError s.inMeh s.crashed s.nextUser).popCtx
  · exact (preloadFiles_fresh files _ ((f.pushCtx.emit .tEpilog).popCtx.pushCtx)).popCtx

/-- nothing preload_objects() logs is the `start` event of backend() -/
theorem preloadFiles_noStart : ∀ (fs : List (String × Bool)) (w : W), w.inError = false → w.inMeh = false →
    (∀ e ∈ w.trace, e ≠ Ev.start) → ∀ e ∈ (preloadFiles fs w).trace, e ≠ Ev.start := by
  intro fs
  induction fs with
  | nil => intro w _ _ h; exact h
  | cons f fs ih =>
    intro w h1 h2 hn
    obtain ⟨name, raises⟩ := f
    unfold preloadFiles
    split
    · have s := errorHandler_same (emit (emit w (.tPreload name)) (.xErr name)) s!"boom {name}" h1 h2
      obtain ⟨es, he, hq⟩ := errorHandler_trace_meh (emit (emit w (.tPreload name)) (.xErr name)) s!"boom {name}" h1 h2
      apply ih (errorHandler (emit (emit w (.tPreload name)) (.xErr name)) s!"boom {name}")
        (by rw [s.inError]; exact h1) (by rw [s.inMeh]; exact h2)
      intro e hm
      rw [he] at hm
      rcases List.mem_append.mp hm with h | h
      · obtain ⟨m, hm'⟩ := hq e h; rw [hm']; simp
      · have : e = Ev.meh false s!"boom {name}" ∨ e = Ev.xErr name ∨ e = Ev.tPreload name ∨ e ∈ w.trace := by
          simpa [emit] using h
        rcases this with h | h | h | h
        · rw [h]; simp
        · rw [h]; simp
        · rw [h]; simp
        · exact hn e h
    · apply ih (emit w (.tPreload name)) h1 h2
      intro e hm
      have : e = Ev.tPreload name ∨ e ∈ w.trace := by simpa [emit] using hm
      rcases this with h | h
      · rw [h]; simp
      · exact hn e h

theorem preloadObjects_noStart (files : List (String × Bool)) (w : W) (h1 : w.inError = false) (h2 : w.inMeh = false)
    (ht : w.trace = []) : ∀ e ∈ (preloadObjects false files w).trace, e ≠ Ev.start := by
  unfold preloadObjects
  simp only [Bool.false_eq_true, if_false]
  show ∀ e ∈ (preloadFiles files (pushCtx (popCtx (emit (pushCtx w) .tEpilog)))).trace, e ≠ Ev.start
  apply preloadFiles_noStart files (pushCtx (popCtx (emit (pushCtx w) .tEpilog))) h1 h2
  intro e hm
  have : e = Ev.tEpilog := by
    have hm' : e ∈ Ev.tEpilog :: w.trace := hm
    rw [ht] at hm'
    simpa using hm'
  rw [this]; simp

theorem beforeStart_prefix (a b : List Ev) (h : ∀ e ∈ a, e ≠ Ev.start) : beforeStart (a ++ Ev.start :: b) = a := by
  unfold beforeStart
  induction a with
  | nil => simp [List.takeWhile]
  | cons x xs ih =>
    have hx : (x != Ev.start) = true := by simpa using h x List.mem_cons_self
    rw [List.cons_append, List.takeWhile_cons, hx]
    simp only [if_true]
    rw [ih (fun e he => h e (List.mem_cons_of_mem _ he))]

/-- the oracle's `preload` clause holds on the model's preload phase, for every list of files and failures -/
theorem judge_preload_phase (files : List (String × Bool)) (w : W) (h1 : w.inError = false) (h2 : w.inMeh = false)
    (ht : w.trace = []) :
    preloaded (preloadObjects false files w).trace.reverse = files.map (·.1) := by
  rw [preload_visits_every_file files w h1 h2, ht]
  simp [preloaded]

/-- **clause `preload` of the oracle, all file lists x all failures x all histories x all oracles:** preload_objects()
    with any files failing, then the whole run of backend() on any history: the judge's `preload` clause accepts the
    model's trace -/
theorem judge_preload_clause (S : Scripts) (w : W) (files : List (String × Bool)) (h : List (List Action))
    (f : Fresh w) (ht : w.trace = []) :
    clausePreload { preloads := files.map (·.1) } (events S (preloadObjects false files w) h) = [] := by
  obtain ⟨es, he, _⟩ := runFull_block_start S (preloadObjects false files w) h (preload_keeps_fresh false files w f)
  have hns := preloadObjects_noStart files w f.inError f.inMeh ht
  have hb : beforeStart (events S (preloadObjects false files w) h) = (preloadObjects false files w).trace.reverse := by
    unfold events
    rw [he, List.reverse_append, List.reverse_cons, List.append_assoc]
    exact beforeStart_prefix _ _ (fun e hm => hns e (List.mem_reverse.mp hm))
  unfold clausePreload
  rw [hb, judge_preload_phase files w f.inError f.inMeh ht]
  simp

/-- start-up with failing preloads, then ANY history: the driver never crashes and the flags are clear -/
theorem backend_total_after_preload (S : Scripts) (w0 : W) (e : Bool) (files : List (String × Bool))
    (h : List (List Action)) (f : Fresh w0) :
    (run S (preloadObjects e files w0) h).crashed = none ∧ (run S (preloadObjects e files w0) h).inError = false ∧
    (run S (preloadObjects e files w0) h).inMeh = false :=
  let t := backend_total S (preloadObjects e files w0) h (preload_keeps_fresh e files w0 f)
  ⟨t.1, t.2.1, t.2.2.1⟩

/-- non-vacuity: three files, two of them failing, every one is visited -/
example : preloaded (preloadObjects false [("p1", true), ("p2", false), ("p3", true)] {}).trace.reverse = ["p1", "p2", "p3"] := by
  rw [preload_visits_every_file _ _ rfl rfl]; rfl

/-! ## the other proved clauses, for runs that begin with a preload phase -/

theorem preloadFiles_step : ∀ (fs : List (String × Bool)) (w : W), Step w (preloadFiles fs w) := by
  intro fs
  induction fs with
  | nil => intro w; exact Step.refl w
  | cons x fs ih =>
    intro w
    obtain ⟨name, raises⟩ := x
    unfold preloadFiles
    split
    · exact Step.trans (emit_same w (.tPreload name)).step (Step.trans (raise_step _ name) (ih _))
    · exact Step.trans (emit_same w (.tPreload name)).step (ih _)

/-- preload_objects() keeps the invariant and logs one well-formed block (every `x err` directly followed by its
    report, no crash event, no cycle marker) -/
theorem preloadObjects_step (e : Bool) (files : List (String × Bool)) (w : W) : Step w (preloadObjects e files w) := by
  unfold preloadObjects
  split
  · exact Step.bracket (Step.trans (emit_same (pushCtx w) .tEpilog).step (raise_step _ "epilog"))
  · exact Step.trans (Step.bracket (emit_same (pushCtx w) .tEpilog).step) (Step.bracket (preloadFiles_step files _))

theorem preload_block (e : Bool) (files : List (String × Bool)) (w : W) (f : Fresh w) (ht : w.trace = []) :
    BlockOK (preloadObjects e files w).trace := by
  obtain ⟨es, he, hb⟩ := (preloadObjects_step e files w f.inv).2.tr
  rw [he, ht, List.append_nil]; exact hb

/-- **clause `crash`**, preload phase included -/
theorem judge_crash_clause_preload (S : Scripts) (w : W) (e : Bool) (files : List (String × Bool))
    (h : List (List Action)) (f : Fresh w) (ht : w.trace = []) :
    clauseCrash (events S (preloadObjects e files w) h) = [] := by
  obtain ⟨es, he, hb⟩ := runFull_trext S (preloadObjects e files w) h (preload_keeps_fresh e files w f)
  have hall := BlockC.append (preload_block e files w f ht).toC hb
  have : (events S (preloadObjects e files w) h).filter isCrash = [] := by
    unfold events
    rw [he, List.filter_eq_nil_iff]
    intro x hm
    have := hall.noCrash x (List.mem_reverse.mp hm)
    simp [this]
  unfold clauseCrash
  rw [this]; rfl

/-- **clause `report`**, preload phase included: an error while a file is preloaded (or in epilog()) is reported to
    the master like every other uncaught error -/
theorem judge_report_clause_preload (S : Scripts) (w : W) (e : Bool) (files : List (String × Bool))
    (h : List (List Action)) (f : Fresh w) (ht : w.trace = []) :
    clauseReport (events S (preloadObjects e files w) h) = [] := by
  obtain ⟨es, he, hb⟩ := runFull_trext S (preloadObjects e files w) h (preload_keeps_fresh e files w f)
  have hall := BlockC.append (preload_block e files w f ht).toC hb
  have : reportOk (events S (preloadObjects e files w) h) = true := by
    unfold events
    rw [he]; exact hall.report
  unfold clauseReport
  simp [this]

/-- **clause `liveness` (cycle markers)**, preload phase included -/
theorem judge_cycles_clause_preload (S : Scripts) (w : W) (e : Bool) (files : List (String × Bool))
    (h : List (List Action)) (f : Fresh w) (ht : w.trace = []) :
    clauseCycles (events S (preloadObjects e files w) h) = [] := by
  obtain ⟨es, m, he, _, hk⟩ := runFull_block S (preloadObjects e files w) h (preload_keeps_fresh e files w f)
  have hpre := markers_noCycle _ (preload_block e files w f ht).noCycle
  have : cyclesOk 1 (events S (preloadObjects e files w) h) = true := by
    unfold events
    apply cyclesOk_of_markers _ 1 m
    have hm : markers (es ++ (preloadObjects e files w).trace) = List.range' 1 m := by
      rw [markers_append, hpre, hk]; rfl
    rw [he]
    exact hm
  unfold clauseCycles
  simp [this]

end NV.C09
