/-
C09 — the per-cycle steps of backend() keep the invariant.
-/
import NV.C09.HookLemmas

namespace NV.C09

theorem mudlibConnect_cstep (S : Scripts) (w : W) : CStep w (mudlibConnect S w).1 := by
  unfold mudlibConnect
  simp only []
  split
  · show CStep w (popCtx (errorHandler (emit (pushCtx _) (.xErr _)) _))
    refine CStep.trans ?_ (Step.toC (Step.bracket (raise_step _ _)))
    exact Step.toC (Same.step ⟨rfl, rfl, rfl, rfl, rfl, rfl, rfl, rfl, rfl, by trx⟩)
  · exact Step.toC (Same.step ⟨rfl, rfl, rfl, rfl, rfl, rfl, rfl, rfl, rfl, by trx⟩)
  · split
    · exact Step.toC (Same.step ⟨rfl, rfl, rfl, rfl, rfl, rfl, rfl, rfl, rfl, by trx⟩)
    · rename_i id hid
      intro inv
      -- the state with the counters bumped and the event logged
      let w1 : W := { (emit { w with nConnect := w.nConnect + 1, masterRef := w.masterRef + 1 }
                          (.tConnect (w.nConnect + 1))) with nUser := w.nUser + 1, masterRef := w.masterRef + 1 - 1 }
      have s1 : Same w w1 := ⟨rfl, rfl, rfl, rfl, rfl, rfl, rfl, rfl, rfl, by trx⟩
      obtain ⟨inv1, _⟩ := s1.step inv
      have hid1 : w1.inter .master = some id := hid
      have hl1 := inv1.live .master id hid1
      have inv2 := setInter_none_step w1 .master inv1
      have hl2 : (findConn (setInter w1 .master none) id).isSome = true := hl1
      have inv3 := setInter_some_step (setInter w1 .master none) (.user (w.nUser + 1)) id hl2 (by
        intro o' ho'
        have ho'' : (if o' = Oid.master then none else w1.inter o') = some id := ho'
        split at ho''
        · simp at ho''
        · rename_i hne
          exact absurd (inv1.inj o' .master id ho'' hid1) hne) inv2
      obtain ⟨inv4, r4⟩ := mapConn_step _ id (bindTo (.user (w.nUser + 1))) (fun _ => rfl) (fun _ h => h) inv3
      refine ⟨inv4, ⟨?_, rfl, rfl, TrExt.one rfl rfl⟩⟩
      intro hs
      have := r4.toCRel.alloc
      exact this hs

theorem logonHook_step (rh : HookFn) (hrh : HookOK rh) (w : W) (u : Oid) : Step w (logonHook rh w u).1 := by
  unfold logonHook
  exact Step.bracket (Step.trans (Step.trans (emit_same _ _).step (addOut_step _ _ _)) (hrh _ _ _))

theorem afterConnect_cstep (S : Scripts) (rh : HookFn) (hrh : HookOK rh) (w : W) :
    CStep w (afterConnect S rh w).1 := by
  unfold afterConnect
  simp only []
  have h := mudlibConnect_cstep S w
  split
  · exact h
  · split
    · split
      · exact CStep.trans h (Step.toC (removeInteractive_step rh hrh _ _ _))
      · exact h
    · exact CStep.trans h (Step.toC (logonHook_step rh hrh _ _))

theorem acceptConn_cstep (S : Scripts) (rh : HookFn) (hrh : HookOK rh) (w : W) (client : Nat) :
    CStep w (acceptConn S rh w client).1 := by
  unfold acceptConn
  simp only []
  split
  · exact newInteractive_cstep w false client
  · exact CStep.trans (newInteractive_cstep w false client) (afterConnect_cstep S rh hrh _)

theorem initConsoleUser_cstep (S : Scripts) (rh : HookFn) (hrh : HookOK rh) (w : W)
    (h : (slots w).headD none = none) : CStep w (initConsoleUser S rh w).1 := by
  unfold initConsoleUser
  simp only []
  have hi := newInteractive_console_inter w 0 h
  split
  · rename_i hn; rw [hn] at hi; simp at hi
  · exact CStep.trans (newInteractive_cstep w true 0) (afterConnect_cstep S rh hrh _)

theorem snoopHook_step (rh : HookFn) (hrh : HookOK rh) (w : W) (id : Nat) : Step w (snoopHook rh w id) := by
  unfold snoopHook
  split
  · exact Step.refl w
  · split
    · exact Step.refl w
    · exact Step.bracket (Step.trans (emit_same _ _).step (hrh _ _ _))

theorem echoLoop_step (rh : HookFn) (hrh : HookOK rh) : ∀ (n : Nat) (w : W) (id : Nat) (ob : Oid),
    Step w (echoLoop rh n w id ob) := by
  intro n
  induction n with
  | zero => intro w id ob; exact Step.refl w
  | succ n ih =>
    intro w id ob
    unfold echoLoop
    simp only []
    have h1 : Step w (snoopHook rh (addOut w ob "|") id) := Step.trans (addOut_step _ _ _) (snoopHook_step rh hrh _ _)
    split
    · exact h1
    · exact Step.trans h1 (ih _ _ _)

theorem userData_step (rh : HookFn) (hrh : HookOK rh) (w : W) (id : Nat) (telnet : Bool) (text : String) :
    Step w (userData rh w id telnet text) := by
  unfold userData
  split
  · exact Step.refl w
  · rename_i c _
    simp only []
    split
    · have h1 := echoLoop_step rh hrh ((splitLines c.part text).1.filter (· ≠ "")).length w id c.ob
      split
      · exact h1
      · have h2 : Step w (mapConn (echoLoop rh ((splitLines c.part text).1.filter (· ≠ "")).length w id c.ob) id
            (bufferText ((splitLines c.part text).1.filter (· ≠ "")) (splitLines c.part text).2)) :=
          Step.trans h1 (mapConn_step _ id (bufferText _ _) (fun _ => rfl) (fun _ h => h))
        split
        · exact Step.trans h2 (snoopHook_step rh hrh _ _)
        · exact h2
    · exact mapConn_step w id (bufferText _ _) (fun _ => rfl) (fun _ h => h)

theorem ioEvent_cstep (S : Scripts) (rh : HookFn) (hrh : HookOK rh) (w : W) (e : IoEv)
    (hc : ∀ t, e = .console t → w.users.isSome = true) : CStep w (ioEvent S rh w e).1 := by
  cases e with
  | wakeup => exact CStep.refl w
  | accept client => exact acceptConn_cstep S rh hrh w client
  | data client text =>
    simp only [ioEvent]
    split
    · exact CStep.refl w
    · split
      · exact CStep.refl w
      · exact Step.toC (userData_step rh hrh _ _ _ _)
  | eof client =>
    simp only [ioEvent]
    split
    · exact CStep.refl w
    · split
      · exact CStep.refl w
      · exact Step.toC (removeInteractive_step rh hrh _ _ _)
  | hup client =>
    simp only [ioEvent]
    split
    · exact CStep.refl w
    · split
      · exact CStep.refl w
      · exact Step.toC (removeInteractive_step rh hrh _ _ _)
  | console text =>
    simp only [ioEvent]
    have hs := hc text rfl
    split
    · rename_i hn; rw [hn] at hs; simp at hs
    · rename_i l hl
      try simp only []
      have h1 : CStep w (if (l.headD none).isNone = true then initConsoleUser S rh w else (w, false)).1 := by
        split
        · rename_i hnone
          apply initConsoleUser_cstep S rh hrh w
          have : slots w = l := by unfold slots; rw [hl]; rfl
          rw [this]
          cases hh : l.headD none with
          | none => rfl
          | some c => rw [hh] at hnone; simp at hnone
        · exact CStep.refl w
      revert h1
      generalize (if (l.headD none).isNone = true then initConsoleUser S rh w else (w, false)) = r
      intro h1
      split
      · exact h1
      · split
        · exact h1
        · exact CStep.trans h1 (Step.toC (userData_step rh hrh _ _ _ _))

theorem processIoEvents_cstep (S : Scripts) (rh : HookFn) (hrh : HookOK rh) :
    ∀ (evs : List IoEv) (w : W), (∀ t, IoEv.console t ∈ evs → w.users.isSome = true) →
      CStep w (processIoEvents S rh evs w).1 := by
  intro evs
  induction evs with
  | nil => intro w _; exact CStep.refl w
  | cons e es ih =>
    intro w hc
    unfold processIoEvents
    have h1 := ioEvent_cstep S rh hrh w e (fun t ht => hc t (by rw [ht]; exact List.mem_cons_self))
    split
    · exact h1
    · intro inv
      obtain ⟨i1, r1⟩ := h1 inv
      have h2 := ih (ioEvent S rh w e).1 (fun t ht => r1.alloc (hc t (List.mem_cons_of_mem _ ht)))
      obtain ⟨i2, r2⟩ := h2 i1
      exact ⟨i2, r1.trans r2⟩

theorem processIo_cstep (S : Scripts) (rh : HookFn) (hrh : HookOK rh) (w : W) (evs : List IoEv)
    (hc : ∀ t, IoEv.console t ∈ evs → w.users.isSome = true) : CStep w (processIo S rh w evs).1 := by
  unfold processIo
  simp only []
  have h := processIoEvents_cstep S rh hrh evs w hc
  split
  · exact h
  · split <;> exact h

end NV.C09
