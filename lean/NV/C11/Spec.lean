/-
C11 — specification oracle.

Property: while an object has its heart beat enabled with interval n, its heart_beat function runs at most
once per timer tick and, in ticks that complete without error, exactly once every n ticks - whatever objects
enable, disable, are created or destructed during the tick, including from inside heart_beat functions.  An
object that disabled itself or was destructed is not called again, and an error in one heart_beat switches
off only that object's heart beat.

The oracle is a *reference semantics* written without any array index: the enabled objects are kept in
service order (the order in which they enabled their heart beat) in three lists

  done   served in the current round (outside a round: everything enabled before the last round ended)
  pend   enabled since before the current round began and not yet served in it
  late   enabled since the last round began: served from the next round on

A round serves `pend` front to back: the countdown of the object drops by one and, when it reaches zero,
the object beats and the countdown restarts at the interval.  Disabling / destructing removes the object
from whichever list holds it, enabling appends to `late`, an error in a heart_beat disables that object and
abandons the round, a timer signal during a heart_beat ends the round after that heart_beat.  Every event of
a trace is checked against what this semantics predicts (`expect`): a beat that is not the predicted one,
a missing beat, a wrong query_heart_beat()/heart_beats() answer are violations.
-/
import NV.Gen.C11

namespace NV.C11

/-- C: `SHRT_MAX` (regenerated from the source tree's headers on every run) -/
abbrev shrtMax : Int := (NV.Gen.C11.shrtMax : Nat)

/-- an enabled object: countdown to the next beat and interval (C: heart_beat_t) -/
structure Entry where
  ob : Nat
  ticks : Int
  interval : Int
  deriving Repr, DecidableEq

/-- observable events of a run (one canonical output line each) -/
inductive Ev where
  | tickBegin
  | tickEnd
  | tickAbort                                    -- the round was abandoned after an error
  | beat (o : Nat)                               -- heart_beat() of o entered
  | beatEnd (o : Nat)                            -- heart_beat() of o returned
  | shb (self target : Nat) (n q : Int)          -- target did set_heart_beat(n); q = query_heart_beat(target) after
  | shbDead (self target : Nat) (n : Int)        -- target does not exist (any more): nothing done
  | query (self target : Nat) (q : Int)
  | queryDead (self target : Nat)
  | dest (self target : Nat)                     -- destruct(target)
  | destNone (self target : Nat)                 -- target not destructible (gone, unknown or a blueprint)
  | clone (self new kind : Nat) (n q : Int)      -- new clone of blueprint `kind`; its create() did set_heart_beat(n)
  | cloneDup (self new : Nat)
  | into (item carrier : Nat)                    -- `item` was moved into the inventory of `carrier`
  | intoNone (item carrier : Nat)                -- ... refused
  | hookGone (item : Nat)                        -- ... returned; the item is gone already
  | destGone (self target : Nat)                 -- destruct(target) returned early: a hook left target destructed
  | hook (item carrier : Nat)                    -- destruct(carrier) in progress: move_or_destruct() of `item` entered
  | hookEnd (item : Nat)                         -- ... returned; the driver destructs the item now
  | err (o : Nat)                                -- uncaught error raised by o
  | topErr (o : Nat)                             -- the top-level operation of o ended with an error
  | topDead (o : Nat)
  | topNoObj (o : Nat)
  | flag (o : Nat)                               -- the timer fired while o was running
  | hbs (self : Nat) (l : List Nat)              -- heart_beats()
  | ctx (o : Nat) (lv : Bool) (tp : Option Nat) (full : Bool)
                                                 -- heart_beat() of o entered: living(o), this_player(), eval cost untouched
  | caught (o : Nat)                             -- o raised an error inside catch(): nothing is switched off
  | reload (self target : Nat) (n q : Int)       -- reload_object(target); its create() did set_heart_beat(n)
  | reloadNone (self target : Nat)               -- ... refused (gone, unknown or a blueprint)
  | living (o : Nat)                             -- o called enable_commands()
  | burn (o : Nat)                               -- o used up evaluation cost
  | tickOff                                      -- a timer tick while timer_flags has no TIMER_FLAG_HEARTBEAT: no round
  | tflags (n : Int)                             -- timer_flags set to n
  | rp (o : Nat)                                 -- o called replace_program() (takes effect at the top of the backend loop)
  | rpNone (o : Nat)                             -- ... not possible (a blueprint, or the program was replaced already)
  | rpDone (o : Nat)                             -- the backend loop swapped o's program for one without heart_beat()
  | cgAfter (v : Option Nat)                     -- command_giver after one pass of the backend loop
  | errR                                         -- destruct() of another object refused inside move_or_destruct(): an uncaught error
  | moved (item dest : Nat)                      -- `item` moved itself into `dest`
  | movedNone (item dest : Nat)                  -- ... refused
  | hookMoved (item : Nat)                       -- move_or_destruct() returned and the item is somewhere else: it survives
  | zshb (o : Nat) (n : Int)                     -- o called set_heart_beat(n) in itself - possibly after destruct(this_object())
  | coBegin (o : Nat)                            -- call_out callback of o entered (dispatched by call_heart_beat after the round)
  | coEnd (o : Nat)                              -- ... returned
  | passLimit                                    -- harness rule: no further timer tick is delivered inside this `tick`
  | junk (s : String)                            -- crash / sanitizer / unparsable line
  deriving Repr, DecidableEq

/-- what the next round-level event must be -/
inductive Expect where
  | idle                     -- between rounds
  | beat (o : Nat)           -- the next event is the heart beat of o
  | inBeat                   -- a heart_beat function is running
  | endOfRound               -- the next round-level event is tickEnd
  | abort                    -- an error was raised in a heart_beat: tickAbort must follow
  deriving Repr, DecidableEq

structure JState where
  done : List Entry := []
  pend : List Entry := []
  late : List Entry := []
  known : List Nat := [0, 1]          -- objects that exist or existed (0, 1 = the two blueprints)
  nofn : List Nat := [1]              -- objects whose program has no heart_beat function
  dead : List Nat := []
  inRound : Bool := false
  trunc : Bool := false               -- the timer fired during the current round
  cur : Option Nat := none            -- object whose heart_beat was entered last in this round
  expect : Expect := .idle
  bad : List String := []             -- violations, newest first

def JState.flagV (j : JState) (v : String) : JState := { j with bad := v :: j.bad }

def hasOb (x : Nat) (l : List Entry) : Bool := l.any (fun e => e.ob == x)

/-- remove the (first) entry of object x -/
def rmFirst (x : Nat) : List Entry → List Entry
  | [] => []
  | e :: r => if e.ob = x then r else e :: rmFirst x r

/-- restart the (first) entry of object x with interval t -/
def retune (x : Nat) (t : Int) : List Entry → List Entry
  | [] => []
  | e :: r => if e.ob = x then { ob := x, ticks := t, interval := t } :: r else e :: retune x t r

def lookup (x : Nat) : List Entry → Option Entry
  | [] => none
  | e :: r => if e.ob = x then some e else lookup x r

/-- C `(short)x` on the two's complement targets the driver supports -/
def wrap16 (x : Int) : Int := (x + 32768) % 65536 - 32768

/-- argument conversion of the efun: values outside [-1, SHRT_MAX] saturate -/
def satEfun (n : Int) : Int := if n > shrtMax then shrtMax else if n < -1 then -1 else n

def JState.all (j : JState) : List Entry := j.done ++ j.pend ++ j.late

def JState.alive (j : JState) (x : Nat) : Bool := j.known.contains x && !j.dead.contains x

def jDisable (j : JState) (x : Nat) : JState :=
  if hasOb x j.done then { j with done := rmFirst x j.done }
  else if hasOb x j.pend then { j with pend := rmFirst x j.pend }
  else { j with late := rmFirst x j.late }

def jDisableAlive (j : JState) (x : Nat) : JState :=
  if j.dead.contains x then j else jDisable j x

/-- set_heart_beat(n) executed by the live object x -/
def jSet (j : JState) (x : Nat) (n : Int) : JState :=
  let n1 := satEfun n
  if n1 = 0 then jDisable j x
  else if hasOb x j.all then
    if n1 < 0 then j
    else if hasOb x j.done then { j with done := retune x n1 j.done }
    else if hasOb x j.pend then { j with pend := retune x n1 j.pend }
    else { j with late := retune x n1 j.late }
  else
    let iv := if n1 < 0 then 1 else n1
    { j with late := j.late ++ [{ ob := x, ticks := iv, interval := iv }] }

def jQuery (j : JState) (x : Nat) : Int :=
  match lookup x j.all with
  | some e => e.interval
  | none => 0

/-- serve `pend` front to back until an object beats, the list is exhausted or the round is truncated.
    Result: (done, pend, object that beats now) -/
def advanceL (nofn : List Nat) (trunc : Bool) : List Entry → List Entry → List Entry × List Entry × Option Nat
  | done, [] => (done, [], none)
  | done, x :: rest =>
    let t := wrap16 (x.ticks - 1)
    if !nofn.contains x.ob && decide (t < 1) then (done ++ [{ x with ticks := x.interval }], rest, some x.ob)
    else if rest.isEmpty || trunc then (done ++ [{ x with ticks := t }], rest, none)
    else advanceL nofn trunc (done ++ [{ x with ticks := t }]) rest

def advance (j : JState) : JState :=
  match advanceL j.nofn j.trunc j.done j.pend with
  | (d, p, some o) => { j with done := d, pend := p, cur := some o, expect := .beat o }
  | (d, p, none) => { j with done := d, pend := p, expect := .endOfRound }

def endRound (j : JState) : JState :=
  { j with done := j.done ++ j.pend ++ j.late, pend := [], late := [], inRound := false, cur := none, expect := .idle }

def opAllowed (j : JState) : Bool := j.expect == .idle || j.expect == .inBeat

def showOid (o : Nat) : String := s!"o{o}"

/-- this_player() inside heart_beat() of o: o itself when it is living (enable_commands), otherwise 0 -/
def ctxGiver (o : Nat) (lv : Bool) : Option Nat := if lv then some o else none

/-- one event -/
def judge1 (j : JState) (e : Ev) : JState :=
  match e with
  | .tickBegin =>
    if j.expect != .idle then j.flagV "tick-inside-round"
    else advance { j with done := [], pend := j.done ++ j.pend ++ j.late, late := [], inRound := true, trunc := false }
  | .tickEnd =>
    if j.expect == .endOfRound then endRound j
    else
      match j.expect with
      | .beat o => (endRound j).flagV s!"missed-beat {showOid o} round ended without the heart beat that was due"
      | _ => (endRound j).flagV "round-end-unexpected"
  | .tickAbort =>
    if j.expect == .abort then endRound j else (endRound j).flagV "round-aborted-without-error"
  | .beat o =>
    if j.expect == .beat o then { j with expect := .inBeat }
    else
      let why :=
        if !j.inRound then "outside-a-round"
        else if !j.alive o then "destructed-object"
        else if !hasOb o j.all then "heart-beat-not-enabled"
        else if hasOb o j.late then "enabled-during-this-round"
        else if hasOb o j.done then "already-served-this-tick"
        else match j.expect with
          | .beat p => s!"not-due-or-out-of-turn expected={showOid p}"
          | .endOfRound => "not-due"
          | _ => "inside-another-heart-beat"
      { j with expect := .inBeat, cur := some o }.flagV s!"unexpected-beat {showOid o} {why}"
  | .beatEnd o =>
    if j.expect == .inBeat then
      if j.trunc then { j with expect := .endOfRound } else advance j
    else j.flagV s!"unexpected-beatend {showOid o}"
  | .shb _ t n q =>
    if !opAllowed j then j.flagV s!"operation-outside-beat shb {showOid t}"
    else if !j.alive t then j.flagV s!"set_heart_beat-on-destructed {showOid t}"
    else
      let j' := jSet j t n
      if q == jQuery j' t then j'
      else j'.flagV s!"interval-wrong {showOid t} set_heart_beat({n}) then query_heart_beat={q} want={jQuery j' t}"
  | .shbDead _ t _ =>
    if j.alive t then j.flagV s!"set_heart_beat-refused {showOid t}" else j
  | .query _ t q =>
    if !j.alive t then j.flagV s!"query-on-destructed {showOid t}"
    else if q == jQuery j t then j
    else j.flagV s!"query-wrong {showOid t} query_heart_beat={q} want={jQuery j t}"
  | .queryDead _ t =>
    if j.alive t then j.flagV s!"query-refused {showOid t}" else j
  | .dest _ t =>
    if !opAllowed j then j.flagV s!"operation-outside-beat dest {showOid t}"
    else if !j.alive t || t < 2 then j.flagV s!"destruct-of-missing-object {showOid t}"
    else { jDisable j t with dead := t :: j.dead }
  | .destNone _ t =>
    if j.alive t && !(t < 2) then j.flagV s!"destruct-refused {showOid t}" else j
  | .clone _ new kind n q =>
    if !opAllowed j then j.flagV s!"operation-outside-beat clone {showOid new}"
    else if j.known.contains new then j.flagV s!"clone-duplicate {showOid new}"
    else
      -- cloning switches off the heart beat of the blueprint (driver rule, src/simulate.c clone_object)
      let j1 := jDisableAlive j (if kind = 0 then 0 else 1)
      let j2 := { j1 with known := new :: j1.known, nofn := if kind = 0 then j1.nofn else new :: j1.nofn }
      let j3 := jSet j2 new n
      if q == jQuery j3 new then j3
      else j3.flagV s!"interval-wrong {showOid new} clone set_heart_beat({n}) then query_heart_beat={q} want={jQuery j3 new}"
  | .cloneDup _ new =>
    if j.known.contains new then j else j.flagV s!"clone-refused {showOid new}"
  | .into _ _ => j
  | .intoNone _ _ => j
  | .destGone _ t => if j.alive t then j.flagV s!"destruct-incomplete {showOid t}" else j
  | .hookGone i => if j.alive i then j.flagV s!"item-not-destructed {showOid i}" else j
  | .hook i _ =>
    if !opAllowed j then j.flagV s!"operation-outside-beat hook {showOid i}" else j
  | .hookEnd i =>
    -- the item did not move away in its move_or_destruct(): the driver destructs it
    if !opAllowed j then j.flagV s!"operation-outside-beat hookend {showOid i}"
    else if !j.alive i then j.flagV s!"destruct-of-missing-object {showOid i}"
    else { jDisable j i with dead := i :: j.dead }
  | .err _ =>
    -- an uncaught error switches off the heart beat of the object whose heart_beat is running - and only that
    let j1 := match j.cur with
      | some c => { jDisableAlive j c with cur := none }
      | none => j
    if j1.inRound then { j1 with expect := .abort } else j1
  | .topErr _ => j
  | .topDead o => if j.dead.contains o then j else j.flagV s!"live-object-reported-destructed {showOid o}"
  | .topNoObj o => if j.known.contains o then j.flagV s!"known-object-reported-missing {showOid o}" else j
  | .flag _ => { j with trunc := true }
  | .hbs _ l =>
    if l == (j.all.map (·.ob)).reverse then j
    else j.flagV s!"heart_beats-wrong got={l.map showOid} want={(j.all.map (·.ob)).reverse.map showOid}"
  | .ctx o lv tp full =>
    -- faults stay local: every heart_beat starts from a clean context, whatever ran before it
    if j.expect != .inBeat || j.cur != some o then j.flagV s!"context-outside-heart-beat {showOid o}"
    else if tp != ctxGiver o lv then
      j.flagV s!"command-giver-wrong {showOid o} this_player={match tp with | some p => showOid p | none => "0"} living={lv}"
    else if !full then j.flagV s!"eval-cost-not-reset {showOid o}"
    else j
  | .caught _ => j
  | .reload _ t n q =>
    if !opAllowed j then j.flagV s!"operation-outside-beat reload {showOid t}"
    else if !j.alive t || t < 2 then j.flagV s!"reload-of-missing-object {showOid t}"
    else
      -- reload_object switches the heart beat off, then create() runs again
      let j' := jSet (jDisable j t) t n
      if q == jQuery j' t then j'
      else j'.flagV s!"interval-wrong {showOid t} reload set_heart_beat({n}) then query_heart_beat={q} want={jQuery j' t}"
  | .reloadNone _ t =>
    if j.alive t && !(t < 2) then j.flagV s!"reload-refused {showOid t}" else j
  | .living _ => j
  | .burn _ => j
  | .tickOff =>
    if j.expect != .idle then j.flagV "tick-inside-round" else { j with expect := .endOfRound, trunc := false }
  | .tflags _ => j
  | .rp _ => j
  | .rpNone _ => j
  | .rpDone o =>
    -- programs are swapped between rounds only; from now on the object has no heart_beat function: it stays on the
    -- list, is counted down, and is never called
    if j.expect != .idle then j.flagV s!"program-replaced-inside-round {showOid o}" else { j with nofn := o :: j.nofn }
  | .errR =>
    let j1 := match j.cur with
      | some c => { jDisableAlive j c with cur := none }
      | none => j
    if j1.inRound then { j1 with expect := .abort } else j1
  | .moved _ _ => j
  | .movedNone _ _ => j
  | .hookMoved i => if j.alive i then j else j.flagV s!"moved-item-is-gone {showOid i}"
  -- a call_out callback is ordinary code outside every heart_beat: whatever it does - an uncaught error included - is
  -- judged by the clauses of the operations it performs; in particular `.err` switches off nobody here (`cur` is none)
  | .zshb s n =>
    -- a destructed object is never (again) on the list: its own set_heart_beat is refused, whatever the argument
    if !opAllowed j then j.flagV s!"operation-outside-beat zshb {showOid s}"
    else if !j.alive s then j
    else jSet j s n
  | .coBegin _ => j
  | .coEnd _ => j
  | .passLimit =>
    if j.expect != .idle then j.flagV "pass-limit-inside-round" else { j with trunc := false }
  | .cgAfter v =>
    -- "the caller resets it to 0 anyway": no heart_beat object stays behind as command_giver, whether the round
    -- completed (cleared after every call) or was abandoned (restore_context)
    match v with
    | none => j
    | some o => j.flagV s!"command-giver-left-behind {showOid o}"
  | .junk s => j.flagV s

/-- violations found on a trace, oldest first; `[]` = the property held on this trace -/
def judgeEv (tr : List Ev) : List String :=
  (tr.foldl judge1 {}).bad.reverse

end NV.C11
