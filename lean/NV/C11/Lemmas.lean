/-
C11 — helper lemmas: list facts relating the index-based operations of the model (idxOf / eraseIdx / set)
to the index-free operations of the specification (rmFirst / retune / lookup over done ++ pend ++ late).
-/
import NV.C11.Model

namespace NV.C11

theorem hasOb_nil (x : Nat) : hasOb x [] = false := rfl

theorem hasOb_cons (x : Nat) (e : Entry) (r : List Entry) : hasOb x (e :: r) = (e.ob == x || hasOb x r) := by
  simp [hasOb]

theorem hasOb_append (x : Nat) (a b : List Entry) : hasOb x (a ++ b) = (hasOb x a || hasOb x b) := by
  simp [hasOb]

theorem idxOf_none_of_not_has {x : Nat} {l : List Entry} (h : hasOb x l = false) : idxOf x l = none := by
  induction l with
  | nil => rfl
  | cons e r ih =>
    simp [hasOb_cons] at h
    simp [idxOf, h.1, ih h.2]

theorem idxOf_some_of_has {x : Nat} {l : List Entry} (h : hasOb x l = true) : ∃ i, idxOf x l = some i ∧ i < l.length := by
  induction l with
  | nil => simp [hasOb] at h
  | cons e r ih =>
    by_cases he : e.ob = x
    · exact ⟨0, by simp [idxOf, he], by simp⟩
    · simp [hasOb_cons, he] at h
      obtain ⟨i, hi, hl⟩ := ih h
      exact ⟨i + 1, by simp [idxOf, he, hi], by simp; omega⟩

theorem has_of_idxOf {x : Nat} {l : List Entry} {i : Nat} (h : idxOf x l = some i) : hasOb x l = true := by
  cases hh : hasOb x l with
  | true => rfl
  | false => rw [idxOf_none_of_not_has hh] at h; cases h

theorem idxOf_lt {x : Nat} {l : List Entry} {i : Nat} (h : idxOf x l = some i) : i < l.length := by
  obtain ⟨k, hk, hl⟩ := idxOf_some_of_has (has_of_idxOf h)
  rw [hk] at h; cases h; exact hl

theorem eraseIdx_idxOf {x : Nat} {l : List Entry} {i : Nat} (h : idxOf x l = some i) : l.eraseIdx i = rmFirst x l := by
  induction l generalizing i with
  | nil => simp [idxOf] at h
  | cons e r ih =>
    by_cases he : e.ob = x
    · simp [idxOf, he] at h; subst h; simp [rmFirst, he]
    · simp [idxOf, he] at h
      obtain ⟨k, hk, rfl⟩ := h
      simp [rmFirst, he, ih hk]

theorem set_idxOf {x : Nat} {l : List Entry} {i : Nat} (t : Int) (h : idxOf x l = some i) :
    l.set i { ob := x, ticks := t, interval := t } = retune x t l := by
  induction l generalizing i with
  | nil => simp [idxOf] at h
  | cons e r ih =>
    by_cases he : e.ob = x
    · simp [idxOf, he] at h; subst h; simp [retune, he]
    · simp [idxOf, he] at h
      obtain ⟨k, hk, rfl⟩ := h
      simp [retune, he, ih hk]

theorem idxOf_append_left {x : Nat} {a b : List Entry} (h : hasOb x a = true) : idxOf x (a ++ b) = idxOf x a := by
  induction a with
  | nil => simp [hasOb] at h
  | cons e r ih =>
    by_cases he : e.ob = x
    · simp [idxOf, he]
    · simp [hasOb_cons, he] at h
      simp [idxOf, he, ih h]

theorem idxOf_append_right {x : Nat} {a b : List Entry} (h : hasOb x a = false) :
    idxOf x (a ++ b) = (idxOf x b).map (· + a.length) := by
  induction a with
  | nil => simp
  | cons e r ih =>
    simp [hasOb_cons] at h
    simp [idxOf, h.1, ih h.2, Option.map_map, Function.comp_def, Nat.add_assoc]

theorem rmFirst_of_not_has {x : Nat} {l : List Entry} (h : hasOb x l = false) : rmFirst x l = l := by
  induction l with
  | nil => rfl
  | cons e r ih =>
    simp [hasOb_cons] at h
    simp [rmFirst, h.1, ih h.2]

theorem rmFirst_append_left {x : Nat} {a b : List Entry} (h : hasOb x a = true) :
    rmFirst x (a ++ b) = rmFirst x a ++ b := by
  induction a with
  | nil => simp [hasOb] at h
  | cons e r ih =>
    by_cases he : e.ob = x
    · simp [rmFirst, he]
    · simp [hasOb_cons, he] at h
      simp [rmFirst, he, ih h]

theorem rmFirst_append_right {x : Nat} {a b : List Entry} (h : hasOb x a = false) :
    rmFirst x (a ++ b) = a ++ rmFirst x b := by
  induction a with
  | nil => simp
  | cons e r ih =>
    simp [hasOb_cons] at h
    simp [rmFirst, h.1, ih h.2]

theorem rmFirst_length {x : Nat} {l : List Entry} (h : hasOb x l = true) : (rmFirst x l).length + 1 = l.length := by
  induction l with
  | nil => simp [hasOb] at h
  | cons e r ih =>
    by_cases he : e.ob = x
    · simp [rmFirst, he]
    · simp [hasOb_cons, he] at h
      simp [rmFirst, he, ih h]

theorem rmFirst_length_le (x : Nat) (l : List Entry) : (rmFirst x l).length ≤ l.length := by
  cases h : hasOb x l with
  | true => have := rmFirst_length h; omega
  | false => rw [rmFirst_of_not_has h]; exact Nat.le_refl _

theorem retune_append_left {x : Nat} {a b : List Entry} (t : Int) (h : hasOb x a = true) :
    retune x t (a ++ b) = retune x t a ++ b := by
  induction a with
  | nil => simp [hasOb] at h
  | cons e r ih =>
    by_cases he : e.ob = x
    · simp [retune, he]
    · simp [hasOb_cons, he] at h
      simp [retune, he, ih h]

theorem retune_append_right {x : Nat} {a b : List Entry} (t : Int) (h : hasOb x a = false) :
    retune x t (a ++ b) = a ++ retune x t b := by
  induction a with
  | nil => simp
  | cons e r ih =>
    simp [hasOb_cons] at h
    simp [retune, h.1, ih h.2]

theorem retune_length (x : Nat) (t : Int) (l : List Entry) : (retune x t l).length = l.length := by
  induction l with
  | nil => rfl
  | cons e r ih =>
    by_cases he : e.ob = x
    · simp [retune, he]
    · simp [retune, he, ih]

theorem set_mid (d : List Entry) (x y : Entry) (r : List Entry) :
    (d ++ x :: r).set d.length y = d ++ y :: r := by
  induction d with
  | nil => simp
  | cons e d ih => simp [ih]

theorem get_mid (d : List Entry) (x : Entry) (r : List Entry) : (d ++ x :: r)[d.length]? = some x := by
  induction d with
  | nil => simp
  | cons e d ih => simp [ih]

/-- `(short)` is the identity on what the clamp (fix: C11) lets through -/
theorem wrap16_id {x : Int} (h0 : -32768 ≤ x) (h1 : x ≤ shrtMax) : wrap16 x = x := by
  have : shrtMax = 32767 := by decide
  unfold wrap16
  omega

theorem satEfun_range (n : Int) : -1 ≤ satEfun n ∧ satEfun n ≤ shrtMax := by
  have : shrtMax = 32767 := by decide
  unfold satEfun
  split
  · omega
  · split <;> omega

end NV.C11
