/-
C11 — the simulation: every step of the index-based model is matched by the index-free reference semantics
of the specification oracle, which therefore never reports a violation on a model trace.
-/
import NV.C11.Lemmas

namespace NV.C11

/-- state correspondence that holds at every event boundary -/
structure R0 (w : World) (j : JState) : Prop where
  hbs : w.hbs = j.done ++ j.pend ++ j.late
  known : w.known = j.known
  nofn : w.nofn = j.nofn
  dead : w.dead = j.dead
  flag : w.flag = j.trunc
  cur : w.cur = j.cur
  ok : w.crashed = false
  cap : w.hbs.length ≤ w.cap
  sub : ∀ x, w.dead.contains x = true → w.known.contains x = true

/-- cursor correspondence while a heart_beat function runs: heart_beat_index is the last served entry -/
def Pos (w : World) (j : JState) : Prop :=
  w.idx + 1 = (j.done.length : Int) ∧ w.todo = (j.done.length : Int) + (j.pend.length : Int)

def RP (w : World) (j : JState) : Prop := R0 w j ∧ (j.inRound = true → Pos w j)

/-- what operations leave untouched in the oracle state -/
structure Frame (j j' : JState) : Prop where
  bad : j'.bad = j.bad
  inRound : j'.inRound = j.inRound
  expect : j'.expect = j.expect
  pend : j'.pend.length ≤ j.pend.length

theorem Frame.refl (j : JState) : Frame j j := ⟨rfl, rfl, rfl, Nat.le_refl _⟩

theorem Frame.trans {a b c : JState} (h1 : Frame a b) (h2 : Frame b c) : Frame a c :=
  ⟨h2.bad.trans h1.bad, h2.inRound.trans h1.inRound, h2.expect.trans h1.expect, Nat.le_trans h2.pend h1.pend⟩

theorem jDisable_frame (j : JState) (x : Nat) : Frame j (jDisable j x) := by
  unfold jDisable
  split
  · exact ⟨rfl, rfl, rfl, Nat.le_refl _⟩
  · split
    · exact ⟨rfl, rfl, rfl, rmFirst_length_le _ _⟩
    · exact ⟨rfl, rfl, rfl, Nat.le_refl _⟩

theorem jDisable_fields (j : JState) (x : Nat) :
    (jDisable j x).known = j.known ∧ (jDisable j x).nofn = j.nofn ∧ (jDisable j x).dead = j.dead ∧
    (jDisable j x).trunc = j.trunc ∧ (jDisable j x).cur = j.cur := by
  unfold jDisable
  split
  · simp
  · split <;> simp

/-- removal: the compensation of heart_beat_index / num_hb_to_do is exactly "remove it from whichever of
    done / pend / late holds it" -/
theorem sim_disable {w : World} {j : JState} (h : RP w j) (x : Nat) (hx : w.dead.contains x = false) :
    RP (setHeartBeat w x 0) (jDisable j x) := by
  obtain ⟨h0, hp⟩ := h
  have hsm : ¬ ((0 : Int) > shrtMax) := by decide
  have hfr := jDisable_frame j x
  have hfl := jDisable_fields j x
  unfold setHeartBeat
  simp only [hx, hsm, if_false, Bool.false_eq_true, if_true]
  cases hi : idxOf x w.hbs with
  | none =>
    have hn : hasOb x w.hbs = false := by
      cases hh : hasOb x w.hbs with
      | false => rfl
      | true => obtain ⟨i, hi', _⟩ := idxOf_some_of_has hh; rw [hi] at hi'; cases hi'
    rw [h0.hbs, hasOb_append, hasOb_append] at hn
    simp only [Bool.or_eq_false_iff] at hn
    have hj : jDisable j x = j := by
      unfold jDisable
      simp [hn.1.1, hn.1.2, rmFirst_of_not_has hn.2]
    rw [hj]
    exact ⟨h0, hp⟩
  | some i =>
    have hlt := idxOf_lt hi
    have her := eraseIdx_idxOf hi
    simp only
    by_cases hd : hasOb x j.done = true
    · -- the entry was already served in this round
      have hjd : jDisable j x = { j with done := rmFirst x j.done } := by unfold jDisable; simp [hd]
      have hi2 : idxOf x j.done = some i := by
        rw [h0.hbs, List.append_assoc, idxOf_append_left hd] at hi; exact hi
      have hil := idxOf_lt hi2
      have hlen := rmFirst_length hd
      refine ⟨⟨?_, ?_, ?_, ?_, ?_, ?_, ?_, ?_, ?_⟩, ?_⟩
      · rw [hjd]; split <;> simp only [her] <;> rw [h0.hbs, List.append_assoc, rmFirst_append_left hd, List.append_assoc]
      · split <;> simp [hfl, h0.known]
      · split <;> simp [hfl, h0.nofn]
      · split <;> simp [hfl, h0.dead]
      · split <;> simp [hfl, h0.flag]
      · split <;> simp [hfl, h0.cur]
      · split <;> simp [h0.ok]
      · have := h0.cap
        have hle : (w.hbs.eraseIdx i).length ≤ w.hbs.length := by
          rw [List.length_eraseIdx]; split <;> omega
        split <;> (simp only; omega)
      · split <;> exact h0.sub
      · intro hr
        rw [hfr.inRound] at hr
        obtain ⟨p1, p2⟩ := hp hr
        rw [hjd]
        have htodo : w.todo ≠ 0 := by omega
        simp only [htodo, ne_eq, not_false_eq_true, if_true]
        unfold Pos
        simp only
        constructor
        · split <;> omega
        · split <;> omega
    · simp only [Bool.not_eq_true] at hd
      by_cases hpd : hasOb x j.pend = true
      · -- still to be served in this round
        have hjd : jDisable j x = { j with pend := rmFirst x j.pend } := by unfold jDisable; simp [hd, hpd]
        have hi2 : ∃ k, idxOf x j.pend = some k ∧ i = k + j.done.length := by
          rw [h0.hbs, List.append_assoc, idxOf_append_right hd, idxOf_append_left hpd] at hi
          cases hk : idxOf x j.pend with
          | none => rw [hk] at hi; simp at hi
          | some k => rw [hk] at hi; simp at hi; exact ⟨k, rfl, hi.symm⟩
        obtain ⟨k, hk, hik⟩ := hi2
        have hkl := idxOf_lt hk
        have hlen := rmFirst_length hpd
        refine ⟨⟨?_, ?_, ?_, ?_, ?_, ?_, ?_, ?_, ?_⟩, ?_⟩
        · rw [hjd]; split <;> simp only [her] <;>
            rw [h0.hbs, List.append_assoc, rmFirst_append_right hd, rmFirst_append_left hpd, List.append_assoc]
        · split <;> simp [hfl, h0.known]
        · split <;> simp [hfl, h0.nofn]
        · split <;> simp [hfl, h0.dead]
        · split <;> simp [hfl, h0.flag]
        · split <;> simp [hfl, h0.cur]
        · split <;> simp [h0.ok]
        · have := h0.cap
          have hle : (w.hbs.eraseIdx i).length ≤ w.hbs.length := by
            rw [List.length_eraseIdx]; split <;> omega
          split <;> (simp only; omega)
        · split <;> exact h0.sub
        · intro hr
          rw [hfr.inRound] at hr
          obtain ⟨p1, p2⟩ := hp hr
          rw [hjd]
          have htodo : w.todo ≠ 0 := by omega
          simp only [htodo, ne_eq, not_false_eq_true, if_true]
          unfold Pos
          simp only
          constructor
          · split <;> omega
          · split <;> omega
      · -- enabled during this round (or between rounds): the cursor is not affected
        simp only [Bool.not_eq_true] at hpd
        have hjd : jDisable j x = { j with late := rmFirst x j.late } := by unfold jDisable; simp [hd, hpd]
        have hi2 : ∃ k, idxOf x j.late = some k ∧ i = k + j.pend.length + j.done.length := by
          rw [h0.hbs, List.append_assoc, idxOf_append_right hd, idxOf_append_right hpd] at hi
          cases hk : idxOf x j.late with
          | none => rw [hk] at hi; simp at hi
          | some k => rw [hk] at hi; simp at hi; exact ⟨k, rfl, hi.symm⟩
        obtain ⟨k, hk, hik⟩ := hi2
        refine ⟨⟨?_, ?_, ?_, ?_, ?_, ?_, ?_, ?_, ?_⟩, ?_⟩
        · rw [hjd]; split <;> simp only [her] <;>
            rw [h0.hbs, List.append_assoc, rmFirst_append_right hd, rmFirst_append_right hpd, List.append_assoc]
        · split <;> simp [hfl, h0.known]
        · split <;> simp [hfl, h0.nofn]
        · split <;> simp [hfl, h0.dead]
        · split <;> simp [hfl, h0.flag]
        · split <;> simp [hfl, h0.cur]
        · split <;> simp [h0.ok]
        · have := h0.cap
          have hle : (w.hbs.eraseIdx i).length ≤ w.hbs.length := by
            rw [List.length_eraseIdx]; split <;> omega
          split <;> (simp only; omega)
        · split <;> exact h0.sub
        · intro hr
          rw [hfr.inRound] at hr
          obtain ⟨p1, p2⟩ := hp hr
          rw [hjd]
          unfold Pos
          simp only
          split
          · have h1 : ¬ ((i : Int) ≤ w.idx) := by omega
            have h2 : ¬ ((i : Int) < w.todo) := by omega
            simp only [h1, h2, if_false]
            exact ⟨p1, p2⟩
          · exact ⟨p1, p2⟩

theorem jSet_frame (j : JState) (x : Nat) (n : Int) : Frame j (jSet j x n) := by
  unfold jSet
  simp only
  split
  · exact jDisable_frame j x
  · split
    · split
      · exact Frame.refl j
      · split
        · exact ⟨rfl, rfl, rfl, Nat.le_refl _⟩
        · split
          · exact ⟨rfl, rfl, rfl, by simp [retune_length]⟩
          · exact ⟨rfl, rfl, rfl, Nat.le_refl _⟩
    · exact ⟨rfl, rfl, rfl, Nat.le_refl _⟩

/-- enabling / retuning: append goes to `late`, retune rewrites the entry where it is; the `(short)` cast is the
    identity on the clamped argument -/
theorem sim_set {w : World} {j : JState} (h : RP w j) (x : Nat) (n : Int) (hx : w.dead.contains x = false) :
    RP (setHeartBeat w x (satEfun n)) (jSet j x n) := by
  have hr := satEfun_range n
  have hsmv : shrtMax = 32767 := by decide
  by_cases hz : satEfun n = 0
  · have : jSet j x n = jDisable j x := by unfold jSet; simp [hz]
    rw [this, hz]
    exact sim_disable h x hx
  · obtain ⟨h0, hp⟩ := h
    have hfr := jSet_frame j x n
    have hgt : ¬ (satEfun n > shrtMax) := by omega
    have hall : hasOb x w.hbs = hasOb x j.all := by rw [h0.hbs]; rfl
    unfold setHeartBeat
    simp only [hx, hgt, hz, if_false, Bool.false_eq_true]
    unfold jSet
    simp only [hz, if_false]
    rw [← hall]
    by_cases hon : hasOb x w.hbs = true
    · simp only [hon, if_true]
      by_cases hneg : satEfun n < 0
      · simp only [hneg, if_true]
        exact ⟨h0, hp⟩
      · simp only [hneg, if_false]
        obtain ⟨i, hi, _⟩ := idxOf_some_of_has hon
        have hw : wrap16 (satEfun n) = satEfun n := wrap16_id (by omega) hr.2
        simp only [hi, hw]
        rw [set_idxOf _ hi]
        by_cases hd : hasOb x j.done = true
        · simp only [hd, if_true]
          refine ⟨⟨?_, h0.known, h0.nofn, h0.dead, h0.flag, h0.cur, h0.ok, ?_, h0.sub⟩, ?_⟩
          · simp only; rw [h0.hbs, List.append_assoc, retune_append_left _ hd, List.append_assoc]
          · simp only [retune_length]; exact h0.cap
          · intro hr'; have := hp hr'; unfold Pos at *; simp only [retune_length]; exact this
        · simp only [Bool.not_eq_true] at hd
          simp only [hd, Bool.false_eq_true, if_false]
          by_cases hpd : hasOb x j.pend = true
          · simp only [hpd, if_true]
            refine ⟨⟨?_, h0.known, h0.nofn, h0.dead, h0.flag, h0.cur, h0.ok, ?_, h0.sub⟩, ?_⟩
            · simp only
              rw [h0.hbs, List.append_assoc, retune_append_right _ hd, retune_append_left _ hpd, List.append_assoc]
            · simp only [retune_length]; exact h0.cap
            · intro hr'; have := hp hr'; unfold Pos at *; simp only [retune_length]; exact this
          · simp only [Bool.not_eq_true] at hpd
            simp only [hpd, Bool.false_eq_true, if_false]
            refine ⟨⟨?_, h0.known, h0.nofn, h0.dead, h0.flag, h0.cur, h0.ok, ?_, h0.sub⟩, ?_⟩
            · simp only
              rw [h0.hbs, List.append_assoc, retune_append_right _ hd, retune_append_right _ hpd, List.append_assoc]
            · simp only [retune_length]; exact h0.cap
            · intro hr'; exact hp hr'
    · simp only [Bool.not_eq_true] at hon
      simp only [hon, Bool.false_eq_true, if_false]
      have hcap := h0.cap
      have hch : chunk = 32 := by decide
      have hlt : w.hbs.length < (if w.cap = 0 then chunk else if w.hbs.length = w.cap then w.cap + chunk else w.cap) := by
        split
        · omega
        · split <;> omega
      simp only [hlt, if_true]
      have hw : wrap16 (if satEfun n < 0 then 1 else satEfun n) = (if satEfun n < 0 then 1 else satEfun n) := by
        apply wrap16_id <;> split <;> omega
      simp only [hw]
      refine ⟨⟨?_, h0.known, h0.nofn, h0.dead, h0.flag, h0.cur, h0.ok, ?_, h0.sub⟩, ?_⟩
      · simp only; rw [h0.hbs]; simp [List.append_assoc]
      · simp only [List.length_append, List.length_cons, List.length_nil]; omega
      · intro hr'; exact hp hr'

theorem jDisableAlive_frame (j : JState) (x : Nat) : Frame j (jDisableAlive j x) := by
  unfold jDisableAlive
  split
  · exact Frame.refl j
  · exact jDisable_frame j x

theorem jDisableAlive_known (j : JState) (x : Nat) : (jDisableAlive j x).known = j.known := by
  unfold jDisableAlive
  split
  · rfl
  · exact (jDisable_fields j x).1

theorem sim_disableAlive {w : World} {j : JState} (h : RP w j) (x : Nat) :
    RP (setHeartBeat w x 0) (jDisableAlive j x) := by
  cases hd : w.dead.contains x with
  | false =>
    have : jDisableAlive j x = jDisable j x := by unfold jDisableAlive; rw [← h.1.dead, hd]; simp
    rw [this]; exact sim_disable h x hd
  | true =>
    have h1 : setHeartBeat w x 0 = w := by unfold setHeartBeat; rw [if_pos hd]
    have h2 : jDisableAlive j x = j := by unfold jDisableAlive; rw [← h.1.dead, hd]; simp
    rw [h1, h2]; exact h

theorem alive_eq {w : World} {j : JState} (h : R0 w j) (x : Nat) : w.alive x = j.alive x := by
  unfold World.alive JState.alive; rw [h.known, h.dead]

theorem alive_not_dead {w : World} {x : Nat} (h : w.alive x = true) : w.dead.contains x = false := by
  unfold World.alive at h
  simp only [Bool.and_eq_true, Bool.not_eq_true'] at h
  exact h.2

theorem query_eq {w : World} {j : JState} (h : R0 w j) (x : Nat) : queryHeartBeat w x = jQuery j x := by
  unfold queryHeartBeat jQuery JState.all; rw [h.hbs]
  cases lookup x (j.done ++ j.pend ++ j.late) <;> rfl

/-- oracle state after an uncaught error, before the round is declared abandoned -/
def jErr1 (j : JState) : JState :=
  match j.cur with
  | some c => { jDisableAlive j c with cur := none }
  | none => j

def jErr (j : JState) : JState :=
  if (jErr1 j).inRound then { jErr1 j with expect := .abort } else jErr1 j

theorem judge1_err (j : JState) (o : Nat) : judge1 j (.err o) = jErr j := rfl

theorem sim_err1 {w : World} {j : JState} (h : RP w j) :
    R0 (errorHandler w) (jErr1 j) ∧ Frame j (jErr1 j) := by
  cases hc : w.cur with
  | none =>
    have hjc : j.cur = none := by rw [← h.1.cur, hc]
    have e1 : errorHandler w = w := by unfold errorHandler; rw [hc]
    have e2 : jErr1 j = j := by unfold jErr1; rw [hjc]
    rw [e1, e2]; exact ⟨h.1, Frame.refl j⟩
  | some c =>
    have hjc : j.cur = some c := by rw [← h.1.cur, hc]
    have e1 : errorHandler w = { setHeartBeat w c 0 with cur := none } := by unfold errorHandler; rw [hc]
    have e2 : jErr1 j = { jDisableAlive j c with cur := none } := by unfold jErr1; rw [hjc]
    have h0 := (sim_disableAlive h c).1
    have hf := jDisableAlive_frame j c
    rw [e1, e2]
    exact ⟨⟨h0.hbs, h0.known, h0.nofn, h0.dead, h0.flag, rfl, h0.ok, h0.cap, h0.sub⟩, ⟨hf.bad, hf.inRound, hf.expect, hf.pend⟩⟩

/-- error_handler: exactly the running object's heart beat is switched off -/
theorem sim_err {w : World} {j : JState} (h : RP w j) :
    R0 (errorHandler w) (jErr j) ∧ (jErr j).bad = j.bad ∧ (jErr j).inRound = j.inRound ∧
    (jErr j).expect = (if j.inRound then .abort else j.expect) := by
  obtain ⟨h0, hf⟩ := sim_err1 h
  cases hr : j.inRound with
  | true =>
    have hr1 : (jErr1 j).inRound = true := by rw [hf.inRound, hr]
    have e : jErr j = { jErr1 j with expect := .abort } := by unfold jErr; rw [if_pos hr1]
    rw [e]
    exact ⟨⟨h0.hbs, h0.known, h0.nofn, h0.dead, h0.flag, h0.cur, h0.ok, h0.cap, h0.sub⟩, hf.bad, hr1, rfl⟩
  | false =>
    have hr1 : (jErr1 j).inRound = false := by rw [hf.inRound, hr]
    have e : jErr j = jErr1 j := by unfold jErr; rw [if_neg (by rw [hr1]; decide)]
    rw [e]
    exact ⟨h0, hf.bad, hr1, hf.expect⟩

/-- what `sim_stepOp` / `sim_runOps` conclude -/
def StepOK (w : World) (j : JState) (r : World × List Ev × Status) : Prop :=
  if r.2.2 = .err then
    R0 (errorHandler r.1) (r.2.1.foldl judge1 j) ∧ (r.2.1.foldl judge1 j).bad = j.bad ∧
      (r.2.1.foldl judge1 j).inRound = j.inRound ∧
      (r.2.1.foldl judge1 j).expect = (if j.inRound then .abort else j.expect)
  else RP r.1 (r.2.1.foldl judge1 j) ∧ Frame j (r.2.1.foldl judge1 j)

theorem stepOK_one {w w' : World} {j j' : JState} {e : Ev} {st : Status} (hst : st ≠ .err)
    (hj : judge1 j e = j') (h : RP w' j') (hf : Frame j j') : StepOK w j (w', [e], st) := by
  unfold StepOK
  simp only [List.foldl, hst, if_false, hj]
  exact ⟨h, hf⟩

theorem sim_stepOp {w : World} {j : JState} (h : RP w j) (ha : opAllowed j = true) (self : Nat) (op : Op) :
    StepOK w j (stepOp w self op) := by
  have hal := alive_eq h.1
  cases op with
  | shb t n =>
    cases hat : w.alive t with
    | false =>
      have hjt : j.alive t = false := by rw [← hal, hat]
      have hst : stepOp w self (.shb t n) = (w, [.shbDead self t n], .ok) := by simp [stepOp, hat]
      rw [hst]
      exact stepOK_one (by decide) (by simp [judge1, hjt]) h (Frame.refl j)
    | true =>
      have hjt : j.alive t = true := by rw [← hal, hat]
      have hs := sim_set h t n (alive_not_dead hat)
      have hq := query_eq hs.1 t
      have hst : stepOp w self (.shb t n) =
          (setHeartBeat w t (satEfun n), [.shb self t n (jQuery (jSet j t n) t)], .ok) := by
        simp [stepOp, hat, hq]
      rw [hst]
      exact stepOK_one (by decide) (by simp [judge1, ha, hjt]) hs (jSet_frame j t n)
  | q t =>
    cases hat : w.alive t with
    | false =>
      have hjt : j.alive t = false := by rw [← hal, hat]
      have hst : stepOp w self (.q t) = (w, [.queryDead self t], .ok) := by simp [stepOp, hat]
      rw [hst]
      exact stepOK_one (by decide) (by simp [judge1, hjt]) h (Frame.refl j)
    | true =>
      have hjt : j.alive t = true := by rw [← hal, hat]
      have hst : stepOp w self (.q t) = (w, [.query self t (jQuery j t)], .ok) := by
        simp [stepOp, hat, query_eq h.1 t]
      rw [hst]
      exact stepOK_one (by decide) (by simp [judge1, hjt]) h (Frame.refl j)
  | dest t =>
    by_cases hc : (!w.alive t || decide (t < 2)) = true
    · have hc' : (j.alive t && !decide (t < 2)) = false := by
        rw [← hal]; cases hx : w.alive t <;> cases hy : decide (t < 2) <;> simp_all
      have hst : stepOp w self (.dest t) = (w, [.destNone self t], .ok) := by
        simp only [stepOp]; rw [if_pos hc]
      rw [hst]
      exact stepOK_one (by decide) (by simp only [judge1]; rw [if_neg (by rw [hc']; decide)]) h (Frame.refl j)
    · have hst : stepOp w self (.dest t) =
          ({ setHeartBeat w t 0 with dead := t :: (setHeartBeat w t 0).dead }, [.dest self t],
            if t = self then .stop else .ok) := by
        simp only [stepOp]; rw [if_neg hc]
      simp only [Bool.not_eq_true] at hc
      have hat : w.alive t = true := by cases hx : w.alive t <;> simp_all
      have ht2 : decide (t < 2) = false := by cases hy : decide (t < 2) <;> simp_all
      have hjt : j.alive t = true := by rw [← hal, hat]
      have hs := sim_disable h t (alive_not_dead hat)
      have hfl := jDisable_fields j t
      have hfr := jDisable_frame j t
      have hknown : w.known.contains t = true := by
        unfold World.alive at hat; simp only [Bool.and_eq_true] at hat; exact hat.1
      have hR : RP { setHeartBeat w t 0 with dead := t :: (setHeartBeat w t 0).dead }
          { jDisable j t with dead := t :: j.dead } := by
        refine ⟨⟨hs.1.hbs, hs.1.known, hs.1.nofn, ?_, hs.1.flag, hs.1.cur, hs.1.ok, hs.1.cap, ?_⟩, ?_⟩
        · show t :: (setHeartBeat w t 0).dead = t :: j.dead
          rw [hs.1.dead, hfl.2.2.1]
        · intro x hx
          show (setHeartBeat w t 0).known.contains x = true
          have hx' : (t :: (setHeartBeat w t 0).dead).contains x = true := hx
          simp only [List.contains_cons, Bool.or_eq_true, beq_iff_eq] at hx'
          rcases hx' with hx' | hx'
          · subst hx'; rw [hs.1.known, hfl.1, ← h.1.known]; exact hknown
          · exact hs.1.sub x hx'
        · intro hr; exact hs.2 hr
      have hF : Frame j { jDisable j t with dead := t :: j.dead } := ⟨hfr.bad, hfr.inRound, hfr.expect, hfr.pend⟩
      have hjd : judge1 j (.dest self t) = { jDisable j t with dead := t :: j.dead } := by
        simp [judge1, ha, hjt, ht2]
      rw [hst]
      exact stepOK_one (by split <;> decide) hjd hR hF
  | clone new kind n =>
    cases hk : w.known.contains new with
    | true =>
      have hjk : j.known.contains new = true := by rw [← h.1.known, hk]
      have hst : stepOp w self (.clone new kind n) = (w, [.cloneDup self new], .ok) := by
        simp only [stepOp]; rw [if_pos hk]
      rw [hst]
      exact stepOK_one (by decide) (by simp only [judge1]; rw [if_pos hjk]) h (Frame.refl j)
    | false =>
      have hjk : j.known.contains new = false := by rw [← h.1.known, hk]
      have h1 := sim_disableAlive h (if kind = 0 then 0 else 1)
      have hf1 := jDisableAlive_frame j (if kind = 0 then 0 else 1)
      have hst : stepOp w self (.clone new kind n) =
          (setHeartBeat { setHeartBeat w (if kind = 0 then 0 else 1) 0 with
              known := new :: (setHeartBeat w (if kind = 0 then 0 else 1) 0).known,
              nofn := if kind = 0 then (setHeartBeat w (if kind = 0 then 0 else 1) 0).nofn
                      else new :: (setHeartBeat w (if kind = 0 then 0 else 1) 0).nofn } new (satEfun n),
           [.clone self new (if kind = 0 then 0 else 1) n
              (queryHeartBeat (setHeartBeat { setHeartBeat w (if kind = 0 then 0 else 1) 0 with
              known := new :: (setHeartBeat w (if kind = 0 then 0 else 1) 0).known,
              nofn := if kind = 0 then (setHeartBeat w (if kind = 0 then 0 else 1) 0).nofn
                      else new :: (setHeartBeat w (if kind = 0 then 0 else 1) 0).nofn } new (satEfun n)) new)], .ok) := by
        simp only [stepOp]; rw [if_neg (by rw [hk]; decide)]
      rw [hst]
      generalize setHeartBeat w (if kind = 0 then 0 else 1) 0 = w1 at h1 ⊢
      generalize hj1 : jDisableAlive j (if kind = 0 then 0 else 1) = j1 at h1 hf1
      have hk1 : j1.known = j.known := by rw [← hj1]; exact jDisableAlive_known j _
      have h2 : RP { w1 with known := new :: w1.known, nofn := if kind = 0 then w1.nofn else new :: w1.nofn }
          { j1 with known := new :: j1.known, nofn := if kind = 0 then j1.nofn else new :: j1.nofn } := by
        refine ⟨⟨h1.1.hbs, ?_, ?_, h1.1.dead, h1.1.flag, h1.1.cur, h1.1.ok, h1.1.cap, ?_⟩, h1.2⟩
        · show new :: w1.known = new :: j1.known
          rw [h1.1.known]
        · show (if kind = 0 then w1.nofn else new :: w1.nofn) = (if kind = 0 then j1.nofn else new :: j1.nofn)
          rw [h1.1.nofn]
        · intro x hx
          have := h1.1.sub x hx
          show (new :: w1.known).contains x = true
          simp only [List.contains_cons, Bool.or_eq_true]
          exact Or.inr this
      have hnd : w1.dead.contains new = false := by
        cases hx : w1.dead.contains new with
        | false => rfl
        | true =>
          have := h1.1.sub new hx
          rw [h1.1.known, hk1, hjk] at this; cases this
      have h3 := sim_set h2 new n hnd
      have hq := query_eq h3.1 new
      have hf3 := jSet_frame { j1 with known := new :: j1.known, nofn := if kind = 0 then j1.nofn else new :: j1.nofn } new n
      have hF : Frame j (jSet { j1 with known := new :: j1.known, nofn := if kind = 0 then j1.nofn else new :: j1.nofn } new n) :=
        Frame.trans hf1 ⟨hf3.bad, hf3.inRound, hf3.expect, hf3.pend⟩
      rw [hq]
      refine stepOK_one (by decide) ?_ h3 hF
      have hkk : (if (if kind = 0 then 0 else 1) = 0 then (0 : Nat) else 1) = (if kind = 0 then 0 else 1) := by
        split <;> simp
      have hk0 : ((if kind = 0 then (0 : Nat) else 1) = 0) = (kind = 0) := by
        split <;> simp_all
      simp only [judge1, ha, hjk, hkk, hj1, hk0]
      simp
  | err =>
    unfold stepOp StepOK
    simp only [List.foldl, judge1_err, if_true]
    exact sim_err h
  | flag =>
    have hst : stepOp w self .flag = ({ w with flag := true }, [.flag self], .ok) := rfl
    rw [hst]
    exact stepOK_one (by decide) rfl
      ⟨⟨h.1.hbs, h.1.known, h.1.nofn, h.1.dead, rfl, h.1.cur, h.1.ok, h.1.cap, h.1.sub⟩, h.2⟩
      ⟨rfl, rfl, rfl, Nat.le_refl _⟩
  | hbs =>
    have hst : stepOp w self .hbs = (w, [.hbs self (j.all.map (·.ob)).reverse], .ok) := by
      simp only [stepOp]; rw [h.1.hbs]; rfl
    rw [hst]
    exact stepOK_one (by decide) (by simp [judge1]) h (Frame.refl j)

end NV.C11
